/* LD_PRELOAD shim: makes the process's std::collections::HashMap seed a function of VERIF_HASH_SEED.
 * Rust's std obtains the per-process hash keys through getrandom(2) (libc symbol, weakly linked); when the variable
 * is set we answer with a deterministic stream, otherwise we forward to the kernel. No change to /repo is needed. */
#define _GNU_SOURCE
#include <stddef.h>
#include <stdlib.h>
#include <sys/syscall.h>
#include <sys/types.h>
#include <unistd.h>

static unsigned long long state;
static int initialised;

static unsigned long long next(void) {
    unsigned long long z = (state += 0x9e3779b97f4a7c15ULL);
    z = (z ^ (z >> 30)) * 0xbf58476d1ce4e5b9ULL;
    z = (z ^ (z >> 27)) * 0x94d049bb133111ebULL;
    return z ^ (z >> 31);
}

ssize_t getrandom(void *buf, size_t buflen, unsigned int flags) {
    const char *s = getenv("VERIF_HASH_SEED");
    if (!s) {
        return syscall(SYS_getrandom, buf, buflen, flags);
    }
    if (!initialised) {
        state = strtoull(s, 0, 10) * 0x2545F4914F6CDD1DULL + 1;
        initialised = 1;
    }
    unsigned char *p = buf;
    for (size_t i = 0; i < buflen; i++) {
        if (i % 8 == 0) {
            unsigned long long v = next();
            for (int k = 0; k < 8 && i + k < buflen; k++) p[i + k] = (unsigned char)(v >> (8 * k));
        }
    }
    return (ssize_t)buflen;
}
