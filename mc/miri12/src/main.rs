//! All operation histories of length <= DEPTH over the C12 alphabet on fixed-slice targets of capacity 0..3, the
//! growable target, and input sources of length 0..3.  No oracle of its own: Miri is the oracle (out-of-bounds
//! pointer arithmetic, reads of uninitialised memory, invalid `set_len`, aliasing violations).  The observable
//! behaviour is C12's business (mc/src/props/c12.rs); here every byte that the API hands out or leaves behind is
//! read once so that uninitialised memory cannot hide.

use slice_codec::buffer::slice::{SliceInputSource, SliceOutputTarget};
use slice_codec::buffer::vec::VecOutputTarget;
use slice_codec::buffer::{InputSource, OutputTarget, Reservation};

#[derive(Clone, Copy, Debug)]
enum Op {
    WriteByte,
    WriteBytes(usize),
    Reserve(usize),
    WriteReserved(usize, usize),
}

fn alphabet() -> Vec<Op> {
    let mut v = vec![Op::WriteByte];
    for k in 0..=3 {
        v.push(Op::WriteBytes(k));
    }
    for k in 0..=3 {
        v.push(Op::Reserve(k));
    }
    for r in 0..2 {
        for k in 0..=3 {
            v.push(Op::WriteReserved(r, k));
        }
    }
    v
}

fn run_target<T: OutputTarget>(t: &mut T, hist: &[Op]) -> u64 {
    let mut reservations: Vec<Reservation> = vec![];
    let mut acc = 0u64;
    for (step, op) in hist.iter().enumerate() {
        let payload = [0x10 + step as u8, 0x20 + step as u8, 0x30 + step as u8];
        let ok = match *op {
            Op::WriteByte => t.write_byte(payload[0]).is_ok(),
            Op::WriteBytes(k) => t.write_bytes_exact(&payload[..k]).is_ok(),
            Op::Reserve(k) => match t.reserve_space(k) {
                Ok(r) => {
                    reservations.push(r);
                    true
                }
                Err(_) => false,
            },
            Op::WriteReserved(r, k) => match reservations.get_mut(r) {
                Some(res) => t.write_bytes_into_reserved_exact(res, &payload[..k]).is_ok(),
                None => false,
            },
        };
        acc = acc.wrapping_mul(31).wrapping_add(ok as u64).wrapping_add(t.remaining() as u64 % 7);
    }
    acc
}

fn histories(depth: usize, f: &mut dyn FnMut(&[Op])) {
    let a = alphabet();
    let mut idx = vec![0usize; depth];
    loop {
        let h: Vec<Op> = idx.iter().map(|i| a[*i]).collect();
        f(&h);
        let mut p = depth;
        loop {
            if p == 0 {
                return;
            }
            p -= 1;
            idx[p] += 1;
            if idx[p] < a.len() {
                break;
            }
            idx[p] = 0;
        }
    }
}

fn main() {
    let depth: usize = std::env::var("MIRI12_DEPTH").ok().and_then(|s| s.parse().ok()).unwrap_or(3);
    let mut n = 0u64;
    let mut acc = 0u64;
    for d in 1..=depth {
        histories(d, &mut |h| {
            for cap in 0..=3usize {
                let mut buf = vec![0xEEu8; cap];
                {
                    let mut t = SliceOutputTarget::from(&mut buf[..]);
                    acc ^= run_target(&mut t, h);
                }
                acc = acc.wrapping_add(buf.iter().map(|b| *b as u64).sum::<u64>());
                n += 1;
            }
            let mut v: Vec<u8> = Vec::new();
            {
                let mut t = VecOutputTarget::from(&mut v);
                acc ^= run_target(&mut t, h);
            }
            // every byte of the vector is read: uninitialised memory left behind by a reservation would show
            acc = acc.wrapping_add(v.iter().map(|b| *b as u64).sum::<u64>());
            n += 1;
        });
    }
    // input sources: every sequence of <= depth reads / peeks on buffers of length 0..3
    let src_ops = 13usize;
    for d in 1..=depth {
        let mut idx = vec![0usize; d];
        'outer: loop {
            for len in 0..=3usize {
                let data: Vec<u8> = (1..=len as u8).collect();
                let mut s = SliceInputSource::from(&data);
                for o in &idx {
                    let mut dest = [0xA5u8; 3];
                    match *o {
                        0 => acc = acc.wrapping_add(s.peek_byte().map(|b| b as u64).unwrap_or(1000)),
                        1 => acc = acc.wrapping_add(s.read_byte().map(|b| b as u64).unwrap_or(1000)),
                        2 => acc = acc.wrapping_add(s.peek_bytes_exact::<0>().map(|b| b.len() as u64).unwrap_or(1000)),
                        3 => acc = acc.wrapping_add(s.peek_bytes_exact::<2>().map(|b| b[0] as u64 + b[1] as u64).unwrap_or(1000)),
                        4 => acc = acc.wrapping_add(s.read_bytes_exact::<1>().map(|b| b[0] as u64).unwrap_or(1000)),
                        5 => acc = acc.wrapping_add(s.read_bytes_exact::<3>().map(|b| b.iter().map(|x| *x as u64).sum()).unwrap_or(1000)),
                        6 => acc = acc.wrapping_add(s.peek_byte_slice_exact(0).map(|b| b.len() as u64).unwrap_or(1000)),
                        7 => acc = acc.wrapping_add(s.peek_byte_slice_exact(2).map(|b| b.iter().map(|x| *x as u64).sum()).unwrap_or(1000)),
                        8 => acc = acc.wrapping_add(s.read_byte_slice_exact(1).map(|b| b.iter().map(|x| *x as u64).sum()).unwrap_or(1000)),
                        9 => acc = acc.wrapping_add(s.read_byte_slice_exact(3).map(|b| b.iter().map(|x| *x as u64).sum()).unwrap_or(1000)),
                        10 => acc = acc.wrapping_add(s.read_bytes_into_exact(&mut dest[..0]).is_ok() as u64),
                        11 => acc = acc.wrapping_add(s.read_bytes_into_exact(&mut dest[..2]).is_ok() as u64 + dest.iter().map(|x| *x as u64).sum::<u64>()),
                        _ => acc = acc.wrapping_add(s.read_bytes_into_exact(&mut dest[..3]).is_ok() as u64 + dest.iter().map(|x| *x as u64).sum::<u64>()),
                    }
                    acc = acc.wrapping_add(s.remaining() as u64);
                }
                n += 1;
            }
            let mut p = d;
            loop {
                if p == 0 {
                    break 'outer;
                }
                p -= 1;
                idx[p] += 1;
                if idx[p] < src_ops {
                    break;
                }
                idx[p] = 0;
            }
        }
    }
    println!("MIRI12 histories={n} checksum={acc:x} depth={depth}");
}
