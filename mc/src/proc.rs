//! E3 — process-level scenarios (filled in later).
