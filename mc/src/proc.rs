//! E3 — process-level scenario engine with scripted fake generators (fault injection).
//!
//! Runs the REAL `slicec` binary (built from /repo/slicec/src/main.rs, sibling of `current_exe()`) on one
//! *scenario* inside a fresh private scratch directory and returns everything that can be observed from outside.
//!
//! # API
//!
//! * [`Scenario`] — `tree`: relative path → [`Node`] (`File(bytes)`, `Dir`, `Symlink(target)`) materialised below the
//!   work directory (input files, pre-existing output directories/files; regular files get the fixed old mtime
//!   [`OLD_MTIME_S`] so that "rewritten" is visible whatever the clock granularity); `gens`: the fake generators
//!   ([`Gen`] = name + [`Install`]: `Script(..)`, `Missing`, `NotExecutable`); `argv`: the slicec arguments;
//!   `env`: extra environment.  Placeholders expanded in `argv` and `env` values: `{work}` (= `{scratch}`, absolute
//!   work directory = cwd of slicec), `{gendir}`, `{genN}` (absolute path of generator N), `{relgenN}`
//!   (`../gen/<name>`, relative to the cwd).
//! * [`Script`] = list of [`Step`]s (`ReadAll`, `Read(n)`, `CloseStdin`, `Sleep(ms)`, `Stdout(bytes)`,
//!   `Stderr(bytes)`, `CloseStdout`, `Exit(code)`, `Kill(signal)`), executed by `/verif/mc/src/bin/fakegen.rs`.
//! * [`run`]`(&Scenario, timeout) -> `[`Obs`] — creates a [`Scratch`], runs, removes it.  [`run_in`] does the same in
//!   a caller-created [`Scratch`] (needed when the scenario must contain the absolute scratch path, e.g. an absolute
//!   output path inside a generator reply): `let s = Scratch::new(); let sc = build(s.work()); run_in(&s, &sc, t)`.
//! * [`Obs`] — `exit_code`, `signal`, `timed_out` (watchdog fired: the whole process group was SIGKILLed), `stdout`,
//!   `stderr`, `wall`, `gens` (per generator [`GenObs`]: path as spelled by `{genN}`, `started` count, captured
//!   `stdin`, `done`), `before` / `after` ([`Tree`] snapshots of the work directory: relative path → [`Entry`] with
//!   kind, contents, inode, mtime in ns, mode), `argv` (expanded).  Helpers: [`Obs::error_lines`],
//!   [`Obs::panic_location`], [`Obs::changed_paths`].
//! * Reply / request helpers written from the Compiler schema (/repo/slice/Compiler/CodeGenerator.slice) on top of
//!   the independent reference codec (`refcodec`): [`enc_size`], [`enc_str`], [`enc_raw_str`], [`encode_reply`],
//!   [`decode_reply`], [`encode_arguments`], [`split_request`] (captured stdin = request ++ own arguments),
//!   [`gen_spec`] (renders a `-G` value with escaping).
//!
//! Layout of a scratch directory `<tmp>/mc-e3-<pid>-<counter>/`: `work/` (cwd of slicec; only this is
//! snapshotted) and `gen/` (hard links of `fakegen` + `<name>.script`, `.started`, `.stdin`, `.done`).
//! Determinism: stdin of slicec is /dev/null, colours are forced off (`NO_COLOR=1`, `CLICOLOR_FORCE=0`),
//! `RUST_BACKTRACE=0`; every scenario has its own directory, so scenarios can run in parallel worker processes.
//! `VERIF_E3_DEBUG=1` prints every run's observation summary on stderr (useful with `mc <ID> --case ...`).

use crate::refcodec::{ref_decode, ref_var, Rd, Ty, V};
use serde_json::{json, Value};
use std::collections::BTreeMap;
use std::io::Read;
use std::os::unix::fs::{MetadataExt, PermissionsExt};
use std::os::unix::process::{CommandExt, ExitStatusExt};
use std::path::{Path, PathBuf};
use std::process::{Command, Stdio};
use std::sync::atomic::{AtomicBool, AtomicU64, Ordering};
use std::sync::Arc;
use std::time::{Duration, Instant, SystemTime};

/// Modification time (seconds since the epoch) given to every regular file the engine materialises.
pub const OLD_MTIME_S: u64 = 1_000_000_000;

// ------------------------------------------------------------------------------------------------------------
// Scenario description

#[derive(Clone, Debug, PartialEq)]
pub enum Node {
    File(Vec<u8>),
    Dir,
    Symlink(String),
    /// a named pipe (nobody ever opens its other end)
    Fifo,
}

#[derive(Clone, Debug, PartialEq)]
pub enum Step {
    /// read stdin until EOF (slicec closes a generator's stdin only when it starts collecting that generator)
    ReadAll,
    /// read exactly n bytes (or until EOF)
    Read(usize),
    CloseStdin,
    /// explicit delay point
    Sleep(u64),
    Stdout(Vec<u8>),
    Stderr(Vec<u8>),
    CloseStdout,
    Exit(i32),
    /// kill itself with this signal (default disposition, no core file)
    Kill(i32),
}

#[derive(Clone, Debug, PartialEq, Default)]
pub struct Script(pub Vec<Step>);

#[derive(Clone, Debug, PartialEq)]
pub enum Install {
    Script(Script),
    /// the path given to slicec does not exist
    Missing,
    /// the path exists but is a regular file without any execute bit
    NotExecutable,
}

#[derive(Clone, Debug, PartialEq)]
pub struct Gen {
    pub name: String,
    pub install: Install,
}

#[derive(Clone, Debug, Default)]
pub struct Scenario {
    pub tree: Vec<(String, Node)>,
    pub gens: Vec<Gen>,
    pub argv: Vec<String>,
    pub env: Vec<(String, String)>,
}

pub fn hex(b: &[u8]) -> String {
    let mut s = String::with_capacity(b.len() * 2);
    for x in b {
        s.push_str(&format!("{x:02x}"));
    }
    s
}

/// Bytes for humans: text if printable UTF-8, otherwise hex; long values are abbreviated.
pub fn show_bytes(b: &[u8]) -> String {
    let printable = std::str::from_utf8(b).ok().filter(|s| s.chars().all(|c| c == '\n' || c == '\t' || !c.is_control()));
    let (tag, body) = match printable {
        Some(s) => ("text", s.to_string()),
        None => ("hex", hex(b)),
    };
    if body.chars().count() > 240 {
        let head: String = body.chars().take(160).collect();
        let tail: String = body.chars().rev().take(40).collect::<Vec<_>>().into_iter().rev().collect();
        format!("{tag}[{} bytes]:{head}…{tail}", b.len())
    } else {
        format!("{tag}:{body}")
    }
}

impl Step {
    /// The form `fakegen` reads.
    pub fn to_json(&self) -> Value {
        match self {
            Step::ReadAll => json!({"op":"read_all"}),
            Step::Read(n) => json!({"op":"read","n":n}),
            Step::CloseStdin => json!({"op":"close_stdin"}),
            Step::Sleep(ms) => json!({"op":"sleep","ms":ms}),
            Step::Stdout(b) => json!({"op":"stdout","hex":hex(b)}),
            Step::Stderr(b) => json!({"op":"stderr","hex":hex(b)}),
            Step::CloseStdout => json!({"op":"close_stdout"}),
            Step::Exit(c) => json!({"op":"exit","code":c}),
            Step::Kill(s) => json!({"op":"kill","signal":s}),
        }
    }
    /// Short human readable form for `describe()`.
    pub fn show(&self) -> String {
        match self {
            Step::ReadAll => "read-all-stdin".into(),
            Step::Read(n) => format!("read {n} bytes"),
            Step::CloseStdin => "close-stdin".into(),
            Step::Sleep(ms) => format!("sleep {ms}ms"),
            Step::Stdout(b) => match decode_reply(b) {
                Some((files, diags, used)) => format!(
                    "stdout {} (decodes as reply: files={:?} diagnostics={:?}{})",
                    show_bytes(b),
                    files.iter().map(|f| (f.path.as_str(), crate::util::truncate(&f.contents, 60))).collect::<Vec<_>>(),
                    diags.iter().map(|d| (d.level, d.message.as_str(), d.source.as_deref())).collect::<Vec<_>>(),
                    if used < b.len() { format!(" + {} trailing bytes", b.len() - used) } else { String::new() }
                ),
                None => format!("stdout {} (does not decode as a reply)", show_bytes(b)),
            },
            Step::Stderr(b) => format!("stderr {}", show_bytes(b)),
            Step::CloseStdout => "close-stdout".into(),
            Step::Exit(c) => format!("exit {c}"),
            Step::Kill(s) => format!("kill-self signal {s}"),
        }
    }
}

impl Script {
    pub fn to_json(&self) -> Value {
        json!({"steps": self.0.iter().map(|s| s.to_json()).collect::<Vec<_>>()})
    }
    pub fn show(&self) -> Vec<String> {
        self.0.iter().map(|s| s.show()).collect()
    }
}

impl Scenario {
    /// Rendering for `describe()` / replay files: argv (placeholders unexpanded), files, generator scripts.
    pub fn to_json(&self) -> Value {
        json!({
            "slicec_argv": self.argv,
            "env": self.env,
            "work_dir_tree": self.tree.iter().map(|(p, n)| match n {
                Node::File(b) => json!({"path": p, "file": show_bytes(b)}),
                Node::Dir => json!({"path": p, "dir": true}),
                Node::Symlink(t) => json!({"path": p, "symlink_to": t}),
                Node::Fifo => json!({"path": p, "fifo": true}),
            }).collect::<Vec<_>>(),
            "generators": self.gens.iter().enumerate().map(|(i, g)| json!({
                "placeholder": format!("{{gen{i}}}"),
                "name": g.name,
                "install": match &g.install {
                    Install::Script(s) => json!({"script": s.show()}),
                    Install::Missing => json!("missing executable"),
                    Install::NotExecutable => json!("file without execute permission"),
                },
            })).collect::<Vec<_>>(),
        })
    }
}

// ------------------------------------------------------------------------------------------------------------
// Scratch directory

static COUNTER: AtomicU64 = AtomicU64::new(0);

/// A private directory `<tmp>/mc-e3-<pid>-<counter>/{work,gen}`, removed on drop (also during unwinding).
pub struct Scratch {
    root: PathBuf,
}

impl Scratch {
    pub fn new() -> Scratch {
        let n = COUNTER.fetch_add(1, Ordering::SeqCst);
        let root = std::env::temp_dir().join(format!("mc-e3-{}-{}", std::process::id(), n));
        let _ = std::fs::remove_dir_all(&root);
        std::fs::create_dir_all(root.join("work")).expect("create scratch work dir");
        std::fs::create_dir_all(root.join("gen")).expect("create scratch gen dir");
        Scratch { root }
    }
    pub fn root(&self) -> &Path {
        &self.root
    }
    /// cwd of slicec; the only part that is snapshotted.
    pub fn work(&self) -> PathBuf {
        self.root.join("work")
    }
    pub fn gendir(&self) -> PathBuf {
        self.root.join("gen")
    }
    pub fn gen_path(&self, name: &str) -> PathBuf {
        self.root.join("gen").join(name)
    }
}

impl Drop for Scratch {
    fn drop(&mut self) {
        // make everything removable again (a scenario may have produced read-only directories)
        fn fix(p: &Path) {
            if let Ok(md) = std::fs::symlink_metadata(p) {
                if md.is_dir() {
                    let _ = std::fs::set_permissions(p, std::fs::Permissions::from_mode(0o755));
                    if let Ok(rd) = std::fs::read_dir(p) {
                        for e in rd.flatten() {
                            fix(&e.path());
                        }
                    }
                }
            }
        }
        if std::fs::remove_dir_all(&self.root).is_err() {
            fix(&self.root);
            let _ = std::fs::remove_dir_all(&self.root);
        }
    }
}

// ------------------------------------------------------------------------------------------------------------
// Observations

#[derive(Clone, Debug, PartialEq, Eq)]
pub enum Kind {
    File,
    Dir,
    Symlink,
    Other,
}

#[derive(Clone, Debug, PartialEq, Eq)]
pub struct Entry {
    pub kind: Kind,
    /// file bytes, or the link target for a symlink; empty for directories
    pub contents: Vec<u8>,
    pub inode: u64,
    pub mtime_ns: i128,
    pub mode: u32,
}

pub type Tree = BTreeMap<String, Entry>;

#[derive(Clone, Debug)]
pub struct GenObs {
    pub name: String,
    /// the absolute path (`{genN}`)
    pub path: String,
    /// how many times the executable was started (0 = never)
    pub started: u32,
    /// everything it read from stdin (None if it never started)
    pub stdin: Option<Vec<u8>>,
    /// the script ran to its end (exit / self-kill); false if never started or killed from outside
    pub done: bool,
}

#[derive(Clone, Debug)]
pub struct Obs {
    pub exit_code: Option<i32>,
    pub signal: Option<i32>,
    pub timed_out: bool,
    pub stdout: Vec<u8>,
    pub stderr: Vec<u8>,
    pub wall: Duration,
    pub gens: Vec<GenObs>,
    pub before: Tree,
    pub after: Tree,
    pub argv: Vec<String>,
    pub work_dir: String,
}

impl Obs {
    pub fn stderr_text(&self) -> String {
        String::from_utf8_lossy(&self.stderr).to_string()
    }
    pub fn stdout_text(&self) -> String {
        String::from_utf8_lossy(&self.stdout).to_string()
    }
    /// Lines of stderr that open an Error diagnostic in the human format (`error [E...]: ...`).
    pub fn error_lines(&self) -> Vec<String> {
        self.stderr_text().lines().filter(|l| l.starts_with("error [")).map(|l| l.to_string()).collect()
    }
    pub fn warning_lines(&self) -> Vec<String> {
        self.stderr_text().lines().filter(|l| l.starts_with("warning [")).map(|l| l.to_string()).collect()
    }
    /// `Some(file:line)` if slicec's stderr shows a Rust panic.
    pub fn panic_location(&self) -> Option<String> {
        let t = self.stderr_text();
        let i = t.find("panicked at ")?;
        let rest = &t[i + 12..];
        let loc: String = rest.chars().take_while(|c| !c.is_whitespace()).collect();
        let loc = loc.trim_end_matches(':').to_string();
        // drop the column: file:line:col -> file:line
        let parts: Vec<&str> = loc.split(':').collect();
        let loc = if parts.len() >= 3 { format!("{}:{}", parts[0], parts[1]) } else { loc };
        Some(crate::util::short_path(&loc))
    }
    /// Paths of the work directory that were created, removed or modified (kind, contents, inode or mtime)
    /// by the run.  Directories whose only change is their own mtime are not listed.
    pub fn changed_paths(&self) -> Vec<String> {
        let mut out = vec![];
        for (p, a) in &self.after {
            match self.before.get(p) {
                None => out.push(p.clone()),
                Some(b) => {
                    let same = if a.kind == Kind::Dir && b.kind == Kind::Dir { a.inode == b.inode } else { a == b };
                    if !same {
                        out.push(p.clone());
                    }
                }
            }
        }
        for p in self.before.keys() {
            if !self.after.contains_key(p) {
                out.push(p.clone());
            }
        }
        out.sort();
        out
    }
    /// Compact rendering for violation messages.
    pub fn summary(&self) -> String {
        format!(
            "exit={:?} signal={:?} timed_out={} wall={:?} stderr={:?} stdout={:?} gens=[{}] changed={:?}",
            self.exit_code,
            self.signal,
            self.timed_out,
            self.wall,
            crate::util::truncate(&self.stderr_text(), 900),
            crate::util::truncate(&self.stdout_text(), 300),
            self.gens.iter().map(|g| format!("{}:started={},stdin={:?},done={}", g.name, g.started, g.stdin.as_ref().map(|s| s.len()), g.done)).collect::<Vec<_>>().join(" "),
            self.changed_paths(),
        )
    }
}

pub fn snapshot(dir: &Path) -> Tree {
    fn walk(base: &Path, dir: &Path, out: &mut Tree) {
        let Ok(rd) = std::fs::read_dir(dir) else { return };
        for e in rd.flatten() {
            let p = e.path();
            let Ok(md) = std::fs::symlink_metadata(&p) else { continue };
            let rel = p.strip_prefix(base).unwrap().to_string_lossy().to_string();
            let ft = md.file_type();
            let (kind, contents) = if ft.is_symlink() {
                (Kind::Symlink, std::fs::read_link(&p).map(|t| t.to_string_lossy().as_bytes().to_vec()).unwrap_or_default())
            } else if ft.is_dir() {
                (Kind::Dir, vec![])
            } else if ft.is_file() {
                (Kind::File, std::fs::read(&p).unwrap_or_default())
            } else {
                (Kind::Other, vec![])
            };
            let is_dir = kind == Kind::Dir;
            out.insert(rel, Entry { kind, contents, inode: md.ino(), mtime_ns: md.mtime() as i128 * 1_000_000_000 + md.mtime_nsec() as i128, mode: md.mode() });
            if is_dir {
                walk(base, &p, out);
            }
        }
    }
    let mut t = Tree::new();
    walk(dir, dir, &mut t);
    t
}

// ------------------------------------------------------------------------------------------------------------
// Running

fn sibling(name: &str) -> PathBuf {
    let exe = std::env::current_exe().expect("current_exe");
    exe.parent().expect("exe dir").join(name)
}

fn expand(s: &str, scratch: &Scratch, sc: &Scenario) -> String {
    let mut o = s.replace("{work}", &scratch.work().display().to_string());
    o = o.replace("{scratch}", &scratch.work().display().to_string());
    o = o.replace("{gendir}", &scratch.gendir().display().to_string());
    for (i, g) in sc.gens.iter().enumerate().rev() {
        o = o.replace(&format!("{{gen{i}}}"), &scratch.gen_path(&g.name).display().to_string());
        o = o.replace(&format!("{{relgen{i}}}"), &format!("../gen/{}", g.name));
    }
    o
}

fn materialise(scratch: &Scratch, sc: &Scenario) {
    let work = scratch.work();
    let old = SystemTime::UNIX_EPOCH + Duration::from_secs(OLD_MTIME_S);
    for (rel, node) in &sc.tree {
        let p = work.join(rel);
        if let Some(parent) = p.parent() {
            std::fs::create_dir_all(parent).expect("create parent dir");
        }
        match node {
            Node::Dir => std::fs::create_dir_all(&p).expect("create dir"),
            Node::File(b) => {
                std::fs::write(&p, b).expect("write scenario file");
                let f = std::fs::OpenOptions::new().write(true).open(&p).expect("reopen scenario file");
                f.set_modified(old).expect("set mtime");
            }
            Node::Symlink(t) => std::os::unix::fs::symlink(t, &p).expect("create symlink"),
            Node::Fifo => {
                let c = std::ffi::CString::new(p.to_str().expect("UTF-8 path")).unwrap();
                assert_eq!(unsafe { libc::mkfifo(c.as_ptr(), 0o644) }, 0, "mkfifo");
            }
        }
    }
    let fakegen = sibling("fakegen");
    for g in &sc.gens {
        let p = scratch.gen_path(&g.name);
        match &g.install {
            Install::Missing => {}
            Install::NotExecutable => {
                std::fs::write(&p, b"#!/bin/sh\nexit 0\n").expect("write non-executable generator");
                std::fs::set_permissions(&p, std::fs::Permissions::from_mode(0o644)).expect("chmod");
            }
            Install::Script(s) => {
                if std::fs::hard_link(&fakegen, &p).is_err() {
                    std::fs::copy(&fakegen, &p).expect("copy fakegen (is it built next to mc?)");
                    std::fs::set_permissions(&p, std::fs::Permissions::from_mode(0o755)).expect("chmod");
                }
                std::fs::write(format!("{}.script", p.display()), serde_json::to_vec(&s.to_json()).unwrap()).expect("write script");
            }
        }
    }
}

fn drain<R: Read + Send + 'static>(mut r: R) -> std::thread::JoinHandle<Vec<u8>> {
    std::thread::spawn(move || {
        let mut v = Vec::new();
        let _ = r.read_to_end(&mut v);
        v
    })
}

/// Run the scenario in a fresh scratch directory (removed afterwards).
pub fn run(sc: &Scenario, timeout: Duration) -> Obs {
    let obs = {
        let scratch = Scratch::new();
        run_in(&scratch, sc, timeout)
    };
    // A run that reaches the watchdog is repeated once in a fresh directory, and the second observation is the one
    // that counts: a machine that stalls under other load must not be taken for a hang of the subject, a real hang
    // repeats. After a few confirmed timeouts in this process the repetition is dropped (a change that makes every
    // case hang would otherwise cost twice the watchdog per case).
    static CONFIRMED: std::sync::atomic::AtomicU32 = std::sync::atomic::AtomicU32::new(0);
    if obs.timed_out && CONFIRMED.load(std::sync::atomic::Ordering::Relaxed) < 3 {
        let scratch = Scratch::new();
        let again = run_in(&scratch, sc, timeout);
        if again.timed_out {
            CONFIRMED.fetch_add(1, std::sync::atomic::Ordering::Relaxed);
        }
        return again;
    }
    obs
}

/// Run the scenario in `scratch` (which must be fresh).
pub fn run_in(scratch: &Scratch, sc: &Scenario, timeout: Duration) -> Obs {
    materialise(scratch, sc);
    let work = scratch.work();
    let before = snapshot(&work);
    let argv: Vec<String> = sc.argv.iter().map(|a| expand(a, scratch, sc)).collect();

    // (a scenario may name another subject built next to the harness - `emitcs`, a minimal compiler that ends with
    // the library's own exit point - through the pseudo environment entry MC_SUBJECT_BINARY)
    let subject = sc.env.iter().find(|(k, _)| k == "MC_SUBJECT_BINARY").map(|(_, v)| v.clone()).unwrap_or_else(|| "slicec".to_string());
    // (... and where its output streams lead, through MC_STDOUT / MC_STDERR: "pipe" = captured (the default),
    // "full" = /dev/full (every write fails with ENOSPC), "broken" = a pipe nobody reads (EPIPE), "closed" = the
    // descriptor is closed when the program starts)
    let stream = |key: &str| sc.env.iter().find(|(k, _)| k == key).map(|(_, v)| v.clone()).unwrap_or_else(|| "pipe".to_string());
    let (how_out, how_err) = (stream("MC_STDOUT"), stream("MC_STDERR"));
    let stdio = |how: &str| -> Stdio {
        match how {
            "pipe" => Stdio::piped(),
            "full" => Stdio::from(std::fs::OpenOptions::new().write(true).open("/dev/full").expect("open /dev/full")),
            "broken" => {
                let mut fds = [0i32; 2];
                assert_eq!(unsafe { libc::pipe2(fds.as_mut_ptr(), libc::O_CLOEXEC) }, 0, "pipe2");
                unsafe { libc::close(fds[0]) };
                Stdio::from(unsafe { <std::os::fd::OwnedFd as std::os::fd::FromRawFd>::from_raw_fd(fds[1]) })
            }
            "closed" => Stdio::null(), // closed in the child just before exec
            other => panic!("unknown stream disposition {other:?}"),
        }
    };
    let mut cmd = Command::new(sibling(&subject));
    cmd.args(&argv)
        .current_dir(&work)
        .stdin(Stdio::null())
        .stdout(stdio(&how_out))
        .stderr(stdio(&how_err))
        .env("NO_COLOR", "1")
        .env("CLICOLOR_FORCE", "0")
        .env("CLICOLOR", "0")
        .env("RUST_BACKTRACE", "0")
        .process_group(0);
    for (k, v) in &sc.env {
        if !matches!(k.as_str(), "MC_SUBJECT_BINARY" | "MC_STDOUT" | "MC_STDERR") {
            cmd.env(k, expand(v, scratch, sc));
        }
    }
    let (close_out, close_err) = (how_out == "closed", how_err == "closed");
    if close_out || close_err {
        unsafe {
            cmd.pre_exec(move || {
                if close_out {
                    libc::close(1);
                }
                if close_err {
                    libc::close(2);
                }
                Ok(())
            });
        }
    }
    let t0 = Instant::now();
    let mut child = cmd.spawn().expect("spawn slicec (is it built next to mc?)");
    let pid = child.id() as i32;
    let out_h = child.stdout.take().map(drain);
    let err_h = child.stderr.take().map(drain);

    // watchdog: kills the whole process group (slicec and its generators) when the bound expires
    let fired = Arc::new(AtomicBool::new(false));
    let (tx, rx) = std::sync::mpsc::channel::<()>();
    let fired2 = fired.clone();
    let wd = std::thread::spawn(move || {
        if rx.recv_timeout(timeout).is_err() {
            fired2.store(true, Ordering::SeqCst);
            unsafe {
                libc::kill(-pid, libc::SIGKILL);
                libc::kill(pid, libc::SIGKILL);
            }
        }
    });
    let status = child.wait().expect("wait for slicec");
    let wall = t0.elapsed();
    let _ = tx.send(());
    let _ = wd.join();
    let timed_out = fired.load(Ordering::SeqCst);
    // After slicec is gone, generators it did not wait for (it got EPIPE while writing to them) may still be
    // finishing: give every started generator a moment to reach the end of its script.
    let started = |name: &str| std::fs::read(format!("{}.started", scratch.gen_path(name).display())).ok();
    let done = |name: &str| Path::new(&format!("{}.done", scratch.gen_path(name).display())).exists();
    let t1 = Instant::now();
    loop {
        let pending = sc.gens.iter().any(|g| matches!(g.install, Install::Script(_)) && started(&g.name).is_some() && !done(&g.name));
        if !pending || timed_out || t1.elapsed() > Duration::from_secs(3) {
            break;
        }
        std::thread::sleep(Duration::from_millis(1));
    }
    if timed_out {
        unsafe { libc::kill(-pid, libc::SIGKILL) };
    }
    let stdout = out_h.map(|h| h.join().unwrap_or_default()).unwrap_or_default();
    let stderr = err_h.map(|h| h.join().unwrap_or_default()).unwrap_or_default();

    let gens = sc
        .gens
        .iter()
        .map(|g| {
            let p = scratch.gen_path(&g.name);
            let st = started(&g.name);
            GenObs {
                name: g.name.clone(),
                path: p.display().to_string(),
                started: st.as_ref().map(|b| b.iter().filter(|c| **c == b'\n').count() as u32).unwrap_or(0),
                stdin: if st.is_some() { Some(std::fs::read(format!("{}.stdin", p.display())).unwrap_or_default()) } else { None },
                done: done(&g.name),
            }
        })
        .collect();
    let after = snapshot(&work);
    let obs = Obs { exit_code: status.code(), signal: status.signal(), timed_out, stdout, stderr, wall, gens, before, after, argv, work_dir: work.display().to_string() };
    if std::env::var_os("VERIF_E3_DEBUG").is_some() {
        eprintln!("E3: argv={:?} {}", obs.argv, obs.summary());
    }
    obs
}

// ------------------------------------------------------------------------------------------------------------
// Wire helpers (Compiler schema: /repo/slice/Compiler/CodeGenerator.slice)

/// varuint62 size: shortest of 1/2/4/8 bytes holding (n << 2) | code.
pub fn enc_size(n: u64) -> Vec<u8> {
    ref_var(n as i128, false).expect("size fits 62 bits")
}

/// string = size + UTF-8 bytes
pub fn enc_str(s: &str) -> Vec<u8> {
    enc_raw_str(s.as_bytes())
}

/// "string" whose bytes need not be UTF-8 (for fault injection)
pub fn enc_raw_str(b: &[u8]) -> Vec<u8> {
    let mut o = enc_size(b.len() as u64);
    o.extend_from_slice(b);
    o
}

/// tag end marker of a non-compact struct: varint32 -1
pub const TAG_END: u8 = 0xFC;

#[derive(Clone, Debug, PartialEq, Eq)]
pub struct RFile {
    pub path: String,
    pub contents: String,
}

#[derive(Clone, Debug, PartialEq, Eq)]
pub struct RDiag {
    /// 0 = Info, 1 = Warning, 2 = Error
    pub level: u8,
    pub message: String,
    pub source: Option<String>,
}

pub fn rfile(path: &str, contents: &str) -> RFile {
    RFile { path: path.to_string(), contents: contents.to_string() }
}

/// Encoding of the generator's reply: `Sequence<GeneratedFile>` then `Sequence<Diagnostic>`.
pub fn encode_reply(files: &[RFile], diags: &[RDiag]) -> Vec<u8> {
    let mut o = enc_size(files.len() as u64);
    for f in files {
        o.extend(enc_str(&f.path));
        o.extend(enc_str(&f.contents));
        o.push(TAG_END);
    }
    o.extend(enc_size(diags.len() as u64));
    for d in diags {
        o.push(d.source.is_some() as u8); // bit sequence: bit 0 = `source` is present
        o.push(d.level);
        o.extend(enc_str(&d.message));
        if let Some(s) = &d.source {
            o.extend(enc_str(s));
        }
        o.push(TAG_END);
    }
    o
}

/// Decode a reply with the independent reference decoder; `Some((files, diagnostics, consumed))` if a reply
/// decodes from the start of `bytes` (trailing bytes are reported through `consumed < bytes.len()`).
pub fn decode_reply(bytes: &[u8]) -> Option<(Vec<RFile>, Vec<RDiag>, usize)> {
    let mut rd = Rd { b: bytes, pos: 0 };
    let v = ref_decode(&Ty::Reply, &mut rd).ok()?;
    let V::Struct(parts) = v else { return None };
    let (V::Seq(fs), V::Seq(ds)) = (&parts[0], &parts[1]) else { return None };
    let s = |v: &V| match v {
        V::Str(s) => s.clone(),
        _ => String::new(),
    };
    let files = fs
        .iter()
        .map(|f| match f {
            V::Struct(p) => RFile { path: s(&p[0]), contents: s(&p[1]) },
            _ => unreachable!(),
        })
        .collect();
    let diags = ds
        .iter()
        .map(|d| match d {
            V::Struct(p) => RDiag {
                level: match &p[0] {
                    V::Int(i) => *i as u8,
                    _ => 0,
                },
                message: s(&p[1]),
                source: match &p[2] {
                    V::Str(x) => Some(x.clone()),
                    _ => None,
                },
            },
            _ => unreachable!(),
        })
        .collect();
    Some((files, diags, rd.pos))
}

/// Encoding of a generator's own arguments (`Dictionary<string, string>`): size, then key and value strings in
/// command-line order.
pub fn encode_arguments(args: &[(String, String)]) -> Vec<u8> {
    let mut o = enc_size(args.len() as u64);
    for (k, v) in args {
        o.extend(enc_str(k));
        o.extend(enc_str(v));
    }
    o
}

/// A generator's stdin must be `request ++ encode_arguments(own args)`.  Returns the request part if the
/// captured stdin ends with the expected argument bytes, None otherwise.  (The request is not self-delimiting
/// from the end, so the split is made by comparing the expected suffix; the caller then demands that the
/// request part is byte-identical for all generators of the run.)
pub fn split_request<'a>(stdin: &'a [u8], args: &[(String, String)]) -> Option<&'a [u8]> {
    let suffix = encode_arguments(args);
    if stdin.len() >= suffix.len() && stdin[stdin.len() - suffix.len()..] == suffix[..] {
        Some(&stdin[..stdin.len() - suffix.len()])
    } else {
        None
    }
}

/// Every request starts with the operation name `"generateCode"` encoded as a string.
pub fn request_has_operation_name(request: &[u8]) -> bool {
    request.starts_with(&enc_str("generateCode"))
}

/// Render a `-G` value: path and `key=value` arguments with ',' and '=' escaped by a backslash.
pub fn gen_spec(path: &str, args: &[(String, String)]) -> String {
    fn esc(s: &str) -> String {
        let mut o = String::new();
        for c in s.chars() {
            if c == ',' || c == '=' {
                o.push('\\');
            }
            o.push(c);
        }
        o
    }
    let mut s = esc(path);
    for (k, v) in args {
        s.push(',');
        s.push_str(&esc(k));
        if !v.is_empty() {
            s.push('=');
            s.push_str(&esc(v));
        }
    }
    s
}
