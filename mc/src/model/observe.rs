//! Observer: walks the real CompilationState through the public API and produces the normalised tree.

use super::doc;
use super::print::normalised_args;
use super::tree::*;
use slicec::compilation_state::CompilationState;
use slicec::grammar::attributes::{Allow, Compress, Deprecated, Oneway, SlicedFormat, Unparsed};
use slicec::grammar::*;
use slicec::slice_file::{SliceFile, Span};

pub fn sp(s: &Span) -> Sp {
    Sp { sr: s.start.row, sc: s.start.col, er: s.end.row, ec: s.end.col }
}

pub fn attr_args(a: &Attribute) -> Vec<String> {
    if let Some(u) = a.downcast::<Unparsed>() {
        return u.args.clone();
    }
    if let Some(x) = a.downcast::<Allow>() {
        return x.allowed_lints.clone();
    }
    if let Some(x) = a.downcast::<Compress>() {
        let mut v = vec![];
        if x.compress_args {
            v.push("Args".to_string());
        }
        if x.compress_return {
            v.push("Return".to_string());
        }
        return v;
    }
    if let Some(x) = a.downcast::<Deprecated>() {
        return x.reason.iter().cloned().collect();
    }
    if a.downcast::<Oneway>().is_some() {
        return vec![];
    }
    if let Some(x) = a.downcast::<SlicedFormat>() {
        let mut v = vec![];
        if x.sliced_args {
            v.push("Args".to_string());
        }
        if x.sliced_return {
            v.push("Return".to_string());
        }
        return v;
    }
    vec!["<attribute of unknown kind>".to_string()]
}

fn attr(a: &Attribute, kind: &'static str) -> Node {
    let mut n = Node::new(kind);
    let d = a.kind.directive().to_string();
    n.prop("directive", &d);
    // unparsed (foreign) attributes are verbatim; known ones are compared through their typed fields
    let args = normalised_args(&d, &attr_args(a));
    n.prop("args", &args.join("\u{1f}"));
    // (an empty list and a list of one empty string join to the same text)
    n.prop("argc", &args.len().to_string());
    n.span = Some(sp(a.span()));
    n
}

fn ident(i: &Identifier) -> Node {
    let mut n = Node::new("identifier");
    n.prop("value", &i.value);
    n.span = Some(sp(&i.span));
    n
}

pub fn type_node<T: Element + ?Sized>(t: &TypeRef<T>, kind: &'static str, describe: &dyn Fn(&T) -> (String, Vec<Node>)) -> Node {
    let mut n = Node::new(kind);
    for a in t.attributes() {
        n.children.push(attr(a, "attr"));
    }
    match &t.definition {
        TypeRefDefinition::Unpatched(id) => n.prop("is", &format!("unpatched:{}", id.value)),
        TypeRefDefinition::Patched(_) => {
            let (is, kids) = describe(t.definition());
            n.prop("is", &is);
            n.children.extend(kids);
        }
    }
    n.prop("optional", if t.is_optional { "true" } else { "false" });
    n.span = Some(sp(t.span()));
    n
}

fn describe_type(t: &dyn Type, depth: usize) -> (String, Vec<Node>) {
    if depth > 40 {
        return ("<nesting deeper than 40: cyclic type>".to_string(), vec![]);
    }
    match t.concrete_type() {
        Types::Primitive(p) => (format!("prim:{}", p.kind()), vec![]),
        Types::Struct(s) => (format!("def:struct:{}", s.module_scoped_identifier()), vec![]),
        Types::Enum(s) => (format!("def:enum:{}", s.module_scoped_identifier()), vec![]),
        Types::CustomType(s) => (format!("def:custom:{}", s.module_scoped_identifier()), vec![]),
        Types::Sequence(s) => ("seq".to_string(), vec![ty_d(&s.element_type, depth + 1)]),
        Types::Dictionary(d) => ("dict".to_string(), vec![ty_d(&d.key_type, depth + 1), ty_d(&d.value_type, depth + 1)]),
        Types::ResultType(r) => ("result".to_string(), vec![ty_d(&r.success_type, depth + 1), ty_d(&r.failure_type, depth + 1)]),
    }
}

fn ty_d(t: &TypeRef, depth: usize) -> Node {
    type_node(t, "type", &|d: &(dyn Type + 'static)| describe_type(d, depth))
}

pub fn ty(t: &TypeRef) -> Node {
    ty_d(t, 0)
}

fn tag_prop(n: &mut Node, tag: Option<&Integer<u32>>) {
    match tag {
        Some(t) => {
            n.prop("tag", &t.value.to_string());
            let mut lit = Node::new("tagvalue");
            lit.prop("value", &t.value.to_string());
            lit.span = Some(sp(&t.span));
            n.children.push(lit);
        }
        None => n.prop("tag", "none"),
    }
}

fn field(f: &Field) -> Node {
    let mut n = Node::new("field");
    tag_prop(&mut n, f.tag.as_ref());
    n.prop("id", f.identifier());
    for a in f.attributes() {
        n.children.push(attr(a, "attr"));
    }
    n.children.extend(doc::observe(f.comment()));
    n.children.push(ident(&f.identifier));
    n.children.push(ty(&f.data_type));
    n.span = Some(sp(f.span()));
    n
}

fn param(p: &Parameter, kind: &'static str, single_return: bool) -> Node {
    let mut n = Node::new(kind);
    tag_prop(&mut n, p.tag.as_ref());
    n.prop("id", p.identifier());
    n.prop("stream", if p.is_streamed { "true" } else { "false" });
    for a in p.attributes() {
        n.children.push(attr(a, "attr"));
    }
    if !single_return {
        n.children.push(ident(&p.identifier));
    }
    n.children.push(ty(&p.data_type));
    n.span = Some(sp(p.span()));
    n
}

fn with_common(n: &mut Node, e: &(impl Commentable + ?Sized), id: &Identifier) {
    n.props.insert(0, ("id", e.identifier().to_string()));
    for a in e.attributes() {
        n.children.push(attr(a, "attr"));
    }
    n.children.extend(doc::observe(e.comment()));
    n.children.push(ident(id));
    n.span = Some(sp(e.span()));
}

pub fn definition(d: &Definition) -> Node {
    match d {
        Definition::Struct(s) => {
            let s = s.borrow();
            let mut n = Node::new("struct");
            n.prop("compact", if s.is_compact { "true" } else { "false" });
            with_common(&mut n, s, &s.identifier);
            for f in s.fields() {
                n.children.push(field(f));
            }
            n
        }
        Definition::Interface(i) => {
            let i = i.borrow();
            let mut n = Node::new("interface");
            with_common(&mut n, i, &i.identifier);
            for b in &i.bases {
                n.children.push(type_node(b, "base", &|d: &Interface| (format!("def:interface:{}", d.module_scoped_identifier()), vec![])));
            }
            for o in i.operations() {
                let mut x = Node::new("operation");
                x.prop("idempotent", if o.is_idempotent { "true" } else { "false" });
                with_common(&mut x, o, &o.identifier);
                // "id" was inserted first by with_common; keep the same property set as the expected side
                for p in o.parameters() {
                    x.children.push(param(p, "param", false));
                }
                let rets = o.return_members();
                let single = rets.len() == 1 && rets[0].identifier() == "returnValue" && rets[0].identifier.span == rets[0].span;
                for r in rets {
                    x.children.push(param(r, "ret", single));
                }
                n.children.push(x);
            }
            n
        }
        Definition::Enum(e) => {
            let e = e.borrow();
            let mut n = Node::new("enum");
            n.prop("compact", if e.is_compact { "true" } else { "false" });
            n.prop("unchecked", if e.is_unchecked { "true" } else { "false" });
            with_common(&mut n, e, &e.identifier);
            if let Some(u) = &e.underlying {
                n.children.push(type_node(u, "underlying", &|d: &Primitive| (format!("prim:{}", d.kind()), vec![])));
            }
            for en in e.enumerators() {
                let mut x = Node::new("enumerator");
                x.prop("has_field_list", if en.fields.is_some() { "true" } else { "false" });
                x.prop("explicit", if matches!(en.value, EnumeratorValue::Explicit(_)) { "true" } else { "false" });
                x.prop("value", &en.value().to_string());
                with_common(&mut x, en, &en.identifier);
                for f in en.fields() {
                    x.children.push(field(f));
                }
                if let EnumeratorValue::Explicit(v) = &en.value {
                    let mut lit = Node::new("valueliteral");
                    lit.prop("value", &v.value.to_string());
                    lit.span = Some(sp(&v.span));
                    x.children.push(lit);
                }
                n.children.push(x);
            }
            n
        }
        Definition::CustomType(c) => {
            let c = c.borrow();
            let mut n = Node::new("custom");
            with_common(&mut n, c, &c.identifier);
            n
        }
        Definition::TypeAlias(a) => {
            let a = a.borrow();
            let mut n = Node::new("alias");
            with_common(&mut n, a, &a.identifier);
            n.children.push(ty(&a.underlying));
            n
        }
    }
}

pub fn file(f: &SliceFile) -> Node {
    let mut root = Node::new("file");
    for a in f.attributes() {
        root.children.push(attr(a, "fileattr"));
    }
    if let Some(m) = &f.module {
        let m = m.borrow();
        let mut n = Node::new("module");
        n.prop("id", m.nested_module_identifier());
        for a in m.attributes() {
            n.children.push(attr(a, "attr"));
        }
        n.children.push(ident(&m.identifier));
        n.span = Some(sp(&m.span));
        root.children.push(n);
    }
    for d in &f.contents {
        root.children.push(definition(d));
    }
    root
}

pub fn files(state: &CompilationState) -> Vec<Node> {
    state.files.iter().map(file).collect()
}
