//! Program families shared by C02, C09 and C20: index -> (model program, layout).

use super::ast::*;
use super::gen::*;
use super::print::*;
use super::run::*;

fn six_layouts() -> Vec<Layout> {
    vec![
        Layout::uniform(Sep::Space, Commas::None),
        Layout::uniform(Sep::Newline, Commas::Between),
        Layout::uniform(Sep::Tight, Commas::Trailing),
        Layout::uniform(Sep::LineComment, Commas::None),
        Layout::uniform(Sep::CrLf, Commas::Between),
        Layout::uniform(Sep::MultiByteComment, Commas::Trailing),
    ]
}

fn may_warn_construct(k: usize) -> bool {
    // deprecated definitions are never *used* by other constructs, so no construct warns
    let _ = k;
    false
}

/// All construct sequences of exactly `depth` constructs x module variant x layouts.
pub struct Sequences {
    pub depth: usize,
    pub layouts: Vec<Layout>,
    /// if true every (sequence, module variant) is combined with every layout; otherwise the layout and the
    /// module variant rotate with the index (each sequence appears once)
    pub full_product: bool,
}
impl ProgFamily for Sequences {
    fn name(&self) -> String {
        format!("construct-sequences/depth={}/{}", self.depth, if self.full_product { format!("x 4 module scopes x {} layouts", self.layouts.len()) } else { "layout and module scope rotate".to_string() })
    }
    fn len(&self) -> u64 {
        let seqs = (N_CONSTRUCTS as u64).pow(self.depth as u32);
        if self.full_product {
            seqs * 4 * self.layouts.len() as u64
        } else {
            seqs
        }
    }
    fn get(&self, idx: u64) -> PCase {
        let nl = self.layouts.len() as u64;
        let (seq_idx, mv, li) = if self.full_product { (idx / (4 * nl), (idx / nl) % 4, idx % nl) } else { (idx, idx % 4, (idx / 4) % nl) };
        let mut ks = vec![];
        let mut s = seq_idx;
        for _ in 0..self.depth {
            ks.push((s % N_CONSTRUCTS as u64) as usize);
            s /= N_CONSTRUCTS as u64;
        }
        let program = sequence_program(&ks, mv as usize);
        PCase { program, layout: self.layouts[li as usize].clone(), label: format!("constructs {ks:?}, module variant {mv}"), may_warn: ks.iter().any(|k| may_warn_construct(*k)) }
    }
}

/// Every type expression up to nesting depth d in every type position.
pub struct TypePositions {
    pub types: Vec<MType>,
    pub layouts: Vec<Layout>,
}
impl TypePositions {
    pub fn new(depth: usize) -> Self {
        TypePositions { types: type_exprs(depth, "Lib::"), layouts: vec![Layout::uniform(Sep::Space, Commas::None), Layout::uniform(Sep::Tight, Commas::Between), Layout::uniform(Sep::BlankLinesIndent, Commas::Trailing)] }
    }
}
impl ProgFamily for TypePositions {
    fn name(&self) -> String {
        format!("type-expressions/{} expressions x {} positions x optional x {} layouts", self.types.len(), N_TYPE_POSITIONS, self.layouts.len())
    }
    fn len(&self) -> u64 {
        (self.types.len() * N_TYPE_POSITIONS * 2 * self.layouts.len()) as u64
    }
    fn get(&self, idx: u64) -> PCase {
        let nl = self.layouts.len() as u64;
        let li = idx % nl;
        let opt = (idx / nl) % 2 == 1;
        let pos = ((idx / nl / 2) % N_TYPE_POSITIONS as u64) as usize;
        let ti = (idx / nl / 2 / N_TYPE_POSITIONS as u64) as usize;
        let t = &self.types[ti];
        // an optional type cannot be made optional again
        let opt = opt && !t.optional;
        PCase { program: type_in_position(t, pos, opt), layout: self.layouts[li as usize].clone(), label: format!("type #{ti} in position {pos}, optional={opt}"), may_warn: false }
    }
}

/// All enumerator value sequences of length <= 3 over the value alphabet.
pub struct EnumValues {
    seqs: Vec<(Vec<Option<MInt>>, bool)>, // (values, with int64 underlying)
}
impl EnumValues {
    pub fn new() -> Self {
        let a = enum_value_alphabet();
        let mut seqs = vec![];
        let mut layer: Vec<Vec<Option<MInt>>> = vec![vec![]];
        for _ in 0..3 {
            let mut next = vec![];
            for s in &layer {
                for v in &a {
                    let mut t = s.clone();
                    t.push(v.clone());
                    next.push(t);
                }
            }
            for s in &next {
                // keep the sequences that make a well-formed enum
                let mut vals = vec![];
                let mut prev: Option<i128> = None;
                for v in s {
                    let x = match v {
                        Some(i) => i.value,
                        None => prev.map_or(0, |p| p + 1),
                    };
                    prev = Some(x);
                    vals.push(x);
                }
                let mut u = vals.clone();
                u.sort();
                u.dedup();
                if u.len() == vals.len() {
                    seqs.push((s.clone(), true));
                    if vals.iter().all(|x| *x >= 0 && *x <= i32::MAX as i128) {
                        seqs.push((s.clone(), false));
                    }
                }
            }
            layer = next;
        }
        EnumValues { seqs }
    }
}
impl ProgFamily for EnumValues {
    fn name(&self) -> String {
        "enumerator-values/all well-formed sequences of length <= 3 over {implicit, 0, 1, 7, -1, -0x10, 0b11, 1_000, 0x7FFF_FFFE, -0x8000_0000, 0_1_0_0} x {int64 underlying, none}, two enums per program".into()
    }
    fn len(&self) -> u64 {
        self.seqs.len() as u64
    }
    fn get(&self, idx: u64) -> PCase {
        let (s, backed) = &self.seqs[idx as usize];
        let mk = |name: &str| {
            let ens = s.iter().enumerate().map(|(i, v)| MEnumerator { c: MCommon::new(&format!("V{i}")), fields: None, value: v.clone() }).collect();
            en(name, if *backed { Some(MType::prim("int64")) } else { None }, ens)
        };
        // a second enum after the first checks that implicit numbering restarts per enum
        let mut f = MFile::module("M");
        f.defs.push(mk("E"));
        f.defs.push(en("F", None, vec![enumerator("A"), enumerator("B")]));
        f.defs.push(mk("G"));
        let layout = if idx % 2 == 0 { Layout::uniform(Sep::Space, Commas::None) } else { Layout::uniform(Sep::Tight, Commas::Between) };
        PCase { program: vec![f], layout, label: format!("values {:?} backed={backed}", s.iter().map(|v| v.as_ref().map(|i| i.spelling.clone())).collect::<Vec<_>>()), may_warn: false }
    }
}

/// Integer spellings (decimal / hex / binary, underscores, sign) at range boundaries as enumerator values and tags.
pub struct IntSpellings {
    ints: Vec<MInt>,
}
impl IntSpellings {
    pub fn new() -> Self {
        IntSpellings { ints: integer_spellings().into_iter().filter(|i| i.value >= -(1i128 << 63) && i.value <= (1i128 << 64) - 1).collect() }
    }
}
impl ProgFamily for IntSpellings {
    fn name(&self) -> String {
        "integer-spellings/dec,hex,bin x underscores x sign at 0,1,9,10,255,2^31-1,2^31,2^63-1,2^63,2^64-1".into()
    }
    fn len(&self) -> u64 {
        self.ints.len() as u64
    }
    fn get(&self, idx: u64) -> PCase {
        let i = &self.ints[idx as usize];
        let underlying = if i.value < 0 { "int64" } else { "uint64" };
        let mut f = MFile::module("M");
        f.defs.push(en("E", Some(MType::prim(underlying)), vec![enumerator_v("A", i.clone()), enumerator("B")].into_iter().take(if i.value == (1i128 << 64) - 1 { 1 } else { 2 }).collect()));
        if i.value >= 0 && i.value <= i32::MAX as i128 {
            let mut fld = MField::new("t", MType::prim("int32").opt());
            fld.tag = Some(i.clone());
            f.defs.push(st("S", vec![fld]));
        }
        PCase { program: vec![f], layout: Layout::uniform(if idx % 2 == 0 { Sep::Space } else { Sep::Tight }, Commas::None), label: format!("literal {}", i.spelling), may_warn: false }
    }
}

/// All string literals of length <= n atoms as attribute arguments.
pub struct StringArgs {
    lits: Vec<String>,
}
impl StringArgs {
    pub fn new(n: usize) -> Self {
        StringArgs { lits: string_literals(n) }
    }
}
impl ProgFamily for StringArgs {
    fn name(&self) -> String {
        format!("string-arguments/{} literals: all of up to n atoms over {{a, space, \\\\, \\\", \\n, é, ], comma, ), //, /*, \\a, tab, 😀}}", self.lits.len())
    }
    fn len(&self) -> u64 {
        self.lits.len() as u64
    }
    fn get(&self, idx: u64) -> PCase {
        let raw = &self.lits[idx as usize];
        let mut f = MFile::module("M");
        let mut d = st("S", vec![MField::new("a", MType::prim("int32").attr(MAttr::with("cs::t", vec![MArg::Str(raw.clone())])))]);
        *d.common_mut() = d.common().clone().attr(MAttr::with("cs::x", vec![MArg::Str(raw.clone()), MArg::Ident("second".into()), MArg::Str(raw.clone())]));
        f.defs.push(d);
        f.file_attrs.push(MAttr::with("cs::file", vec![MArg::Str(raw.clone())]));
        PCase { program: vec![f], layout: Layout::uniform(if idx % 3 == 0 { Sep::Space } else if idx % 3 == 1 { Sep::Tight } else { Sep::BlockComment }, Commas::None), label: format!("literal \"{raw}\""), may_warn: false }
    }
}

/// Every attribute form in every attributable position.
pub struct AttrPositions {
    forms: Vec<MAttr>,
}
impl AttrPositions {
    pub fn new() -> Self {
        AttrPositions { forms: attribute_forms() }
    }
}
impl ProgFamily for AttrPositions {
    fn name(&self) -> String {
        format!("attribute-forms/{} forms x {} positions x 2 layouts", self.forms.len(), N_ATTR_POSITIONS)
    }
    fn len(&self) -> u64 {
        (self.forms.len() * N_ATTR_POSITIONS * 2) as u64
    }
    fn get(&self, idx: u64) -> PCase {
        let li = idx % 2;
        let pos = ((idx / 2) % N_ATTR_POSITIONS as u64) as usize;
        let fi = (idx / 2 / N_ATTR_POSITIONS as u64) as usize;
        let mut layout = Layout::uniform(if li == 0 { Sep::Space } else { Sep::Tight }, Commas::None);
        layout.trailing_in_lists = false;
        PCase { program: attr_in_position(&self.forms[fi], pos), layout, label: format!("attribute form #{fi} in position {pos}"), may_warn: false }
    }
}

/// Tiny programs under EVERY assignment of separators to their first `gaps` token gaps.
pub struct PerGap {
    pub gaps: usize,
    progs: Vec<Program>,
}
pub const GAP_SEPS: [u8; 5] = [0, 1, 7, 3, 4]; // Space, Newline, Tight, BlockComment, LineComment
impl PerGap {
    pub fn new(gaps: usize) -> Self {
        PerGap { gaps, progs: tiny_programs() }
    }
}
impl ProgFamily for PerGap {
    fn name(&self) -> String {
        format!("per-gap-layouts/{} tiny programs x every assignment of 5 separators to the first {} token gaps", self.progs.len(), self.gaps)
    }
    fn len(&self) -> u64 {
        self.progs.len() as u64 * 5u64.pow(self.gaps as u32)
    }
    fn get(&self, idx: u64) -> PCase {
        let per = 5u64.pow(self.gaps as u32);
        let pi = (idx / per) as usize;
        let mut a = idx % per;
        let mut v = vec![];
        for _ in 0..self.gaps {
            v.push(GAP_SEPS[(a % 5) as usize]);
            a /= 5;
        }
        let mut layout = Layout::uniform(Sep::Space, Commas::None);
        layout.per_gap = Some(v.clone());
        PCase { program: self.progs[pi].clone(), layout, label: format!("tiny program {pi}, separators {v:?}"), may_warn: false }
    }
}

/// Programs with preprocessor lines (that remove nothing) before and between definitions: the lexer's cursor is
/// re-seated at every source block.
pub struct WithDirectives {
    pub inner: Sequences,
}
impl ProgFamily for WithDirectives {
    fn name(&self) -> String {
        format!("preprocessor-blocks-between-definitions/{}", self.inner.name())
    }
    fn len(&self) -> u64 {
        self.inner.len()
    }
    fn get(&self, idx: u64) -> PCase {
        let mut c = self.inner.get(idx);
        let f = &mut c.program[0];
        let n = f.defs.len();
        f.pre.push(MPre { before_def: 0, text: "#define FOO".into() });
        if n > 1 {
            f.pre.push(MPre { before_def: 1, text: "  #  if FOO // yes".into() });
            f.pre.push(MPre { before_def: n - 1, text: "#else".into() });
            f.pre.push(MPre { before_def: n - 1, text: "#endif".into() });
        }
        f.pre.push(MPre { before_def: usize::MAX, text: "#undef FOO".into() });
        c.label = format!("{} + directives", c.label);
        c
    }
}


/// Files without a module declaration (they can hold file attributes, comments and directives, but no definition),
/// alone and before / between / after ordinary files.
pub struct ModuleLessFiles;
impl ProgFamily for ModuleLessFiles {
    fn name(&self) -> String {
        "module-less-files/files with 0..2 file attributes and no module - or with a module and no definition -, alone and at every position among 1..2 ordinary files x 6 layouts".into()
    }
    fn len(&self) -> u64 {
        3 * 6 * 6 * 4
    }
    fn get(&self, idx: u64) -> PCase {
        let layouts = six_layouts();
        let layout = layouts[(idx % 6) as usize].clone();
        let n_attrs = ((idx / 6) % 3) as usize;
        let arrangement = (idx / 18) % 6;
        let k = ((idx / 108) % 4) as usize;
        #[allow(unused_mut)]
        let mut bare = MFile { file_attrs: vec![], module: None, defs: vec![], pre: vec![] };
        let forms = [MAttr::with("cs::namespace", vec![MArg::Str("N".into())]), MAttr::with("allow", vec![MArg::Ident("All".into())])];
        bare.file_attrs = forms[..n_attrs].to_vec();
        let ordinary = |i: usize| {
            let mut f = MFile::module(["M", "Other"][i % 2]);
            f.defs.push(construct([0usize, 7, 15, 22][(k + i) % 4], i, "Lib::"));
            f
        };
        // (odd k: the files without a module are replaced by files that have a module - with 0..2 attributes - and NO
        // definition: the one cell of the (module?, definitions) table that nothing else fills)
        if k % 2 == 1 {
            let mut m = MFile::module("Empty");
            m.module.as_mut().unwrap().attrs = bare.file_attrs.iter().map(|_| MAttr::with("cs::ns", vec![MArg::Str("E".into())])).collect();
            m.file_attrs = bare.file_attrs.clone();
            bare = m;
        }
        let program = match arrangement {
            0 => vec![bare, lib_file()],
            1 => vec![bare, ordinary(0), lib_file()],
            2 => vec![ordinary(0), bare, lib_file()],
            3 => vec![ordinary(0), lib_file(), bare],
            4 => vec![bare.clone(), ordinary(0), bare, ordinary(1), lib_file()],
            _ => vec![ordinary(0), bare.clone(), ordinary(1), lib_file(), bare],
        };
        PCase { program, layout, label: format!("module-less file with {n_attrs} attributes, arrangement {arrangement}"), may_warn: true }
    }
}


/// Vocabulary: every primitive keyword in every type position (and as underlying type), aliases in the positions that
/// are patched by arms of their own (underlying type, dictionary key), identifiers that merely resemble keywords
/// (unescaped) and every keyword escaped, in every naming position.
pub struct Vocabulary {
    names: Vec<MIdent>,
}
const NEAR_KEYWORDS: [&str; 18] = ["result", "sequence", "dictionary", "String", "Int32", "Tag", "Stream", "Compact", "structs", "tagged", "int32x", "module_", "Module1", "Custom", "unchecked_", "idempotentx", "Bool", "enumerator"];
impl Vocabulary {
    pub fn new() -> Self {
        let mut names: Vec<MIdent> = NEAR_KEYWORDS.iter().map(|n| MIdent::new(n)).collect();
        names.extend(KEYWORDS.iter().map(|k| MIdent::esc(k)));
        Vocabulary { names }
    }
    fn n_prims(&self) -> u64 {
        (PRIMITIVES.len() * (N_TYPE_POSITIONS + 1) * 2) as u64
    }
    fn n_alias(&self) -> u64 {
        12
    }
}
impl ProgFamily for Vocabulary {
    fn name(&self) -> String {
        format!("vocabulary/all {} primitives x {} type positions (incl. underlying type) x optional; aliases (plain, of an alias, with attributes, global spelling) as underlying type and as dictionary key; {} near-keyword identifiers and all {} keywords escaped as definition, field, operation, parameter, return member, enumerator and enumerator field names; x 2 layouts", PRIMITIVES.len(), N_TYPE_POSITIONS + 1, NEAR_KEYWORDS.len(), KEYWORDS.len())
    }
    fn len(&self) -> u64 {
        (self.n_prims() + self.n_alias() + self.names.len() as u64) * 2
    }
    fn get(&self, idx: u64) -> PCase {
        let layout = [Layout::uniform(Sep::Space, Commas::None), Layout::uniform(Sep::Newline, Commas::Between)][(idx % 2) as usize].clone();
        let mut k = idx / 2;
        if k < self.n_prims() {
            let opt = k % 2 == 1;
            let pos = ((k / 2) % (N_TYPE_POSITIONS as u64 + 1)) as usize;
            let p = PRIMITIVES[(k / 2 / (N_TYPE_POSITIONS as u64 + 1)) as usize];
            let program = if pos == N_TYPE_POSITIONS {
                // underlying type (integral primitives; others: the plain field position once more)
                if prim_bounds(p).is_some() {
                    let mut f = MFile::module("M");
                    let mut d = en("E", Some(MType::prim(p)), vec![enumerator("A"), enumerator_v("B", MInt::dec(7))]);
                    if let MDef::Enum(e) = &mut d {
                        e.unchecked = opt;
                    }
                    f.defs.push(d);
                    vec![f, lib_file()]
                } else {
                    type_in_position(&MType::prim(p), 0, opt)
                }
            } else {
                type_in_position(&MType::prim(p), pos, opt)
            };
            return PCase { program, layout, label: format!("primitive {p} in position {pos}, variant {opt}"), may_warn: false };
        }
        k -= self.n_prims();
        if k < self.n_alias() {
            let mut f = MFile::module("M");
            f.defs.push(alias("U8", MType::prim("uint8").attr(MAttr::new("cs::u"))));
            f.defs.push(alias("U8B", MType::named("U8").attr(MAttr::with("cs::outer", vec![MArg::Str("o".into())]))));
            f.defs.push(alias("KA", MType::prim("int32")));
            f.defs.push(alias("KB", MType::named("Lib::HK")));
            let under = [MType::named("U8"), MType::named("U8B"), MType::named("::M::U8"), MType::named("M::U8B")][(k % 4) as usize].clone();
            match k / 4 {
                0 => f.defs.push(en("E", Some(under), vec![enumerator("A"), enumerator_v("B", MInt::dec(255))])),
                1 => {
                    let mut d = en("F", Some(under), vec![enumerator_v("X", MInt::dec(0))]);
                    if let MDef::Enum(e) = &mut d {
                        e.unchecked = true;
                    }
                    f.defs.push(d);
                }
                _ => {
                    let key = [MType::named("KA"), MType::named("KB"), MType::named("::M::KA"), MType::named("U8B")][(k % 4) as usize].clone();
                    f.defs.push(st("D", vec![MField::new("d", MType::dict(key.clone(), MType::prim("bool"))), MField::new("e", MType::seq(MType::dict(key, MType::named("U8")).opt()))]));
                }
            }
            return PCase { program: vec![f, lib_file()], layout, label: format!("alias in underlying / key position, case {k}"), may_warn: false };
        }
        k -= self.n_alias();
        let name = self.names[k as usize].clone();
        let i32t = || MType::prim("int32");
        let named = |c: &str| {
            let mut x = MCommon::new(c);
            x.name = name.clone();
            x
        };
        let mut f = MFile::module("M");
        // definition + field
        f.defs.push(MDef::Struct(MStruct { c: named(""), compact: false, fields: vec![MField { c: named(""), tag: None, ty: i32t() }, MField::new("other", MType::prim("bool"))] }));
        // operation, parameter, return member
        let mut o = op("x", vec![MParam { name: name.clone(), ..MParam::new("p", i32t()) }, MParam::new("q", i32t())], MRet::Tuple(vec![MParam::new("r", i32t()), MParam { name: MIdent { name: format!("{}2", name.name), escaped: false }, ..MParam::new("s", i32t()) }]));
        o.c.name = name.clone();
        f.defs.push(iface("IUser", vec![], vec![o]));
        // enumerator + enumerator field
        f.defs.push(en("EUser", None, vec![MEnumerator { c: named(""), fields: Some(vec![MField { c: named(""), tag: None, ty: i32t() }]), value: None }, enumerator("Other")]));
        // a reference to the definition (unescaped names only: a reference is written as it is declared)
        if !name.escaped {
            f.defs.push(st("RefUser", vec![MField::new("u", MType::named(&name.name)), MField::new("v", MType::seq(MType::named(&format!("M::{}", name.name)).opt()))]));
        }
        PCase { program: vec![f, lib_file()], layout, label: format!("identifier {}{} in every naming position", if name.escaped { "\\" } else { "" }, name.name), may_warn: false }
    }
}


/// Two files whose token streams mirror each other: where file A writes the nested types of an alias, file B writes a
/// reference to that alias - at the same rows and columns (one token per line), or shifted through every offset (one
/// line). What is "written in place" in B must be decided by the file as well as by the position.
pub struct MirroredFiles;
impl ProgFamily for MirroredFiles {
    fn name(&self) -> String {
        "mirrored-files/an alias of an anonymous type (3 shapes) in file A, a scoped reference to it at coinciding positions in file B (25 name lengths x one line / one token per line), and fields using both".into()
    }
    fn len(&self) -> u64 {
        3 * 25 * 2
    }
    fn get(&self, idx: u64) -> PCase {
        let shape = idx % 3;
        let pad = ((idx / 3) % 25) as usize;
        let newline = (idx / 75) % 2 == 1;
        let target = match shape {
            0 => MType::seq(MType::prim("int32")),
            1 => MType::dict(MType::prim("string"), MType::seq(MType::prim("bool")).opt()),
            _ => MType::result(MType::prim("varuint62"), MType::seq(MType::prim("float64"))),
        };
        let mut a = MFile::module("Amodule");
        a.defs.push(alias("LongAliasNameOfA", target));
        a.defs.push(st("UsesIt", vec![MField::new("here", MType::named("LongAliasNameOfA"))]));
        let mut b = MFile::module("Bmodule");
        b.defs.push(alias(&format!("U{}", "u".repeat(pad)), MType::named("Amodule::LongAliasNameOfA")));
        b.defs.push(st("UsesIt", vec![MField::new("there", MType::named("Amodule::LongAliasNameOfA").opt()), MField::new("x", MType::seq(MType::named("::Amodule::LongAliasNameOfA")))]));
        PCase { program: vec![a, b], layout: Layout::uniform(if newline { Sep::Newline } else { Sep::Space }, Commas::None), label: format!("shape {shape}, name padded by {pad}, {}", if newline { "one token per line" } else { "one line" }), may_warn: false }
    }
}


/// A definition whose scoped name is also the name of a nested module declared in ANOTHER file (`struct B` in
/// `module A`, and `module A::B`): every spelling of a reference to the definition designates the definition, whichever
/// file comes first.
pub struct ModuleNamedLikeADefinition;
impl ProgFamily for ModuleNamedLikeADefinition {
    fn name(&self) -> String {
        "module-named-like-a-definition/5 kinds of definition A::B next to a file that declares module A::B x 4 spellings of the reference x 3 use positions x both file orders x 2 layouts".into()
    }
    fn len(&self) -> u64 {
        5 * 4 * 3 * 2 * 2
    }
    fn get(&self, idx: u64) -> PCase {
        let kind = idx % 5;
        let spelling = ["B", "A::B", "::A::B", "B"][((idx / 5) % 4) as usize];
        let usepos = (idx / 20) % 3;
        let swapped = (idx / 60) % 2 == 1;
        let newline = (idx / 120) % 2 == 1;
        let mut a = MFile::module("A");
        a.defs.push(match kind {
            0 => st("B", vec![MField::new("q", MType::prim("int32"))]),
            1 => en("B", Some(MType::prim("uint8")), vec![enumerator("E0")]),
            2 => custom("B"),
            3 => alias("B", MType::seq(MType::prim("string"))),
            _ => iface("B", vec![], vec![op("o", vec![], MRet::None)]),
        });
        let t = MType::named(spelling);
        // (an interface is used as a base, everything else as a type)
        a.defs.push(if kind == 4 {
            iface("User", vec![t], vec![])
        } else {
            match usepos {
                0 => st("User", vec![MField::new("b", t.clone()), MField::new("c", MType::seq(t).opt())]),
                1 => iface("User", vec![], vec![op("o", vec![MParam::new("p", t.clone())], MRet::Single { tag: None, stream: false, ty: MType::dict(MType::prim("int32"), t) })]),
                _ => alias("User", t),
            }
        });
        let mut nested = MFile::module("A::B");
        nested.defs.push(st("Inner", vec![MField::new("x", MType::prim("bool"))]));
        // the fourth spelling: the reference is written in a third module of the same root
        let mut program = vec![a, nested];
        if (idx / 5) % 4 == 3 {
            let mut c = MFile::module("A::C");
            c.defs.push(st("FromSibling", vec![MField::new("inner", MType::named("B::Inner")), MField::new("viaroot", MType::named("A::B::Inner"))]));
            program.push(c);
        }
        if swapped {
            program.reverse();
        }
        PCase { program, layout: Layout::uniform(if newline { Sep::Newline } else { Sep::Space }, Commas::None), label: format!("kind {kind}, spelling {spelling}, use {usepos}, swapped {swapped}"), may_warn: false }
    }
}

pub fn program_families(tier: &str) -> Vec<Box<dyn ProgFamily>> {
    let quick = tier == "quick";
    let mut v: Vec<Box<dyn ProgFamily>> = vec![
        Box::new(Sequences { depth: 1, layouts: uniform_layouts(), full_product: true }),
        Box::new(TypePositions::new(2)),
        Box::new(EnumValues::new()),
        Box::new(IntSpellings::new()),
        Box::new(StringArgs::new(if quick { 3 } else { 4 })),
        Box::new(AttrPositions::new()),
        Box::new(ModuleLessFiles),
        Box::new(PerGap::new(if quick { 6 } else { 8 })),
        Box::new(Sequences { depth: 2, layouts: six_layouts(), full_product: true }),
        Box::new(WithDirectives { inner: Sequences { depth: 2, layouts: six_layouts(), full_product: false } }),
    ];
    v.push(Box::new(Sequences { depth: 3, layouts: six_layouts(), full_product: !quick }));
    v.push(Box::new(Vocabulary::new()));
    v.push(Box::new(MirroredFiles));
    v.push(Box::new(ModuleNamedLikeADefinition));
    if !quick {
        // all 40^4 sequences of four constructs, each once (layout and module scope rotate)
        v.push(Box::new(Sequences { depth: 4, layouts: six_layouts(), full_product: false }));
    }
    v
}
