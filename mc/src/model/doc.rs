//! Doc comments: reference reading of the raw '///' lines (written from the statement of C16) and the observer
//! for the real DocComment.

use super::resolve::*;
use super::tree::*;
use slicec::grammar::{DocComment, Entity, Message, MessageComponent, NamedSymbol};

pub const LINK_MARK: &str = "\u{1}";

#[derive(Clone, Debug, PartialEq, Eq, Default)]
pub struct EMsg {
    /// text with every inline link replaced by LINK_MARK
    pub text: String,
    /// identifiers written in the links, in order
    pub links: Vec<String>,
}

#[derive(Clone, Debug, PartialEq, Eq, Default)]
pub struct EDoc {
    pub overview: Option<EMsg>,
    pub params: Vec<(String, EMsg)>,
    pub returns: Vec<(Option<String>, EMsg)>,
    pub see: Vec<String>,
}

fn is_ident_start(c: char) -> bool {
    c.is_ascii_alphabetic()
}
fn is_ident_char(c: char) -> bool {
    c.is_ascii_alphanumeric() || c == '_'
}

/// Splits one message line into text and links. Err = malformed inline tag.
fn read_message(line: &str, out: &mut EMsg) -> Result<(), ()> {
    let chars: Vec<char> = line.chars().collect();
    let mut i = 0;
    while i < chars.len() {
        if chars[i] == '{' {
            // an inline tag starts with '{', optional white space, '@'
            let mut j = i + 1;
            while j < chars.len() && chars[j].is_whitespace() {
                j += 1;
            }
            if j < chars.len() && chars[j] == '@' {
                // @link <scoped identifier> }
                j += 1;
                let s = j;
                while j < chars.len() && is_ident_char(chars[j]) {
                    j += 1;
                }
                let kw: String = chars[s..j].iter().collect();
                if kw != "link" {
                    return Err(());
                }
                while j < chars.len() && chars[j].is_whitespace() {
                    j += 1;
                }
                let (id, nj) = read_scoped(&chars, j)?;
                j = nj;
                while j < chars.len() && chars[j].is_whitespace() {
                    j += 1;
                }
                if j >= chars.len() || chars[j] != '}' {
                    return Err(());
                }
                out.text.push_str(LINK_MARK);
                out.links.push(id);
                i = j + 1;
                continue;
            }
        }
        out.text.push(chars[i]);
        i += 1;
    }
    Ok(())
}

fn read_scoped(chars: &[char], mut j: usize) -> Result<(String, usize), ()> {
    let mut id = String::new();
    if j + 1 < chars.len() && chars[j] == ':' && chars[j + 1] == ':' {
        id.push_str("::");
        j += 2;
        while j < chars.len() && chars[j].is_whitespace() {
            j += 1;
        }
    }
    loop {
        if j >= chars.len() || !is_ident_start(chars[j]) {
            return Err(());
        }
        while j < chars.len() && is_ident_char(chars[j]) {
            id.push(chars[j]);
            j += 1;
        }
        let mut k = j;
        while k < chars.len() && chars[k].is_whitespace() {
            k += 1;
        }
        if k + 1 < chars.len() && chars[k] == ':' && chars[k + 1] == ':' {
            id.push_str("::");
            j = k + 2;
            while j < chars.len() && chars[j].is_whitespace() {
                j += 1;
            }
        } else {
            return Ok((id, j));
        }
    }
}

/// The written lines with their common indentation removed and line breaks preserved.
fn message_lines(lines: &[&str]) -> Result<EMsg, ()> {
    let indent = |l: &str| l.chars().take_while(|c| c.is_whitespace()).count();
    let common = lines.iter().filter(|l| !l.is_empty()).map(|l| indent(l)).min().unwrap_or(0);
    let mut m = EMsg::default();
    for l in lines {
        if !l.is_empty() {
            let stripped: String = l.chars().skip(common).collect();
            read_message(&stripped, &mut m)?;
        }
        m.text.push('\n');
    }
    Ok(m)
}

/// Reference reading of a doc comment. Err(()) = malformed (the comment is dropped with a lint).
pub fn ref_parse(lines: &[String]) -> Result<EDoc, ()> {
    let mut d = EDoc::default();
    // split into the overview and tag blocks
    let is_tag_line = |l: &str| l.trim_start().starts_with('@');
    let first_tag = lines.iter().position(|l| is_tag_line(l)).unwrap_or(lines.len());
    if first_tag > 0 {
        let ov: Vec<&str> = lines[..first_tag].iter().map(|s| s.as_str()).collect();
        d.overview = Some(message_lines(&ov)?);
    }
    let mut i = first_tag;
    while i < lines.len() {
        let line = lines[i].trim_start();
        let mut end = i + 1;
        while end < lines.len() && !is_tag_line(&lines[end]) {
            end += 1;
        }
        let cont: Vec<&str> = lines[i + 1..end].iter().map(|s| s.as_str()).collect();
        let chars: Vec<char> = line.chars().collect();
        let mut j = 1;
        while j < chars.len() && is_ident_char(chars[j]) {
            j += 1;
        }
        let kw: String = chars[1..j].iter().collect();
        let skip_ws = |j: &mut usize| {
            while *j < chars.len() && chars[*j].is_whitespace() {
                *j += 1;
            }
        };
        match kw.as_str() {
            "param" | "returns" => {
                skip_ws(&mut j);
                let mut id = None;
                if j < chars.len() && is_ident_start(chars[j]) {
                    let s = j;
                    while j < chars.len() && is_ident_char(chars[j]) {
                        j += 1;
                    }
                    id = Some(chars[s..j].iter().collect::<String>());
                }
                if kw == "param" && id.is_none() {
                    return Err(());
                }
                skip_ws(&mut j);
                let mut msg = EMsg::default();
                if j < chars.len() {
                    if chars[j] != ':' || (j + 1 < chars.len() && chars[j + 1] == ':') {
                        return Err(());
                    }
                    let inline: String = chars[j + 1..].iter().collect();
                    if !inline.is_empty() {
                        // the inline part is left-trimmed (unless it starts with a link) and ends its line
                        let t = inline.trim_start().to_string();
                        read_message(&t, &mut msg)?;
                        msg.text.push('\n');
                    }
                }
                if !cont.is_empty() {
                    let c = message_lines(&cont)?;
                    msg.text.push_str(&c.text);
                    msg.links.extend(c.links);
                }
                if kw == "param" {
                    d.params.push((id.unwrap(), msg));
                } else {
                    d.returns.push((id, msg));
                }
            }
            "see" => {
                skip_ws(&mut j);
                let (id, nj) = read_scoped(&chars, j)?;
                j = nj;
                skip_ws(&mut j);
                if j < chars.len() || !cont.is_empty() {
                    return Err(());
                }
                d.see.push(id);
            }
            _ => return Err(()),
        }
        i = end;
    }
    Ok(d)
}

pub const LINKABLE: [EKind; 8] = [EKind::Struct, EKind::Field, EKind::Interface, EKind::Operation, EKind::Enum, EKind::Enumerator, EKind::Custom, EKind::Alias];

/// Expected binding of a link written as `id` in the comment of the element whose scoped identifier is `owner`.
pub fn expected_binding(table: &Table, id: &str, owner: &str) -> String {
    let (hit, _) = table.lookup(id, owner);
    match hit {
        Some(e) if LINKABLE.contains(&e.kind) => format!("{}:{}", e.kind.name(), e.scoped),
        _ => format!("broken:{id}"),
    }
}

fn msg_node(kind: &'static str, m: &EMsg, table: Option<(&Table, &str)>) -> Node {
    let mut n = Node::new(kind);
    n.prop("text", &m.text);
    for l in &m.links {
        let mut c = Node::new("link");
        match table {
            Some((t, owner)) => c.prop("bound", &expected_binding(t, l, owner)),
            None => c.prop("bound", &format!("written:{l}")),
        }
        n.children.push(c);
    }
    n
}

/// Expected doc node; `ctx` = (table, scoped identifier of the documented element).
pub fn expected_node(d: &EDoc, ctx: Option<(&Table, &str)>) -> Node {
    let mut n = Node::new("doc");
    match &d.overview {
        Some(m) => n.children.push(msg_node("overview", m, ctx)),
        None => {}
    }
    for (id, m) in &d.params {
        let mut c = msg_node("param-tag", m, ctx);
        c.prop("id", id);
        n.children.push(c);
    }
    for (id, m) in &d.returns {
        let mut c = msg_node("returns-tag", m, ctx);
        c.prop("id", id.as_deref().unwrap_or("<none>"));
        n.children.push(c);
    }
    for s in &d.see {
        let mut c = Node::new("see-tag");
        match ctx {
            Some((t, owner)) => c.prop("bound", &expected_binding(t, s, owner)),
            None => c.prop("bound", &format!("written:{s}")),
        }
        n.children.push(c);
    }
    n
}

fn kind_name(e: &dyn Entity) -> &'static str {
    match e.kind() {
        "struct" => "struct",
        "field" => "field",
        "interface" => "interface",
        "operation" => "operation",
        "enum" => "enum",
        "enumerator" => "enumerator",
        "custom type" => "custom",
        "type alias" => "alias",
        "parameter" => "parameter",
        other => Box::leak(other.to_string().into_boxed_str()),
    }
}

fn bound(r: Result<&dyn Entity, &slicec::grammar::Identifier>) -> String {
    match r {
        Ok(e) => format!("{}:{}", kind_name(e), e.parser_scoped_identifier()),
        Err(id) => format!("broken:{}", id.value),
    }
}

fn obs_msg(kind: &'static str, m: &Message) -> Node {
    let mut n = Node::new(kind);
    let mut text = String::new();
    for c in &m.value {
        match c {
            MessageComponent::Text(t) => text.push_str(t),
            MessageComponent::Link(l) => {
                text.push_str(LINK_MARK);
                let mut x = Node::new("link");
                x.prop("bound", &bound(l.linked_entity()));
                x.span = Some(super::observe::sp(&l.span));
                n.children.push(x);
            }
        }
    }
    // (since /repo commit cee6332 a comment line no longer keeps the carriage return of a CRLF ending: the text is
    // compared as it is)
    n.prop("text", &text);
    n.span = Some(super::observe::sp(&m.span));
    n
}

pub fn observe(c: Option<&DocComment>) -> Option<Node> {
    let c = c?;
    let mut n = Node::new("doc");
    if let Some(o) = &c.overview {
        n.children.push(obs_msg("overview", o));
    }
    for p in &c.params {
        let mut x = obs_msg("param-tag", &p.message);
        x.prop("id", &p.identifier.value);
        x.span = Some(super::observe::sp(&p.span));
        n.children.push(x);
    }
    for r in &c.returns {
        let mut x = obs_msg("returns-tag", &r.message);
        x.prop("id", r.identifier.as_ref().map(|i| i.value.as_str()).unwrap_or("<none>"));
        x.span = Some(super::observe::sp(&r.span));
        n.children.push(x);
    }
    for s in &c.see {
        let mut x = Node::new("see-tag");
        x.prop("bound", &bound(s.linked_entity()));
        x.span = Some(super::observe::sp(&s.span));
        n.children.push(x);
    }
    n.span = Some(super::observe::sp(&c.span));
    Some(n)
}
