//! Generators of model programs: the construct alphabet and the exhaustive sub-families shared by C02 (fidelity),
//! C09 (positions) and C20 (visitor order).

use super::ast::*;
use super::print::*;

/// The helper library every generated program may refer to (second file).
pub fn lib_file() -> MFile {
    let mut f = MFile::module("Lib");
    f.defs.push(st("HS", vec![MField::new("x", MType::prim("int32"))]));
    f.defs.push(cst("HK", vec![MField::new("k", MType::prim("int32"))]));
    f.defs.push(en("HE", Some(MType::prim("uint8")), vec![enumerator("A"), enumerator("B")]));
    f.defs.push(en("HV", None, vec![MEnumerator { c: MCommon::new("A"), fields: Some(vec![MField::new("x", MType::prim("int32"))]), value: None }, enumerator("B")]));
    f.defs.push(custom("HC"));
    f.defs.push(iface("HI", vec![], vec![op("hop", vec![], MRet::None)]));
    // (HJ has a base of its own: whoever derives from HJ has a base that is not written in its own base list)
    f.defs.push(iface("HJ", vec![MType::named("HI")], vec![op("jop", vec![MParam::new("a", MType::prim("int32"))], MRet::Single { tag: None, stream: false, ty: MType::prim("string") })]));
    f.defs.push(alias("HA", MType::seq(MType::prim("int32"))));
    f.defs.push(alias("HB", MType::named("HS")));
    f.defs.push(alias("HP", MType::prim("int32").attr(MAttr::with("cs::alias", vec![MArg::Str("p".into())]))));
    f.defs.push(alias("HQ", MType::named("HP").attr(MAttr::new("cs::outer"))));
    f.defs.push(alias("HD", MType::dict(MType::prim("string"), MType::seq(MType::named("HS").opt()))));
    f
}

fn n(base: &str, i: usize) -> String {
    format!("{base}{i}")
}

fn cs(a: &str) -> MAttr {
    MAttr::new(a)
}

/// Number of constructs in the definition alphabet.
pub const N_CONSTRUCTS: usize = 40;

/// Construct `k` of the definition alphabet, with names made unique by `i`. `scope` selects how library names are
/// spelled ("" = bare, "Lib::" qualified, "::Lib::" global).
pub fn construct(k: usize, i: usize, sp: &str) -> MDef {
    let l = |name: &str| MType::named(&format!("{sp}{name}"));
    match k {
        0 => st(&n("SEmpty", i), vec![]),
        1 => st(&n("SPlain", i), vec![MField::new("a", MType::prim("int32")), MField::new("b", MType::prim("string"))]),
        2 => cst(&n("SCompact", i), vec![MField::new("a", MType::prim("bool"))]),
        3 => st(&n("STagged", i), vec![MField::new("a", MType::prim("int8").opt()), MField::tagged("b", 0, MType::prim("string").opt()), MField::tagged("c", 2147483647, l("HS").opt())]),
        4 => {
            let mut f1 = MField::new("a", MType::prim("uint16"));
            f1.c = f1.c.attr(cs("cs::x")).attr(MAttr::with("a::b::c", vec![MArg::Str("s t".into()), MArg::Ident("id".into())])).doc(&[" The field."]);
            let mut d = st(&n("SAttr", i), vec![f1, MField::new("b", MType::prim("float64"))]);
            *d.common_mut() = d.common().clone().attr(MAttr::with("deprecated", vec![MArg::Str("use \\\"other\\\"".into())])).doc(&[" A struct.", " Second line."]);
            d
        }
        5 => st(
            &n("SNested", i),
            vec![
                MField::new("a", MType::seq(MType::dict(MType::prim("string"), l("HS").opt()))),
                MField::new("b", MType::result(MType::seq(MType::prim("uint8")), l("HE")).opt()),
                MField::new("c", MType::dict(l("HK"), MType::result(MType::prim("bool"), MType::prim("string")))),
            ],
        ),
        // members named like the types they refer to (identifiers colliding across scopes)
        6 => st(&n("SRefs", i), vec![MField::new("a", l("HS")), MField::new("b", l("HE")), MField::new("c", l("HC")), MField::new("d", l("HV").opt()), MField::new("HS", l("HS")), MField::new("HK", MType::seq(l("HK")))]),
        7 => st(&n("SAlias", i), vec![MField::new("a", l("HA")), MField::new("b", l("HB").opt()), MField::new("c", l("HP")), MField::new("d", l("HQ").attr(cs("cs::use"))), MField::new("e", l("HD"))]),
        8 => iface(&n("IEmpty", i), vec![], vec![]),
        9 => iface(&n("IBase", i), vec![l("HJ")], vec![]), // (HJ has a base of its own, which is NOT a base written here)
        // (attributes written on the references of a base list are attributes of those references)
        10 => iface(&n("IBases", i), vec![l("HI").attr(MAttr::with("cs::first", vec![MArg::Ident("struct".into()), MArg::Str("a \\\"b\\\"".into())])), l("HJ").attr(cs("cs::second"))], vec![op("own", vec![], MRet::None)]),
        11 => iface(&n("IOps", i), vec![], vec![op("a", vec![], MRet::None), op("b", vec![], MRet::None)]),
        12 => iface(&n("IRet", i), vec![], vec![op("get", vec![MParam::new("key", MType::prim("string"))], MRet::Single { tag: None, stream: false, ty: l("HS") }), op("HE", vec![MParam::new("HC", l("HC")), MParam::new("other", l("HE"))], MRet::Single { tag: None, stream: false, ty: l("HE") })]),
        13 => iface(
            &n("ITuple", i),
            vec![],
            vec![
                op("swap", vec![MParam::new("a", MType::prim("int32")), MParam::new("b", MType::seq(MType::prim("string")))], MRet::Tuple(vec![MParam::new("x", MType::prim("int32")), MParam::new("y", l("HE").opt())])),
                // a return tuple whose LAST member is streamed (and whose first one is tagged)
                op(
                    "feed",
                    vec![],
                    MRet::Tuple(vec![MParam { tag: Some(MInt::dec(3)), ..MParam::new("head", MType::prim("int32").opt()) }, MParam { stream: true, ..MParam::new("rest", MType::prim("uint8")) }]),
                ),
            ],
        ),
        14 => {
            let mut p1 = MParam::new("a", MType::prim("int32").opt());
            p1.tag = Some(MInt::dec(1));
            let mut p2 = MParam::new("s", MType::prim("uint8"));
            p2.stream = true;
            let mut o = op("put", vec![MParam::new("k", MType::prim("string")), p1, p2], MRet::Single { tag: None, stream: true, ty: MType::prim("float32") });
            o.idempotent = true;
            iface(&n("IStream", i), vec![], vec![o])
        }
        15 => {
            let mut o1 = op("fire", vec![MParam::new("a", MType::prim("int32"))], MRet::None);
            o1.c = o1.c.attr(cs("oneway"));
            let mut o2 = op("zip", vec![MParam::new("a", MType::prim("string"))], MRet::Single { tag: None, stream: false, ty: MType::prim("string") });
            o2.c = o2.c.attr(MAttr::with("compress", vec![MArg::Ident("Args".into()), MArg::Ident("Return".into())])).attr(MAttr::with("slicedFormat", vec![MArg::Ident("Return".into())]));
            let mut p = MParam::new("a", MType::prim("int32"));
            p.attrs.push(MAttr::with("cs::p", vec![MArg::Ident("tag".into())]));
            let o3 = op("attrp", vec![p], MRet::None);
            // a parameter and a return member may share a name (they are members of two lists), and a parameter may be
            // called like the placeholder of an unnamed return value
            let o4 = op("same", vec![MParam::new("a", MType::prim("int32"))], MRet::Tuple(vec![MParam::new("a", MType::prim("string")), MParam::new("b", MType::prim("bool"))]));
            let o5 = op("placeholder", vec![MParam::new("returnValue", MType::prim("int32"))], MRet::Single { tag: None, stream: false, ty: MType::prim("string") });
            iface(&n("IAttr", i), vec![], vec![o1, o2, o3, o4, o5])
        }
        16 => {
            let mut o = op("doc", vec![MParam::new("a", MType::prim("int32")), MParam::new("b", MType::prim("bool"))], MRet::Tuple(vec![MParam::new("x", MType::prim("int32")), MParam::new("y", MType::prim("int32"))]));
            o.c = o.c.doc(&[" Does it.", " @param a: the a", " @param b: the b", "   continued", " @returns x: the x", " @returns y: the y"]);
            let mut d = iface(&n("IDoc", i), vec![], vec![o]);
            *d.common_mut() = d.common().clone().doc(&[" An interface."]);
            d
        }
        17 => en(&n("EPlain", i), None, vec![enumerator("A"), enumerator("B"), enumerator("C")]),
        18 => {
            let mut d = en(&n("EUnchecked", i), None, vec![]);
            if let MDef::Enum(e) = &mut d {
                e.unchecked = true;
            }
            d
        }
        19 => {
            let mut d = en(
                &n("ECompact", i),
                None,
                vec![MEnumerator { c: MCommon::new("A"), fields: Some(vec![MField::new("x", MType::prim("int32")), MField::new("y", MType::prim("string").opt())]), value: None }, MEnumerator { c: MCommon::new("B"), fields: Some(vec![]), value: None }],
            );
            if let MDef::Enum(e) = &mut d {
                e.compact = true;
            }
            d
        }
        // (... and so are attributes on the underlying type of an enum)
        20 => en(&n("EU8", i), Some(MType::prim("uint8").attr(MAttr::with("cs::under", vec![MArg::Ident("u".into())]))), vec![enumerator_v("A", MInt::dec(1)), enumerator("B"), enumerator_v("C", MInt::spelled(255, "0xFF"))]),
        21 => en(&n("EI32", i), Some(MType::prim("int32")), vec![enumerator_v("A", MInt::spelled(-2147483648, "-2147483648")), enumerator("B"), enumerator_v("C", MInt::spelled(-16, "-0x10")), enumerator("D"), enumerator_v("E", MInt::spelled(3, "0b11"))]),
        22 => {
            let mut d = en(
                &n("EV62", i),
                Some(MType::prim("varint62")),
                vec![enumerator_v("A", MInt::spelled(-(1i128 << 61), "-2305843009213693952")), enumerator_v("B", MInt::spelled((1i128 << 61) - 1, "2_305_843_009_213_693_951")), enumerator_v("C", MInt::dec(0))],
            );
            if let MDef::Enum(e) = &mut d {
                e.unchecked = true;
            }
            *d.common_mut() = d.common().clone().attr(cs("cs::u")).doc(&[" Unchecked."]);
            d
        }
        23 => {
            let mut a = MEnumerator { c: MCommon::new("A").doc(&[" First."]), fields: Some(vec![MField::tagged("t", 5, MType::prim("int32").opt()), MField::new("u", l("HS"))]), value: Some(MInt::dec(7)) };
            a.c = a.c.attr(cs("cs::e"));
            en(&n("EVariant", i), None, vec![a, enumerator("B"), enumerator_v("C", MInt::dec(2147483647))])
        }
        24 => custom(&n("CPlain", i)),
        25 => {
            let mut d = custom(&n("CAttr", i));
            *d.common_mut() = d.common().clone().attr(MAttr::with("cs::type", vec![MArg::Str("System.Int32".into())])).doc(&[" Custom."]);
            d
        }
        26 => alias(&n("APrim", i), MType::prim("varuint62")),
        27 => alias(&n("ASeq", i), MType::seq(l("HS"))),
        28 => alias(&n("AAlias", i), l("HB")),
        29 => alias(&n("AAttr", i), MType::dict(MType::prim("int32"), MType::prim("string")).attr(MAttr::with("cs::dict", vec![MArg::Ident("Sorted".into())]))),
        30 => {
            // identifiers spelled like keywords (escaped)
            let mut f = MField::new("struct", MType::prim("int32"));
            f.c.name = MIdent::esc("struct");
            let mut g = MField::new("x", MType::prim("int32"));
            g.c.name = MIdent::esc("tag");
            let mut d = st(&n("module", i), vec![f, g]);
            d.common_mut().name = MIdent::esc(&n("Sequence", i));
            d
        }
        31 => {
            // attribute arguments spelled like keywords, unescaped in attribute position
            let mut d = st(&n("SKwAttr", i), vec![MField::new("a", MType::prim("int32").attr(MAttr::with("cs::t", vec![MArg::Ident("string".into()), MArg::Ident("compact".into())])))]);
            *d.common_mut() = d.common().clone().attr(MAttr::with("foo::struct", vec![MArg::Ident("enum".into())]));
            d
        }
        32 => {
            // prelude with attributes before the doc comment
            let mut d = st(&n("SPre", i), vec![MField::new("a", MType::prim("int32"))]);
            if i % 2 == 1 {
                // ... or with the attributes between the lines of the doc comment
                *d.common_mut() = d.common().clone().attr(cs("cs::first")).attr(cs("cs::second")).doc(&[&format!(" Before the attributes {{@link {sp}HS}}."), " After them.", &format!(" @see {sp}HE")]);
                d.common_mut().interleaved = true;
            } else {
                *d.common_mut() = d.common().clone().attr(cs("cs::first")).doc(&[" After attribute."]);
                d.common_mut().attrs_first = true;
            }
            d
        }
        33 => iface(
            &n("IMany", i),
            vec![],
            vec![op("a", vec![], MRet::Single { tag: Some(MInt::dec(3)), stream: false, ty: MType::prim("int32").opt() }), op("b", vec![MParam::new("p", MType::dict(l("HE"), MType::seq(MType::seq(MType::prim("bool")))))], MRet::None)],
        ),
        34 => st(&n("SOptColl", i), vec![MField::new("a", MType::seq(MType::prim("int32").opt()).opt()), MField::new("b", MType::dict(MType::prim("string"), MType::prim("string").opt()).opt())]),
        35 => en(&n("ECustomStart", i), Some(MType::prim("int16")), vec![enumerator_v("A", MInt::dec(-3)), enumerator("B"), enumerator("C"), enumerator_v("D", MInt::dec(10)), enumerator("E")]),
        36 => {
            let mut d = iface(&n("IDep", i), vec![], vec![op("o", vec![], MRet::None)]);
            *d.common_mut() = d.common().clone().attr(cs("deprecated"));
            d
        }
        37 => st(&n("SLocalAttr", i), vec![MField::new("a", MType::seq(MType::prim("int32").attr(cs("cs::elem"))).attr(MAttr::with("cs::generic", vec![MArg::Str("List".into())])))]),
        38 => alias(&n("AResult", i), MType::result(l("HA"), MType::prim("string"))),
        39 => {
            let mut d = st(&n("SAllow", i), vec![MField::new("a", MType::prim("int32"))]);
            *d.common_mut() = d.common().clone().attr(MAttr::with("allow", vec![MArg::Ident("Deprecated".into()), MArg::Ident("All".into())]));
            d
        }
        _ => unreachable!(),
    }
}

/// Uniform layouts used by the construction-sequence families.
pub fn uniform_layouts() -> Vec<Layout> {
    let mut v = vec![];
    for sep in ALL_SEPS {
        for commas in [Commas::None, Commas::Between, Commas::Trailing] {
            v.push(Layout::uniform(sep, commas));
        }
    }
    // variations of the surroundings
    let mut l = Layout::uniform(Sep::Space, Commas::Between);
    l.trailing_in_lists = true;
    v.push(l);
    let mut l = Layout::uniform(Sep::Newline, Commas::None);
    l.lead = "// leading comment é\n\n\t";
    l.trail = "";
    v.push(l);
    let mut l = Layout::uniform(Sep::Tight, Commas::Trailing);
    l.lead = "\r\n/* block\n comment */";
    l.trail = "  // end";
    l.trailing_in_lists = true;
    v.push(l);
    v
}

/// A program of the construction-sequence family: module (named by `module_variant`) + the constructs `ks`.
pub fn sequence_program(ks: &[usize], module_variant: usize) -> Program {
    let (module, sp): (&str, &str) = match module_variant % 4 {
        0 => ("M", "Lib::"),
        1 => ("Lib", ""),
        2 => ("Lib::Inner", ""),
        _ => ("Other::Deep::Er", "::Lib::"),
    };
    let mut f = MFile::module(module);
    for (i, k) in ks.iter().enumerate() {
        f.defs.push(construct(*k, i, sp));
    }
    if module_variant % 4 == 1 {
        // same module as the library, reopened in another file: the two declarations are told apart by an attribute
        // (and by the position it gives the `module` keyword)
        f.module.as_mut().unwrap().attrs = vec![MAttr::with("cs::reopened", vec![MArg::Ident("here".into())])];
    }
    vec![f, lib_file()]
}

// ---- exhaustive sub-families ----------------------------------------------------------------------------------

/// All type expressions up to nesting depth `depth` over the leaf set.
pub fn type_exprs(depth: usize, sp: &str) -> Vec<MType> {
    let leaves: Vec<MType> = vec![MType::prim("int32"), MType::prim("string"), MType::named(&format!("{sp}HS")), MType::named("::Lib::HE"), MType::named(&format!("{sp}HA")), MType::named(&format!("{sp}HC"))];
    let mut all: Vec<MType> = leaves.clone();
    let mut prev = leaves;
    for _ in 0..depth {
        let mut next = vec![];
        for a in &prev {
            next.push(MType::seq(a.clone()));
            next.push(MType::seq(a.clone().opt()));
            next.push(MType::dict(MType::prim("string"), a.clone()));
            next.push(MType::result(a.clone(), MType::prim("string")));
            next.push(MType::result(MType::prim("bool"), a.clone().opt()));
            next.push(MType::seq(a.clone().attr(MAttr::new("cs::a"))));
        }
        // key position: only legal key types
        next.push(MType::dict(MType::prim("int32"), MType::prim("bool")));
        next.push(MType::dict(MType::named(&format!("{sp}HK")), MType::prim("bool")));
        next.push(MType::dict(MType::named(&format!("{sp}HE")), MType::named(&format!("{sp}HS")).opt()));
        all.extend(next.iter().cloned());
        prev = next;
    }
    all
}

pub const N_TYPE_POSITIONS: usize = 10;

/// A program with type `t` in type position `pos`.
pub fn type_in_position(t: &MType, pos: usize, optional_variant: bool) -> Program {
    let mut f = MFile::module("M");
    let tt = if optional_variant { t.clone().opt() } else { t.clone() };
    let d = match pos {
        0 => st("S", vec![MField::new("f", tt)]),
        1 => iface("I", vec![], vec![op("o", vec![MParam::new("p", tt)], MRet::None)]),
        2 => {
            let mut p = MParam::new("p", tt);
            p.stream = true;
            iface("I", vec![], vec![op("o", vec![MParam::new("a", MType::prim("int32")), p], MRet::None)])
        }
        3 => iface("I", vec![], vec![op("o", vec![], MRet::Single { tag: None, stream: false, ty: tt })]),
        4 => iface("I", vec![], vec![op("o", vec![], MRet::Tuple(vec![MParam::new("x", MType::prim("int32")), MParam::new("y", tt)]))]),
        5 => alias("A", t.clone()), // aliases cannot be optional
        6 => en("E", None, vec![MEnumerator { c: MCommon::new("A"), fields: Some(vec![MField::new("f", tt)]), value: None }]),
        7 => st("S", vec![MField::tagged("f", 4, t.clone().opt())]),
        8 => st("S", vec![MField::new("f", MType::seq(tt))]),
        9 => st("S", vec![MField::new("f", MType::dict(MType::prim("varuint62"), tt))]),
        _ => unreachable!(),
    };
    f.defs.push(d);
    vec![f, lib_file()]
}

/// Enumerator value alphabet for the value-sequence family.
pub fn enum_value_alphabet() -> Vec<Option<MInt>> {
    vec![
        None,
        Some(MInt::dec(0)),
        Some(MInt::dec(1)),
        Some(MInt::dec(7)),
        Some(MInt::dec(-1)),
        Some(MInt::spelled(-16, "-0x10")),
        Some(MInt::spelled(3, "0b11")),
        Some(MInt::spelled(1000, "1_000")),
        Some(MInt::spelled(2147483646, "0x7FFF_FFFE")),
        Some(MInt::spelled(-2147483648, "-0x8000_0000")),
        Some(MInt::spelled(100, "0_1_0_0")),
    ]
}

/// Integer spellings at range boundaries (value, spelling).
pub fn integer_spellings() -> Vec<MInt> {
    let mut v = vec![];
    let values: Vec<i128> = vec![0, 1, 9, 10, 255, (1 << 31) - 1, 1 << 31, (1i128 << 63) - 1, 1i128 << 63, (1i128 << 64) - 1, i128::MAX];
    for val in values {
        let dec = val.to_string();
        let hex = format!("0x{val:x}");
        let hex_up = format!("0x{val:X}");
        let bin = format!("0b{val:b}");
        let underscore = |s: &str, every: usize| -> String {
            // underscores between digits, never leading (a leading underscore would not be an integer literal)
            let (prefix, digits) = if s.starts_with("0x") || s.starts_with("0b") { s.split_at(2) } else { ("", s) };
            let mut o = String::new();
            for (i, c) in digits.chars().enumerate() {
                if i > 0 && (digits.len() - i) % every == 0 {
                    o.push('_');
                }
                o.push(c);
            }
            format!("{prefix}{o}")
        };
        for s in [dec.clone(), hex.clone(), hex_up, bin.clone(), underscore(&dec, 3), underscore(&hex, 4), underscore(&bin, 4), underscore(&dec, 1), format!("{dec}_")] {
            v.push(MInt::spelled(val, &s));
            if val <= (1i128 << 126) {
                v.push(MInt::spelled(-val, &format!("-{s}")));
            }
        }
    }
    v.sort_by(|a, b| a.spelling.cmp(&b.spelling));
    v.dedup_by(|a, b| a.spelling == b.spelling);
    v
}

/// All string-literal raw texts of length <= n over the escape-relevant alphabet (a closing quote only escaped,
/// never a trailing lone backslash).
pub fn string_literals(n: usize) -> Vec<String> {
    let atoms = ["a", " ", "\\\\", "\\\"", "\\n", "é", "]", ",", ")", "//", "/*", "\\a", "\t", "😀"];
    let mut all = vec![String::new()];
    let mut layer = vec![String::new()];
    for _ in 0..n {
        let mut next = vec![];
        for s in &layer {
            for a in atoms {
                next.push(format!("{s}{a}"));
            }
        }
        all.extend(next.iter().cloned());
        layer = next;
    }
    all
}

/// Attribute forms: directive x argument lists.
pub fn attribute_forms() -> Vec<MAttr> {
    let mut v = vec![];
    let directives = ["cs::a", "a::b::c", "x::y", "cs::struct", "module::interface"];
    let arg_sets: Vec<Option<Vec<MArg>>> = vec![
        None,
        Some(vec![]),
        Some(vec![MArg::Ident("one".into())]),
        Some(vec![MArg::Str("one".into())]),
        Some(vec![MArg::Ident("a".into()), MArg::Str("b c".into())]),
        Some(vec![MArg::Str("x".into()), MArg::Ident("string".into()), MArg::Ident("Sequence".into())]),
        Some(vec![MArg::Ident("a".into()), MArg::Ident("b".into()), MArg::Ident("c".into())]),
        Some(vec![MArg::Str("".into()), MArg::Str("\\\"q\\\"".into())]),
    ];
    for d in directives {
        for a in &arg_sets {
            for tc in [false, true] {
                if tc && a.as_ref().map_or(true, |x| x.is_empty()) {
                    continue;
                }
                v.push(MAttr { directive: d.to_string(), args: a.clone(), trailing_comma: tc });
            }
        }
    }
    // the known attributes, on positions where they are legal, are covered by the constructs; here: verbatim ones
    v
}

pub const N_ATTR_POSITIONS: usize = 12;

/// A program with attribute `a` in attributable position `pos` (foreign attributes are legal everywhere).
pub fn attr_in_position(a: &MAttr, pos: usize) -> Program {
    let mut f = MFile::module("M");
    let mut s = st("S", vec![MField::new("f", MType::prim("int32"))]);
    let mut i = iface("I", vec![], vec![op("o", vec![MParam::new("p", MType::prim("int32"))], MRet::Tuple(vec![MParam::new("x", MType::prim("int32")), MParam::new("y", MType::prim("int32"))]))]);
    let mut e = en("E", None, vec![MEnumerator { c: MCommon::new("A"), fields: Some(vec![MField::new("f", MType::prim("int32"))]), value: None }]);
    let mut c = custom("C");
    let mut al = alias("A", MType::prim("int32"));
    match pos {
        0 => f.file_attrs.push(a.clone()),
        1 => f.module.as_mut().unwrap().attrs.push(a.clone()),
        2 => s.common_mut().attrs.push(a.clone()),
        3 => {
            if let MDef::Struct(x) = &mut s {
                x.fields[0].c.attrs.push(a.clone());
            }
        }
        4 => {
            if let MDef::Struct(x) = &mut s {
                x.fields[0].ty.attrs.push(a.clone());
            }
        }
        5 => i.common_mut().attrs.push(a.clone()),
        6 => {
            if let MDef::Interface(x) = &mut i {
                x.ops[0].c.attrs.push(a.clone());
            }
        }
        7 => {
            if let MDef::Interface(x) = &mut i {
                x.ops[0].params[0].attrs.push(a.clone());
            }
        }
        8 => {
            if let MDef::Interface(x) = &mut i {
                if let MRet::Tuple(ps) = &mut x.ops[0].ret {
                    ps[1].attrs.push(a.clone());
                }
            }
        }
        9 => {
            e.common_mut().attrs.push(a.clone());
            if let MDef::Enum(x) = &mut e {
                x.enumerators[0].c.attrs.push(a.clone());
                x.enumerators[0].fields.as_mut().unwrap()[0].c.attrs.push(a.clone());
            }
        }
        10 => c.common_mut().attrs.push(a.clone()),
        11 => {
            al.common_mut().attrs.push(a.clone());
            if let MDef::Alias(x) = &mut al {
                x.ty.attrs.push(a.clone());
            }
        }
        _ => unreachable!(),
    }
    f.defs.extend([s, i, e, c, al]);
    vec![f]
}

/// Tiny programs for the per-gap layout family.
pub fn tiny_programs() -> Vec<Program> {
    let mut v = vec![];
    let mut f = MFile::module("M");
    f.defs.push(st("S", vec![MField::new("a", MType::prim("int32"))]));
    v.push(vec![f]);
    let mut f = MFile::module("A::B");
    f.defs.push(custom("C"));
    f.defs.push(alias("T", MType::named("C")));
    v.push(vec![f]);
    let mut f = MFile::module("M");
    f.defs.push(en("E", Some(MType::prim("int8")), vec![enumerator("A"), enumerator_v("B", MInt::spelled(-4, "-4"))]));
    v.push(vec![f]);
    let mut f = MFile::module("M");
    f.defs.push(iface("I", vec![], vec![op("o", vec![], MRet::Single { tag: None, stream: false, ty: MType::prim("bool") })]));
    v.push(vec![f]);
    let mut f = MFile::module("M");
    let mut d = custom("C");
    *d.common_mut() = d.common().clone().attr(MAttr::with("a::x", vec![MArg::Ident("y".into())])).doc(&[" d"]);
    f.defs.push(d);
    v.push(vec![f]);
    let mut f = MFile::module("M");
    f.file_attrs.push(MAttr::new("a::b"));
    f.defs.push(st("S", vec![MField::tagged("t", 1, MType::seq(MType::prim("uint8")).opt())]));
    v.push(vec![f]);
    v
}

