//! Reference checker: an independent validator over the model AST implementing the rule catalogue of C04.
//! Every rule carries the diagnostic code(s) that belong to it.

use super::ast::*;
use super::resolve::*;
use std::collections::{BTreeMap, BTreeSet, HashSet};

#[derive(Clone, Debug, PartialEq, Eq, PartialOrd, Ord)]
pub struct Violation {
    /// diagnostic code that belongs to the violated rule
    pub code: &'static str,
    pub rule: &'static str,
    /// (file, top-level definition index) of the offending element; def = usize::MAX for file-level
    pub file: usize,
    pub def: usize,
    /// a finer place inside the definition, where the rule is about a part of it: "attr:<directive>"
    pub anchor: Option<String>,
}

pub const LINT_NAMES: [&str; 5] = ["All", "Deprecated", "BrokenDocLink", "IncorrectDocComment", "MalformedDocComment"];

#[derive(Clone, Copy, PartialEq, Eq, Debug)]
pub enum Target {
    File,
    Module,
    Struct,
    Field,
    Interface,
    Operation { returns: bool },
    Parameter,
    Enum,
    Enumerator,
    Custom,
    Alias,
    TypeRef,
}

struct Ck<'a> {
    r: Resolver<'a>,
    out: Vec<Violation>,
    file: usize,
    def: usize,
    anchor: Option<String>,
}

impl<'a> Ck<'a> {
    fn v(&mut self, code: &'static str, rule: &'static str) {
        self.out.push(Violation { code, rule, file: self.file, def: self.def, anchor: self.anchor.clone() });
    }

    fn attrs(&mut self, attrs: &[MAttr], target: Target) {
        let mut seen: HashSet<&str> = HashSet::new();
        for a in attrs {
            let d = a.directive.as_str();
            if d.contains("::") {
                continue; // foreign attributes are not validated
            }
            let args = a.arg_values();
            let repeatable = d == "allow";
            self.anchor = Some(format!("attr:{d}"));
            match d {
                "allow" => {
                    if args.is_empty() {
                        self.v("E028", "attribute argument count");
                    }
                    for x in &args {
                        if !LINT_NAMES.contains(&x.as_str()) {
                            self.v("E027", "attribute argument legal");
                        }
                    }
                    if matches!(target, Target::Module | Target::TypeRef) {
                        self.v("E023", "attribute only where legal");
                    }
                }
                "compress" | "slicedFormat" => {
                    if args.is_empty() {
                        self.v("E028", "attribute argument count");
                    }
                    for x in &args {
                        if x != "Args" && x != "Return" {
                            self.v("E027", "attribute argument legal");
                        }
                    }
                    if !matches!(target, Target::Operation { .. }) {
                        self.v("E023", "attribute only where legal");
                    }
                }
                "deprecated" => {
                    if args.len() > 1 {
                        self.v("E028", "attribute argument count");
                    }
                    if matches!(target, Target::Module | Target::TypeRef | Target::File | Target::Parameter) {
                        self.v("E023", "attribute only where legal");
                    }
                }
                "oneway" => {
                    if !args.is_empty() {
                        self.v("E028", "attribute argument count");
                    }
                    match target {
                        Target::Operation { returns: false } => {}
                        _ => self.v("E023", "attribute only where legal"),
                    }
                }
                _ => {
                    self.v("E024", "unknown attribute");
                    self.anchor = None;
                    continue;
                }
            }
            if !repeatable && !seen.insert(d) {
                self.v("E026", "attribute not repeated");
            }
            self.anchor = None;
        }
        self.anchor = None;
    }

    fn ty(&mut self, t: &MType, scope: &str) {
        self.attrs(&t.attrs, Target::TypeRef);
        match &t.kind {
            MTypeKind::Seq(e) => self.ty(e, scope),
            MTypeKind::Result(a, b) => {
                self.ty(a, scope);
                self.ty(b, scope);
            }
            MTypeKind::Dict(k, v) => {
                self.ty(k, scope);
                self.ty(v, scope);
                self.key(k, scope);
            }
            MTypeKind::Named(_) => {
                // a use of an alias of a dictionary is validated like the dictionary itself
                if let Ok(rt) = self.r.resolve(t, scope) {
                    self.rkeys(&rt.is);
                }
            }
            MTypeKind::Prim(_) => {}
        }
    }

    /// dictionaries reached through aliases
    fn rkeys(&mut self, is: &RIs) {
        match is {
            RIs::Dict(k, v) => {
                self.rkey(k);
                self.rkeys(&k.is);
                self.rkeys(&v.is);
            }
            RIs::Seq(e) => self.rkeys(&e.is),
            RIs::Result(a, b) => {
                self.rkeys(&a.is);
                self.rkeys(&b.is);
            }
            _ => {}
        }
    }

    fn key(&mut self, k: &MType, scope: &str) {
        match self.r.resolve(k, scope) {
            Ok(rt) => self.rkey(&rt),
            Err(_) => {}
        }
    }

    /// Some(code) if the resolved type is not a legal dictionary key
    fn key_problem(&self, rt: &RType, depth: usize) -> Option<&'static str> {
        if rt.optional {
            return Some("E003");
        }
        match &rt.is {
            RIs::Prim(p) => {
                if matches!(*p, "float32" | "float64") {
                    Some("E005")
                } else {
                    None
                }
            }
            RIs::Seq(_) | RIs::Dict(..) | RIs::Result(..) => Some("E005"),
            RIs::Unresolved(_) => None,
            RIs::Def { kind, scoped } => match kind {
                EKind::Custom => None,
                EKind::Enum => {
                    let e = self.r.table.get(scoped).unwrap();
                    match &self.r.program[e.file].defs[e.def] {
                        MDef::Enum(en) if en.underlying.is_none() => Some("E005"),
                        _ => None,
                    }
                }
                EKind::Struct => {
                    let e = self.r.table.get(scoped).unwrap();
                    let MDef::Struct(s) = &self.r.program[e.file].defs[e.def] else { return None };
                    if !s.compact {
                        return Some("E004");
                    }
                    if depth > 8 {
                        return None;
                    }
                    let scope = self.r.program[e.file].module_name();
                    for f in &s.fields {
                        if let Ok(ft) = self.r.resolve(&f.ty, scope) {
                            if self.key_problem(&ft, depth + 1).is_some() {
                                return Some("E006");
                            }
                        }
                    }
                    None
                }
                _ => Some("E005"),
            },
        }
    }

    fn rkey(&mut self, rt: &RType) {
        if let Some(code) = self.key_problem(rt, 0) {
            self.v(code, "dictionary key legal");
        }
    }

    /// tags of one member list
    fn tags(&mut self, members: &[(Option<&MInt>, bool)], compact: bool) {
        let mut seen = BTreeSet::new();
        for (tag, optional) in members {
            if let Some(t) = tag {
                if t.value < 0 || t.value > i32::MAX as i128 {
                    self.v("E021", "tag within 0..2^31-1");
                }
                if !*optional {
                    self.v("E016", "tag only on optional member");
                }
                if !seen.insert(t.value as u32) {
                    self.v("E012", "tags unique");
                }
                if compact {
                    self.v("E015", "compact types untagged");
                }
            }
        }
    }

    fn int(&mut self, i: &MInt) {
        // literal well-formedness: digits legal for the base and within i128
        let s = i.spelling.trim_start_matches('-').replace('_', "");
        let (digits, base) = if let Some(r) = s.strip_prefix("0b") {
            (r.to_string(), 2)
        } else if let Some(r) = s.strip_prefix("0x") {
            (r.to_string(), 16)
        } else {
            (s.clone(), 10)
        };
        match i128::from_str_radix(&digits, base) {
            Ok(_) => {}
            Err(e) => match e.kind() {
                std::num::IntErrorKind::InvalidDigit => self.v("E031", "integer literal digits"),
                std::num::IntErrorKind::Empty => {
                    // a base prefix without digits: malformed; either literal code belongs to it
                    self.v("E031", "integer literal digits");
                    self.v("E030", "integer literal digits");
                }
                _ => self.v("E030", "integer literal range"),
            },
        }
    }

    fn unique_names<'b>(&mut self, names: impl Iterator<Item = &'b str>) {
        let mut seen = HashSet::new();
        for n in names {
            if !seen.insert(n.to_string()) {
                self.v("E010", "names unique within their scope");
            }
        }
    }

    fn fields(&mut self, fs: &[MField], scope: &str, compact: bool) {
        self.unique_names(fs.iter().map(|f| f.c.name.name.as_str()));
        let tags: Vec<(Option<&MInt>, bool)> = fs.iter().map(|f| (f.tag.as_ref(), f.ty.optional)).collect();
        self.tags(&tags, compact);
        for f in fs {
            self.attrs(&f.c.attrs, Target::Field);
            if let Some(t) = &f.tag {
                self.int(t);
            }
            self.ty(&f.ty, scope);
        }
    }

    fn params(&mut self, ps: &[MParam], scope: &str) {
        self.unique_names(ps.iter().map(|p| p.name.name.as_str()));
        let tags: Vec<(Option<&MInt>, bool)> = ps.iter().map(|p| (p.tag.as_ref(), p.ty.optional)).collect();
        self.tags(&tags, false);
        let streamed: Vec<usize> = ps.iter().enumerate().filter(|(_, p)| p.stream).map(|(i, _)| i).collect();
        if streamed.iter().any(|i| *i + 1 != ps.len()) {
            self.v("E013", "stream only on the last parameter");
        }
        if streamed.len() > 1 {
            self.v("E029", "at most one streamed member");
        }
        for p in ps {
            self.attrs(&p.attrs, Target::Parameter);
            if let Some(t) = &p.tag {
                self.int(t);
            }
            if !p.doc.lines.is_empty() {
                self.v("E002", "doc comments cannot be applied to parameters");
            }
            self.ty(&p.ty, scope);
        }
    }

    fn inherited_ops(&self, i: &MInterface, scope: &str, seen: &mut HashSet<String>, out: &mut Vec<String>) {
        for b in &i.bases {
            if let Ok(rt) = self.r.resolve(b, scope) {
                if let RIs::Def { kind: EKind::Interface, scoped } = &rt.is {
                    if !seen.insert(scoped.clone()) {
                        continue;
                    }
                    let e = self.r.table.get(scoped).unwrap();
                    if let MDef::Interface(bi) = &self.r.program[e.file].defs[e.def] {
                        for o in &bi.ops {
                            out.push(o.c.name.name.clone());
                        }
                        self.inherited_ops(bi, self.r.program[e.file].module_name(), seen, out);
                    }
                }
            }
        }
    }

    fn def(&mut self, d: &MDef, scope: &str) {
        match d {
            MDef::Struct(s) => {
                self.attrs(&s.c.attrs, Target::Struct);
                if s.compact && s.fields.is_empty() {
                    self.v("E018", "compact structs non-empty");
                }
                self.fields(&s.fields, scope, s.compact);
            }
            MDef::Interface(i) => {
                self.attrs(&i.c.attrs, Target::Interface);
                for b in &i.bases {
                    self.attrs(&b.attrs, Target::TypeRef);
                }
                self.unique_names(i.ops.iter().map(|o| o.c.name.name.as_str()));
                let mut inh = vec![];
                self.inherited_ops(i, scope, &mut HashSet::new(), &mut inh);
                for o in &i.ops {
                    if inh.contains(&o.c.name.name) {
                        self.v("E011", "no redeclaration of an inherited operation");
                    }
                    let returns = !matches!(o.ret, MRet::None);
                    self.attrs(&o.c.attrs, Target::Operation { returns });
                    self.params(&o.params, scope);
                    match &o.ret {
                        MRet::None => {}
                        MRet::Single { tag, ty, .. } => {
                            if let Some(t) = tag {
                                self.int(t);
                            }
                            self.tags(&[(tag.as_ref(), ty.optional)], false);
                            self.ty(ty, scope);
                        }
                        MRet::Tuple(ps) => {
                            if ps.len() < 2 {
                                self.v("E014", "return tuples of at least two");
                            }
                            self.params(ps, scope);
                        }
                    }
                }
            }
            MDef::Enum(e) => {
                self.attrs(&e.c.attrs, Target::Enum);
                let mut bounds: Option<(i128, i128)> = Some((0, i32::MAX as i128));
                if let Some(u) = &e.underlying {
                    self.attrs(&u.attrs, Target::TypeRef);
                    bounds = None;
                    if let Ok(rt) = self.r.resolve(u, scope) {
                        if let RIs::Prim(p) = rt.is {
                            match prim_bounds(p) {
                                Some(b) => bounds = Some(b),
                                None => self.v("E009", "underlying type integral"),
                            }
                        }
                    }
                    if u.optional {
                        self.v("E007", "underlying type non-optional");
                    }
                    if e.compact {
                        self.v("E036", "compact enums not backed");
                    }
                }
                if e.compact && e.unchecked {
                    self.v("E036", "compact enums not unchecked");
                }
                if !e.unchecked && e.enumerators.is_empty() {
                    self.v("E008", "checked enums non-empty");
                }
                self.unique_names(e.enumerators.iter().map(|x| x.c.name.name.as_str()));
                let mut prev: Option<i128> = None;
                let mut seen = BTreeSet::new();
                for en in &e.enumerators {
                    self.attrs(&en.c.attrs, Target::Enumerator);
                    let mut literal_ok = true;
                    if let Some(v) = &en.value {
                        let before = self.out.len();
                        self.int(v);
                        literal_ok = self.out.len() == before;
                    }
                    let val = match &en.value {
                        Some(v) if literal_ok => v.value,
                        Some(_) => 0, // a malformed literal stands for a dummy value
                        None => prev.map_or(0, |p| p.wrapping_add(1)),
                    };
                    prev = Some(val);
                    if let Some((lo, hi)) = bounds {
                        if val < lo || val > hi {
                            self.v("E020", "enumerator value within range");
                        }
                    }
                    if !seen.insert(val) {
                        self.v("E022", "enumerator values unique");
                    }
                    if let Some(fs) = &en.fields {
                        if e.underlying.is_some() {
                            self.v("E035", "no fields under an underlying type");
                        }
                        self.fields(fs, scope, e.compact);
                    }
                }
            }
            MDef::Custom(c) => self.attrs(&c.c.attrs, Target::Custom),
            MDef::Alias(a) => {
                self.attrs(&a.c.attrs, Target::Alias);
                if a.ty.optional {
                    self.v("E034", "no alias of an optional type");
                }
                self.ty(&a.ty, scope);
            }
        }
    }
}

/// All rule violations of a program (empty = well-formed). Resolution errors are not rules of this catalogue.
pub fn check(program: &Program) -> Vec<Violation> {
    let table = Table::build(program);
    let mut ck = Ck { r: Resolver { program, table: &table }, out: vec![], file: 0, def: usize::MAX, anchor: None };
    // definitions unique across the files of one module
    let mut seen: BTreeMap<String, (usize, usize)> = BTreeMap::new();
    for (fi, f) in program.iter().enumerate() {
        ck.file = fi;
        ck.def = usize::MAX;
        ck.attrs(&f.file_attrs, Target::File);
        if let Some(m) = &f.module {
            ck.attrs(&m.attrs, Target::Module);
        } else if !f.defs.is_empty() {
            ck.v("E002", "module declaration before definitions");
        }
        let scope = f.module_name().to_string();
        for (di, d) in f.defs.iter().enumerate() {
            ck.def = di;
            let scoped = if scope.is_empty() { d.common().name.name.clone() } else { format!("{scope}::{}", d.common().name.name) };
            if seen.contains_key(&scoped) {
                ck.v("E010", "names unique within their scope");
            } else {
                seen.insert(scoped, (fi, di));
            }
            ck.def(d, &scope);
        }
    }
    ck.out
}
