//! Reference name resolution, written from the statement of C03: search the referencing file's MODULE scope from
//! the innermost module outwards and finally the global scope; a name starting with '::' is looked up globally
//! only; type aliases are transparently replaced by their final non-alias target, carrying along the attributes
//! written on each alias's type (use-site attributes first, then link by link).

use super::ast::*;
use std::collections::BTreeMap;

#[derive(Clone, Copy, Debug, PartialEq, Eq, Hash, PartialOrd, Ord)]
pub enum EKind {
    Module,
    Struct,
    Interface,
    Enum,
    Custom,
    Alias,
    Field,
    Operation,
    Param,
    Enumerator,
}
impl EKind {
    pub fn name(&self) -> &'static str {
        match self {
            EKind::Module => "module",
            EKind::Struct => "struct",
            EKind::Interface => "interface",
            EKind::Enum => "enum",
            EKind::Custom => "custom",
            EKind::Alias => "alias",
            EKind::Field => "field",
            EKind::Operation => "operation",
            EKind::Param => "parameter",
            EKind::Enumerator => "enumerator",
        }
    }
    pub fn is_definition(&self) -> bool {
        matches!(self, EKind::Struct | EKind::Interface | EKind::Enum | EKind::Custom | EKind::Alias)
    }
}

#[derive(Clone, Debug, PartialEq, Eq)]
pub struct Entity {
    pub scoped: String,
    pub kind: EKind,
    pub file: usize,
    /// index of the enclosing top-level definition in its file (usize::MAX for modules)
    pub def: usize,
}

#[derive(Clone, Debug, Default)]
pub struct Table {
    /// every declaration, in declaration order (file order, then source order)
    pub map: BTreeMap<String, Vec<Entity>>,
}

fn join(scope: &str, name: &str) -> String {
    if scope.is_empty() {
        name.to_string()
    } else {
        format!("{scope}::{name}")
    }
}

impl Table {
    pub fn build(program: &Program) -> Table {
        let mut t = Table::default();
        for (fi, f) in program.iter().enumerate() {
            let scope = f.module_name().to_string();
            let mut add = |t: &mut Table, scoped: String, kind: EKind, def: usize| {
                t.map.entry(scoped.clone()).or_default().push(Entity { scoped, kind, file: fi, def });
            };
            for (di, d) in f.defs.iter().enumerate() {
                let dn = join(&scope, &d.common().name.name);
                match d {
                    MDef::Struct(s) => {
                        add(&mut t, dn.clone(), EKind::Struct, di);
                        for fl in &s.fields {
                            add(&mut t, join(&dn, &fl.c.name.name), EKind::Field, di);
                        }
                    }
                    MDef::Interface(i) => {
                        add(&mut t, dn.clone(), EKind::Interface, di);
                        for o in &i.ops {
                            let on = join(&dn, &o.c.name.name);
                            add(&mut t, on.clone(), EKind::Operation, di);
                            for p in &o.params {
                                add(&mut t, join(&on, &p.name.name), EKind::Param, di);
                            }
                            match &o.ret {
                                MRet::None => {}
                                MRet::Single { .. } => add(&mut t, join(&on, "returnValue"), EKind::Param, di),
                                MRet::Tuple(ps) => {
                                    for p in ps {
                                        add(&mut t, join(&on, &p.name.name), EKind::Param, di);
                                    }
                                }
                            }
                        }
                    }
                    MDef::Enum(e) => {
                        add(&mut t, dn.clone(), EKind::Enum, di);
                        for en in &e.enumerators {
                            let enn = join(&dn, &en.c.name.name);
                            add(&mut t, enn.clone(), EKind::Enumerator, di);
                            for fl in en.fields.iter().flatten() {
                                add(&mut t, join(&enn, &fl.c.name.name), EKind::Field, di);
                            }
                        }
                    }
                    MDef::Custom(_) => add(&mut t, dn, EKind::Custom, di),
                    MDef::Alias(_) => add(&mut t, dn, EKind::Alias, di),
                }
            }
            if f.module.is_some() {
                add(&mut t, scope.clone(), EKind::Module, usize::MAX);
            }
        }
        t
    }

    /// First declaration with that fully scoped name (no leading '::').
    /// (A module declaration never hides a definition of the same scoped name - `struct B` in `module A` next to a
    /// `module A::B` of another file -: whatever the order of the files, the name designates the definition.)
    pub fn get(&self, scoped: &str) -> Option<&Entity> {
        self.map.get(scoped).and_then(|v| v.iter().find(|e| e.kind != EKind::Module).or(v.first()))
    }

    /// True if the scoped name is declared by entities of different kinds, or more than once by non-modules:
    /// the lookup result is then not defined by the scoping rules alone.
    pub fn ambiguous(&self, scoped: &str) -> bool {
        match self.map.get(scoped) {
            Some(v) => {
                let non_modules = v.iter().filter(|e| e.kind != EKind::Module).count();
                non_modules > 1 || (non_modules == 1 && v.iter().any(|e| e.kind == EKind::Module))
            }
            None => false,
        }
    }

    /// The scoping rule of the statement. Returns the entity found and the list of candidate names that were
    /// looked at (in order), so that callers can tell whether the hit was the first candidate.
    pub fn lookup(&self, name: &str, module_scope: &str) -> (Option<&Entity>, Vec<String>) {
        let mut tried = vec![];
        // (a NAMED reference spelled like a primitive keyword - written `\int32` - is a name like any other: it
        // designates a user-defined entity of that name if one is in scope, and nothing otherwise; the keyword itself
        // is MTypeKind::Prim and never comes here)
        if let Some(g) = name.strip_prefix("::") {
            tried.push(g.to_string());
            return (self.get(g), tried);
        }
        let mut parts: Vec<&str> = if module_scope.is_empty() { vec![] } else { module_scope.split("::").collect() };
        loop {
            let cand = join(&parts.join("::"), name);
            tried.push(cand.clone());
            if let Some(e) = self.get(&cand) {
                return (Some(e), tried);
            }
            if parts.is_empty() {
                return (None, tried);
            }
            parts.pop();
        }
    }
}

#[derive(Clone, Debug, PartialEq, Eq)]
pub enum RIs {
    Prim(&'static str),
    Def { kind: EKind, scoped: String },
    Seq(Box<RType>),
    Dict(Box<RType>, Box<RType>),
    Result(Box<RType>, Box<RType>),
    /// a nested reference that does not resolve (the enclosing program is then ill-formed)
    Unresolved(String),
}

#[derive(Clone, Debug, PartialEq, Eq)]
pub struct RType {
    pub optional: bool,
    /// use-site attributes first, then those of each alias link, in chain order
    pub attrs: Vec<MAttr>,
    pub is: RIs,
    /// how many of `attrs` were written at the use site
    pub own_attrs: usize,
}

#[derive(Clone, Debug, PartialEq, Eq)]
pub enum RErr {
    DoesNotExist(String),
    /// the name designates an entity that is not a type (or not of the kind the position needs)
    WrongKind { found: EKind },
    AliasCycle(String),
}

pub struct Resolver<'a> {
    pub program: &'a Program,
    pub table: &'a Table,
}

impl<'a> Resolver<'a> {
    fn alias_def(&self, e: &Entity) -> &'a MAlias {
        match &self.program[e.file].defs[e.def] {
            MDef::Alias(a) => a,
            _ => unreachable!(),
        }
    }

    /// Resolve a type expression written in a file whose module scope is `scope`.
    pub fn resolve(&self, t: &MType, scope: &str) -> Result<RType, RErr> {
        let mut attrs = t.attrs.clone();
        let own = attrs.len();
        let is = match &t.kind {
            MTypeKind::Prim(p) => RIs::Prim(p),
            MTypeKind::Seq(e) => RIs::Seq(Box::new(self.resolve_nested(e, scope))),
            MTypeKind::Dict(k, v) => RIs::Dict(Box::new(self.resolve_nested(k, scope)), Box::new(self.resolve_nested(v, scope))),
            MTypeKind::Result(s, f) => RIs::Result(Box::new(self.resolve_nested(s, scope)), Box::new(self.resolve_nested(f, scope))),
            MTypeKind::Named(name) => {
                let name = name.replace('\\', "");
                let (hit, _) = self.table.lookup(&name, scope);
                let Some(mut e) = hit else { return Err(RErr::DoesNotExist(name)) };
                // follow alias links
                let mut seen: Vec<String> = vec![];
                loop {
                    match e.kind {
                        EKind::Alias => {
                            if seen.contains(&e.scoped) {
                                return Err(RErr::AliasCycle(e.scoped.clone()));
                            }
                            seen.push(e.scoped.clone());
                            let a = self.alias_def(e);
                            let ascope = self.program[e.file].module_name();
                            attrs.extend(a.ty.attrs.iter().cloned());
                            match &a.ty.kind {
                                MTypeKind::Named(n2) => {
                                    let n2 = n2.replace('\\', "");
                                    let (h2, _) = self.table.lookup(&n2, ascope);
                                    match h2 {
                                        Some(e2) => e = e2,
                                        None => return Err(RErr::DoesNotExist(n2)),
                                    }
                                }
                                other => {
                                    // alias of a primitive or of an anonymous type
                                    let inner = MType { attrs: vec![], kind: other.clone(), optional: false };
                                    let r = self.resolve(&inner, ascope)?;
                                    break r.is;
                                }
                            }
                        }
                        k if matches!(k, EKind::Struct | EKind::Enum | EKind::Custom | EKind::Interface) => break RIs::Def { kind: k, scoped: e.scoped.clone() },
                        k => return Err(RErr::WrongKind { found: k }),
                    }
                }
            }
        };
        Ok(RType { optional: t.optional, attrs, is, own_attrs: own })
    }

    fn resolve_nested(&self, t: &MType, scope: &str) -> RType {
        match self.resolve(t, scope) {
            Ok(r) => r,
            Err(_) => RType { optional: t.optional, attrs: t.attrs.clone(), own_attrs: t.attrs.len(), is: RIs::Unresolved(format!("{:?}", t.kind)) },
        }
    }
}

/// The error a type position must produce, if any (the first one a left-to-right, outside-in walk meets);
/// `what` is what kind of entity the position requires.
#[derive(Clone, Copy, Debug, PartialEq, Eq)]
pub enum Position {
    Type,
    Base,
    Underlying,
}

impl<'a> Resolver<'a> {
    /// All resolution errors of a type expression in a given position (empty = binds fine).
    pub fn errors(&self, t: &MType, scope: &str, pos: Position, out: &mut Vec<RErr>) {
        match &t.kind {
            MTypeKind::Prim(_) => {
                if pos == Position::Base {
                    out.push(RErr::WrongKind { found: EKind::Custom }); // a primitive is not an interface
                }
            }
            MTypeKind::Seq(e) => {
                if pos != Position::Type {
                    out.push(RErr::WrongKind { found: EKind::Custom });
                }
                self.errors(e, scope, Position::Type, out);
            }
            MTypeKind::Dict(k, v) | MTypeKind::Result(k, v) => {
                if pos != Position::Type {
                    out.push(RErr::WrongKind { found: EKind::Custom });
                }
                self.errors(k, scope, Position::Type, out);
                self.errors(v, scope, Position::Type, out);
            }
            MTypeKind::Named(_) => match self.resolve(t, scope) {
                Err(e) => out.push(e),
                Ok(r) => {
                    let ok = match (&r.is, pos) {
                        (RIs::Def { kind: EKind::Interface, .. }, Position::Base) => true,
                        (_, Position::Base) => false,
                        (RIs::Prim(_), Position::Underlying) => true,
                        (_, Position::Underlying) => false,
                        (RIs::Def { kind: EKind::Interface, .. }, Position::Type) => false,
                        (_, Position::Type) => true,
                    };
                    if !ok {
                        let found = match &r.is {
                            RIs::Def { kind, .. } => *kind,
                            _ => EKind::Custom,
                        };
                        out.push(RErr::WrongKind { found });
                    }
                    // nested unresolved references inside an aliased anonymous type are reported at the alias
                }
            },
        }
    }
}
