//! Model AST of the Slice language: what a program *says*, independent of how it is laid out.

#[derive(Clone, Debug, PartialEq, Eq, Hash)]
pub struct MIdent {
    pub name: String,
    /// written with a leading backslash
    pub escaped: bool,
}
impl MIdent {
    pub fn new(s: &str) -> Self {
        MIdent { name: s.to_string(), escaped: false }
    }
    pub fn esc(s: &str) -> Self {
        MIdent { name: s.to_string(), escaped: true }
    }
}

#[derive(Clone, Debug, PartialEq, Eq, Hash)]
pub enum MArg {
    /// bare identifier argument (may be spelled like a keyword)
    Ident(String),
    /// string literal argument: raw text between the quotes, as written (with escapes)
    Str(String),
}
impl MArg {
    /// the unescaped value the AST must hold: a backslash makes the following character literal
    pub fn value(&self) -> String {
        match self {
            MArg::Ident(s) => s.clone(),
            MArg::Str(raw) => {
                let mut out = String::new();
                let mut esc = false;
                for c in raw.chars() {
                    if c == '\\' && !esc {
                        esc = true;
                    } else {
                        out.push(c);
                        esc = false;
                    }
                }
                out
            }
        }
    }
}

#[derive(Clone, Debug, PartialEq, Eq, Hash)]
pub struct MAttr {
    /// possibly scoped directive, e.g. "deprecated", "cs::identifier", "a::b::c"
    pub directive: String,
    /// None = no parentheses
    pub args: Option<Vec<MArg>>,
    /// trailing comma after the last argument
    pub trailing_comma: bool,
}
impl MAttr {
    pub fn new(d: &str) -> Self {
        MAttr { directive: d.to_string(), args: None, trailing_comma: false }
    }
    pub fn with(d: &str, args: Vec<MArg>) -> Self {
        MAttr { directive: d.to_string(), args: Some(args), trailing_comma: false }
    }
    pub fn arg_values(&self) -> Vec<String> {
        self.args.as_ref().map(|a| a.iter().map(|x| x.value()).collect()).unwrap_or_default()
    }
}

#[derive(Clone, Debug, PartialEq, Eq, Hash)]
pub struct MInt {
    pub value: i128,
    /// as written, including a leading '-' if any (e.g. "-0x10", "1_000", "0b11")
    pub spelling: String,
}
impl MInt {
    pub fn dec(v: i128) -> Self {
        MInt { value: v, spelling: v.to_string() }
    }
    pub fn spelled(v: i128, s: &str) -> Self {
        MInt { value: v, spelling: s.to_string() }
    }
}

#[derive(Clone, Debug, PartialEq, Eq, Hash)]
pub enum MTypeKind {
    Prim(&'static str),
    /// as spelled: "X", "A::X", "::A::X"
    Named(String),
    Seq(Box<MType>),
    Dict(Box<MType>, Box<MType>),
    Result(Box<MType>, Box<MType>),
}

#[derive(Clone, Debug, PartialEq, Eq, Hash)]
pub struct MType {
    pub attrs: Vec<MAttr>,
    pub kind: MTypeKind,
    pub optional: bool,
}
impl MType {
    pub fn prim(p: &'static str) -> Self {
        MType { attrs: vec![], kind: MTypeKind::Prim(p), optional: false }
    }
    pub fn named(n: &str) -> Self {
        MType { attrs: vec![], kind: MTypeKind::Named(n.to_string()), optional: false }
    }
    pub fn seq(t: MType) -> Self {
        MType { attrs: vec![], kind: MTypeKind::Seq(Box::new(t)), optional: false }
    }
    pub fn dict(k: MType, v: MType) -> Self {
        MType { attrs: vec![], kind: MTypeKind::Dict(Box::new(k), Box::new(v)), optional: false }
    }
    pub fn result(s: MType, f: MType) -> Self {
        MType { attrs: vec![], kind: MTypeKind::Result(Box::new(s), Box::new(f)), optional: false }
    }
    pub fn opt(mut self) -> Self {
        self.optional = true;
        self
    }
    pub fn attr(mut self, a: MAttr) -> Self {
        self.attrs.push(a);
        self
    }
}

/// One raw doc-comment line: the text after the three slashes, exactly as written.
#[derive(Clone, Debug, PartialEq, Eq, Hash, Default)]
pub struct MDoc {
    pub lines: Vec<String>,
}

#[derive(Clone, Debug, PartialEq, Eq, Hash)]
pub struct MCommon {
    pub doc: MDoc,
    pub attrs: Vec<MAttr>,
    pub name: MIdent,
    /// prelude order: if true, attributes are written before the doc comment lines
    pub attrs_first: bool,
    /// the attributes are written between the first and the second line of the doc comment (needs >= 2 doc lines)
    pub interleaved: bool,
}
impl MCommon {
    pub fn new(name: &str) -> Self {
        MCommon { doc: MDoc::default(), attrs: vec![], name: MIdent::new(name), attrs_first: false, interleaved: false }
    }
    pub fn doc(mut self, lines: &[&str]) -> Self {
        self.doc.lines = lines.iter().map(|s| s.to_string()).collect();
        self
    }
    pub fn attr(mut self, a: MAttr) -> Self {
        self.attrs.push(a);
        self
    }
}

#[derive(Clone, Debug, PartialEq, Eq, Hash)]
pub struct MField {
    pub c: MCommon,
    pub tag: Option<MInt>,
    pub ty: MType,
}
impl MField {
    pub fn new(name: &str, ty: MType) -> Self {
        MField { c: MCommon::new(name), tag: None, ty }
    }
    pub fn tagged(name: &str, tag: i128, ty: MType) -> Self {
        MField { c: MCommon::new(name), tag: Some(MInt::dec(tag)), ty }
    }
}

#[derive(Clone, Debug, PartialEq, Eq, Hash)]
pub struct MStruct {
    pub c: MCommon,
    pub compact: bool,
    pub fields: Vec<MField>,
}

#[derive(Clone, Debug, PartialEq, Eq, Hash)]
pub struct MParam {
    pub attrs: Vec<MAttr>,
    pub name: MIdent,
    pub tag: Option<MInt>,
    pub stream: bool,
    pub ty: MType,
    /// doc comment lines written on the parameter (always a syntax error; used by the violation catalogue)
    pub doc: MDoc,
}
impl MParam {
    pub fn new(name: &str, ty: MType) -> Self {
        MParam { attrs: vec![], name: MIdent::new(name), tag: None, stream: false, ty, doc: MDoc::default() }
    }
}

#[derive(Clone, Debug, PartialEq, Eq, Hash)]
pub enum MRet {
    None,
    Single { tag: Option<MInt>, stream: bool, ty: MType },
    Tuple(Vec<MParam>),
}

#[derive(Clone, Debug, PartialEq, Eq, Hash)]
pub struct MOp {
    pub c: MCommon,
    pub idempotent: bool,
    pub params: Vec<MParam>,
    pub ret: MRet,
}

#[derive(Clone, Debug, PartialEq, Eq, Hash)]
pub struct MInterface {
    pub c: MCommon,
    pub bases: Vec<MType>,
    pub ops: Vec<MOp>,
}

#[derive(Clone, Debug, PartialEq, Eq, Hash)]
pub struct MEnumerator {
    pub c: MCommon,
    /// None = no parentheses; Some(vec![]) = "()"
    pub fields: Option<Vec<MField>>,
    pub value: Option<MInt>,
}

#[derive(Clone, Debug, PartialEq, Eq, Hash)]
pub struct MEnum {
    pub c: MCommon,
    pub compact: bool,
    pub unchecked: bool,
    pub underlying: Option<MType>,
    pub enumerators: Vec<MEnumerator>,
}

#[derive(Clone, Debug, PartialEq, Eq, Hash)]
pub struct MCustom {
    pub c: MCommon,
}

#[derive(Clone, Debug, PartialEq, Eq, Hash)]
pub struct MAlias {
    pub c: MCommon,
    pub ty: MType,
}

#[derive(Clone, Debug, PartialEq, Eq, Hash)]
pub enum MDef {
    Struct(MStruct),
    Interface(MInterface),
    Enum(MEnum),
    Custom(MCustom),
    Alias(MAlias),
}
impl MDef {
    pub fn common(&self) -> &MCommon {
        match self {
            MDef::Struct(x) => &x.c,
            MDef::Interface(x) => &x.c,
            MDef::Enum(x) => &x.c,
            MDef::Custom(x) => &x.c,
            MDef::Alias(x) => &x.c,
        }
    }
    pub fn common_mut(&mut self) -> &mut MCommon {
        match self {
            MDef::Struct(x) => &mut x.c,
            MDef::Interface(x) => &mut x.c,
            MDef::Enum(x) => &mut x.c,
            MDef::Custom(x) => &mut x.c,
            MDef::Alias(x) => &mut x.c,
        }
    }
    pub fn kind(&self) -> &'static str {
        match self {
            MDef::Struct(_) => "struct",
            MDef::Interface(_) => "interface",
            MDef::Enum(_) => "enum",
            MDef::Custom(_) => "custom type",
            MDef::Alias(_) => "type alias",
        }
    }
}

#[derive(Clone, Debug, PartialEq, Eq, Hash)]
pub struct MModule {
    pub attrs: Vec<MAttr>,
    /// possibly nested: "A::B"
    pub name: String,
}

/// A preprocessor directive line placed before definition `before_def` (None = after the last definition).
#[derive(Clone, Debug, PartialEq, Eq, Hash)]
pub struct MPre {
    pub before_def: usize,
    pub text: String,
}

#[derive(Clone, Debug, PartialEq, Eq, Hash, Default)]
pub struct MFile {
    pub file_attrs: Vec<MAttr>,
    pub module: Option<MModule>,
    pub defs: Vec<MDef>,
    /// whole-line directives that do not remove anything (e.g. "#define X", "#if !NOPE" ... "#endif")
    pub pre: Vec<MPre>,
}
impl MFile {
    pub fn module(name: &str) -> Self {
        MFile { file_attrs: vec![], module: Some(MModule { attrs: vec![], name: name.to_string() }), defs: vec![], pre: vec![] }
    }
    pub fn with(mut self, d: MDef) -> Self {
        self.defs.push(d);
        self
    }
    pub fn module_name(&self) -> &str {
        self.module.as_ref().map(|m| m.name.as_str()).unwrap_or("")
    }
}

pub type Program = Vec<MFile>;

// ---- small constructors used by the generators --------------------------------------------------------------

pub fn st(name: &str, fields: Vec<MField>) -> MDef {
    MDef::Struct(MStruct { c: MCommon::new(name), compact: false, fields })
}
pub fn cst(name: &str, fields: Vec<MField>) -> MDef {
    MDef::Struct(MStruct { c: MCommon::new(name), compact: true, fields })
}
pub fn iface(name: &str, bases: Vec<MType>, ops: Vec<MOp>) -> MDef {
    MDef::Interface(MInterface { c: MCommon::new(name), bases, ops })
}
pub fn op(name: &str, params: Vec<MParam>, ret: MRet) -> MOp {
    MOp { c: MCommon::new(name), idempotent: false, params, ret }
}
pub fn en(name: &str, underlying: Option<MType>, enumerators: Vec<MEnumerator>) -> MDef {
    MDef::Enum(MEnum { c: MCommon::new(name), compact: false, unchecked: false, underlying, enumerators })
}
pub fn enumerator(name: &str) -> MEnumerator {
    MEnumerator { c: MCommon::new(name), fields: None, value: None }
}
pub fn enumerator_v(name: &str, v: MInt) -> MEnumerator {
    MEnumerator { c: MCommon::new(name), fields: None, value: Some(v) }
}
pub fn custom(name: &str) -> MDef {
    MDef::Custom(MCustom { c: MCommon::new(name) })
}
pub fn alias(name: &str, ty: MType) -> MDef {
    MDef::Alias(MAlias { c: MCommon::new(name), ty })
}

pub const PRIMITIVES: [&str; 16] = [
    "bool", "int8", "uint8", "int16", "uint16", "int32", "uint32", "varint32", "varuint32", "int64", "uint64", "varint62", "varuint62", "float32", "float64", "string",
];

pub const KEYWORDS: [&str; 30] = [
    "module", "struct", "interface", "enum", "custom", "typealias", "Result", "Sequence", "Dictionary", "bool", "int8", "uint8", "int16", "uint16", "int32", "uint32", "varint32",
    "varuint32", "int64", "uint64", "varint62", "varuint62", "float32", "float64", "string", "compact", "idempotent", "stream", "tag", "unchecked",
];

pub fn prim_bounds(p: &str) -> Option<(i128, i128)> {
    Some(match p {
        "int8" => (-(1 << 7), (1 << 7) - 1),
        "uint8" => (0, (1 << 8) - 1),
        "int16" => (-(1 << 15), (1 << 15) - 1),
        "uint16" => (0, (1 << 16) - 1),
        "int32" | "varint32" => (-(1i128 << 31), (1i128 << 31) - 1),
        "uint32" | "varuint32" => (0, (1i128 << 32) - 1),
        "int64" => (-(1i128 << 63), (1i128 << 63) - 1),
        "uint64" => (0, (1i128 << 64) - 1),
        "varint62" => (-(1i128 << 61), (1i128 << 61) - 1),
        "varuint62" => (0, (1i128 << 62) - 1),
        _ => return None,
    })
}
