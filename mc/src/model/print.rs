//! Printer: renders a model file to text under a layout strategy and records, for every element, which tokens
//! it is made of; after rendering, every token's (row, col) in characters is known, so the expected positions of
//! C09 come from the printer, not from slicec.

use super::ast::*;
use super::resolve::*;
use super::tree::*;

#[derive(Clone, Debug, PartialEq, Eq)]
pub enum TokKind {
    Word,
    Punct,
    /// "///" + text; must be followed by a line break
    DocLine,
    /// a string literal including its quotes
    Str,
    /// a preprocessor directive: alone on its line
    PreLine,
}

#[derive(Clone, Debug)]
pub struct Tok {
    pub text: String,
    pub kind: TokKind,
}

#[derive(Clone, Copy, Debug, PartialEq, Eq, Hash)]
pub enum Sep {
    Space,
    Newline,
    Tab,
    BlockComment,
    LineComment,
    CrLf,
    MultiByteComment,
    /// nothing where two tokens may touch, otherwise one space
    Tight,
    BlankLinesIndent,
    /// a multi-byte comment and a tab, then a line break: non-ASCII text on every line of a multi-line span
    MultiByteLines,
    /// comments that look like something else: four slashes (not a doc comment), empty and star-heavy block comments,
    /// an empty line comment
    OddComments,
    /// a preprocessor line that removes nothing, between ANY two tokens: every construct - an attribute's argument list,
    /// a type expression, a member list - continues in the next source block
    DirectiveLines,
}
pub const ALL_SEPS: [Sep; 12] = [Sep::Space, Sep::Newline, Sep::Tab, Sep::BlockComment, Sep::LineComment, Sep::CrLf, Sep::MultiByteComment, Sep::Tight, Sep::BlankLinesIndent, Sep::MultiByteLines, Sep::OddComments, Sep::DirectiveLines];

impl Sep {
    pub fn text(&self) -> &'static str {
        match self {
            Sep::Space => " ",
            Sep::Newline => "\n",
            Sep::Tab => "\t",
            Sep::BlockComment => "/*c*/",
            Sep::LineComment => " //c\n",
            Sep::CrLf => "\r\n",
            Sep::MultiByteComment => " /*é✓😀*/\t",
            Sep::Tight => "",
            Sep::BlankLinesIndent => "\n\n    ",
            Sep::MultiByteLines => "\t/*é✓😀*/ // données ☃\n\t",
            // (also: block comments whose text begins with a slash or a star, and the "toggle" comment that ends in /*/)
            Sep::OddComments => " ////not a doc comment\n/**/ /***/ /* // */ /*/ slash first */ /*// two */ /*/*/ /*/ struct Off {} /*/ //\n",
            Sep::DirectiveLines => "\n#define ZZ9 // continues below\n\t",
        }
    }
    pub fn has_newline(&self) -> bool {
        self.text().contains('\n')
    }
}

#[derive(Clone, Copy, Debug, PartialEq, Eq, Hash)]
pub enum Commas {
    /// no optional commas
    None,
    /// a comma after every member except the last
    Between,
    /// a comma after every member including the last
    Trailing,
}

#[derive(Clone, Debug)]
pub struct Layout {
    pub sep: Sep,
    pub commas: Commas,
    /// per-gap override (index = gap before token i+1), values index into ALL_SEPS
    pub per_gap: Option<Vec<u8>>,
    /// trailing comma in mandatory comma lists (bases, attribute arguments)
    pub trailing_in_lists: bool,
    /// text placed before the first token (e.g. a BOM-less leading comment / blank lines)
    pub lead: &'static str,
    /// text after the last token
    pub trail: &'static str,
}
impl Layout {
    pub fn uniform(sep: Sep, commas: Commas) -> Self {
        Layout { sep, commas, per_gap: None, trailing_in_lists: false, lead: "", trail: "\n" }
    }
    pub fn describe(&self) -> String {
        format!("sep={:?} commas={:?} per_gap={:?} trailing_in_lists={} lead={:?} trail={:?}", self.sep, self.commas, self.per_gap, self.trailing_in_lists, self.lead, self.trail)
    }
}

#[derive(Clone, Copy, Debug, Default, PartialEq, Eq)]
pub struct Loc {
    pub row: usize,
    pub col: usize,
}

#[derive(Clone, Debug)]
pub struct Rendered {
    pub text: String,
    pub toks: Vec<Tok>,
    /// start (inclusive) and end (exclusive) of every token, 1-based, in characters
    pub tok_pos: Vec<(Loc, Loc)>,
    pub tree: Node,
}

struct P<'a> {
    toks: Vec<Tok>,
    commas: Commas,
    trailing_in_lists: bool,
    /// resolver and the module scope of the file being printed (None: leave names unresolved)
    ctx: Option<(&'a Resolver<'a>, String)>,
    /// parser scope: module parts and the names of the enclosing containers
    scope: Vec<String>,
}

/// The argument list an attribute must present after parsing: known attributes are compared through their typed
/// fields (compress/slicedFormat: which of Args/Return are set; deprecated: the reason; oneway: nothing).
pub fn normalised_args(directive: &str, args: &[String]) -> Vec<String> {
    match directive {
        "compress" | "slicedFormat" => {
            let mut v = vec![];
            if args.iter().any(|a| a == "Args") {
                v.push("Args".to_string());
            }
            if args.iter().any(|a| a == "Return") {
                v.push("Return".to_string());
            }
            v
        }
        "deprecated" => args.iter().take(1).cloned().collect(),
        "oneway" => vec![],
        _ => args.to_vec(),
    }
}

pub fn attr_node(a: &MAttr) -> Node {
    let mut n = Node::new("attr");
    n.prop("directive", &a.directive);
    let args = normalised_args(&a.directive, &a.arg_values());
    n.prop("args", &args.join("\u{1f}"));
    n.prop("argc", &args.len().to_string());
    n
}

/// Node of a resolved type that was not written here (reached through an alias): no positions.
pub fn rtype_node(rt: &RType) -> Node {
    let mut n = Node::new("type");
    for a in &rt.attrs {
        n.children.push(attr_node(a));
    }
    apply_ris(&mut n, &rt.is);
    n.prop("optional", if rt.optional { "true" } else { "false" });
    n
}

fn apply_ris(n: &mut Node, is: &RIs) {
    match is {
        RIs::Prim(p) => n.set("is", &format!("prim:{p}")),
        RIs::Def { kind, scoped } => n.set("is", &format!("def:{}:{}", kind.name(), scoped)),
        RIs::Unresolved(s) => n.set("is", &format!("unresolved:{s}")),
        RIs::Seq(e) => {
            n.set("is", "seq");
            n.children.push(rtype_node(e));
        }
        RIs::Dict(k, v) => {
            n.set("is", "dict");
            n.children.push(rtype_node(k));
            n.children.push(rtype_node(v));
        }
        RIs::Result(a, b) => {
            n.set("is", "result");
            n.children.push(rtype_node(a));
            n.children.push(rtype_node(b));
        }
    }
}

impl<'a> P<'a> {
    fn w(&mut self, s: &str) -> usize {
        self.toks.push(Tok { text: s.to_string(), kind: TokKind::Word });
        self.toks.len() - 1
    }
    fn p(&mut self, s: &str) -> usize {
        self.toks.push(Tok { text: s.to_string(), kind: TokKind::Punct });
        self.toks.len() - 1
    }
    fn ident(&mut self, i: &MIdent) -> usize {
        if i.escaped {
            self.toks.push(Tok { text: format!("\\{}", i.name), kind: TokKind::Word });
            self.toks.len() - 1
        } else {
            self.w(&i.name)
        }
    }
    /// a possibly scoped identifier: X, A::B::X, ::A::X — emitted as separate tokens
    fn scoped(&mut self, s: &str) -> (usize, usize) {
        let first = self.toks.len();
        let mut rest = s;
        if let Some(r) = rest.strip_prefix("::") {
            self.p("::");
            rest = r;
        }
        for (i, part) in rest.split("::").enumerate() {
            if i > 0 {
                self.p("::");
            }
            if let Some(esc) = part.strip_prefix('\\') {
                self.toks.push(Tok { text: format!("\\{esc}"), kind: TokKind::Word });
            } else {
                self.w(part);
            }
        }
        (first, self.toks.len() - 1)
    }
    fn int(&mut self, i: &MInt) -> (usize, usize) {
        let first = self.toks.len();
        if let Some(r) = i.spelling.strip_prefix('-') {
            self.p("-");
            self.w(r);
        } else {
            self.w(&i.spelling);
        }
        (first, self.toks.len() - 1)
    }

    fn attr(&mut self, a: &MAttr, open: &str, close: &str) -> Node {
        self.p(open);
        let (first, mut last) = self.scoped(&a.directive);
        if let Some(args) = &a.args {
            self.p("(");
            for (i, arg) in args.iter().enumerate() {
                if i > 0 {
                    self.p(",");
                }
                match arg {
                    MArg::Ident(s) => {
                        self.w(s);
                    }
                    MArg::Str(raw) => {
                        self.toks.push(Tok { text: format!("\"{raw}\""), kind: TokKind::Str });
                    }
                }
            }
            if !args.is_empty() && (a.trailing_comma || self.trailing_in_lists) {
                self.p(",");
            }
            last = self.p(")");
        }
        self.p(close);
        let mut n = attr_node(a);
        n.pos = Some(Pos { first, last, name: None, rule: PosRule::Exact });
        n
    }

    /// doc comment lines and attributes in prelude order; returns (attr nodes, doc node)
    fn prelude(&mut self, doc: &MDoc, attrs: &[MAttr], attrs_first: bool, interleaved: bool, owner: &str) -> (Vec<Node>, Option<Node>) {
        let mut attr_nodes = vec![];
        let mut doc_node = None;
        let owner_scoped = if self.scope.is_empty() { owner.to_string() } else { format!("{}::{}", self.scope.join("::"), owner) };
        let emit_doc = |p: &mut P<'a>| -> Option<Node> {
            if doc.lines.is_empty() {
                return None;
            }
            let first = p.toks.len();
            for l in &doc.lines {
                p.toks.push(Tok { text: format!("///{l}"), kind: TokKind::DocLine });
            }
            // a malformed comment is dropped (with a lint); a well-formed one must say what was written
            let parsed = super::doc::ref_parse(&doc.lines).ok()?;
            let mut n = match &p.ctx {
                Some((r, _)) => super::doc::expected_node(&parsed, Some((r.table, owner_scoped.as_str()))),
                None => super::doc::expected_node(&parsed, None),
            };
            n.pos = Some(Pos { first, last: p.toks.len() - 1, name: None, rule: PosRule::Within });
            n.raw_doc = Some(doc.lines.clone());
            Some(n)
        };
        if interleaved && doc.lines.len() >= 2 && !attrs.is_empty() {
            // first doc line, the attributes, the remaining doc lines: still ONE comment
            let first = self.toks.len();
            self.toks.push(Tok { text: format!("///{}", doc.lines[0]), kind: TokKind::DocLine });
            for a in attrs {
                attr_nodes.push(self.attr(a, "[", "]"));
            }
            for l in &doc.lines[1..] {
                self.toks.push(Tok { text: format!("///{l}"), kind: TokKind::DocLine });
            }
            if let Ok(parsed) = super::doc::ref_parse(&doc.lines) {
                let mut n = match &self.ctx {
                    Some((r, _)) => super::doc::expected_node(&parsed, Some((r.table, owner_scoped.as_str()))),
                    None => super::doc::expected_node(&parsed, None),
                };
                n.pos = Some(Pos { first, last: self.toks.len() - 1, name: None, rule: PosRule::Within });
                n.raw_doc = Some(doc.lines.clone());
                doc_node = Some(n);
            }
            return (attr_nodes, doc_node);
        }
        if !attrs_first {
            doc_node = emit_doc(self);
        }
        for a in attrs {
            attr_nodes.push(self.attr(a, "[", "]"));
        }
        if attrs_first {
            doc_node = emit_doc(self);
        }
        (attr_nodes, doc_node)
    }

    fn ty(&mut self, t: &MType) -> Node {
        let first = self.toks.len();
        let mut n = Node::new("type");
        for a in &t.attrs {
            let an = self.attr(a, "[", "]");
            n.children.push(an);
        }
        let after_attrs = self.toks.len();
        match &t.kind {
            MTypeKind::Prim(p) => {
                self.w(p);
                n.prop("is", &format!("prim:{p}"));
            }
            MTypeKind::Named(s) => {
                self.scoped(s);
                n.prop("is", &format!("named:{}", s.replace('\\', "")));
                if let Some((r, scope)) = &self.ctx {
                    let probe = MType { attrs: vec![], kind: t.kind.clone(), optional: false };
                    if let Ok(rt) = r.resolve(&probe, scope) {
                        // attributes picked up from alias links come after the ones written here
                        for a in &rt.attrs {
                            n.children.push(attr_node(a));
                        }
                        apply_ris(&mut n, &rt.is);
                    }
                }
            }
            MTypeKind::Seq(e) => {
                self.w("Sequence");
                self.p("<");
                let c = self.ty(e);
                self.p(">");
                n.prop("is", "seq");
                n.children.push(c);
            }
            MTypeKind::Dict(k, v) => {
                self.w("Dictionary");
                self.p("<");
                let a = self.ty(k);
                self.p(",");
                let b = self.ty(v);
                self.p(">");
                n.prop("is", "dict");
                n.children.push(a);
                n.children.push(b);
            }
            MTypeKind::Result(s, f) => {
                self.w("Result");
                self.p("<");
                let a = self.ty(s);
                self.p(",");
                let b = self.ty(f);
                self.p(">");
                n.prop("is", "result");
                n.children.push(a);
                n.children.push(b);
            }
        }
        if t.optional {
            self.p("?");
        }
        n.prop("optional", if t.optional { "true" } else { "false" });
        n.pos = Some(Pos { first, last: self.toks.len() - 1, name: None, rule: PosRule::TypeRef { after_attrs } });
        n
    }

    fn tag(&mut self, t: &Option<MInt>, n: &mut Node) {
        if let Some(t) = t {
            self.w("tag");
            self.p("(");
            let (lf, ll) = self.int(t);
            self.p(")");
            n.prop("tag", &((t.value as u32).to_string()));
            // the literal is a symbol with a location of its own: exactly its tokens
            let mut lit = Node::new("tagvalue");
            lit.prop("value", &((t.value as u32).to_string()));
            lit.pos = Some(Pos { first: lf, last: ll, name: None, rule: PosRule::Exact });
            n.children.push(lit);
        } else {
            n.prop("tag", "none");
        }
    }

    fn member_comma(&mut self, is_last: bool) {
        match self.commas {
            Commas::None => {}
            Commas::Between => {
                if !is_last {
                    self.p(",");
                }
            }
            Commas::Trailing => {
                self.p(",");
            }
        }
    }

    fn field(&mut self, f: &MField) -> Node {
        let (attrs, doc) = self.prelude(&f.c.doc, &f.c.attrs, f.c.attrs_first, f.c.interleaved, &f.c.name.name);
        let first = self.toks.len();
        let mut n = Node::new("field");
        self.tag(&f.tag, &mut n);
        let name = self.ident(&f.c.name);
        n.prop("id", &f.c.name.name);
        self.p(":");
        let t = self.ty(&f.ty);
        n.children.extend(attrs);
        n.children.extend(doc);
        n.children.push(ident_node(&f.c.name, name));
        n.children.push(t);
        n.pos = Some(Pos { first, last: self.toks.len() - 1, name: Some(name), rule: PosRule::Decl });
        n
    }

    fn fields(&mut self, fs: &[MField]) -> Vec<Node> {
        let mut out = vec![];
        for (i, f) in fs.iter().enumerate() {
            out.push(self.field(f));
            self.member_comma(i + 1 == fs.len());
        }
        out
    }

    fn param(&mut self, p: &MParam, kind: &'static str) -> Node {
        let (attrs, doc) = self.prelude(&p.doc, &p.attrs, false, false, &p.name.name);
        let _ = doc;
        let first = self.toks.len();
        let mut n = Node::new(kind);
        self.tag(&p.tag, &mut n);
        let name = self.ident(&p.name);
        n.prop("id", &p.name.name);
        self.p(":");
        if p.stream {
            self.w("stream");
        }
        n.prop("stream", if p.stream { "true" } else { "false" });
        let t = self.ty(&p.ty);
        n.children.extend(attrs);
        n.children.push(ident_node(&p.name, name));
        n.children.push(t);
        n.pos = Some(Pos { first, last: self.toks.len() - 1, name: Some(name), rule: PosRule::Decl });
        n
    }

    fn params(&mut self, ps: &[MParam], kind: &'static str) -> Vec<Node> {
        let mut out = vec![];
        for (i, p) in ps.iter().enumerate() {
            out.push(self.param(p, kind));
            self.member_comma(i + 1 == ps.len());
        }
        out
    }

    fn op(&mut self, o: &MOp) -> Node {
        let (attrs, doc) = self.prelude(&o.c.doc, &o.c.attrs, o.c.attrs_first, o.c.interleaved, &o.c.name.name);
        let first = self.toks.len();
        let mut n = Node::new("operation");
        if o.idempotent {
            self.w("idempotent");
        }
        n.prop("idempotent", if o.idempotent { "true" } else { "false" });
        let name = self.ident(&o.c.name);
        n.prop("id", &o.c.name.name);
        self.p("(");
        let params = self.params(&o.params, "param");
        let mut last = self.p(")");
        let mut rets = vec![];
        match &o.ret {
            MRet::None => {}
            MRet::Single { tag, stream, ty } => {
                self.p("->");
                let rfirst = self.toks.len();
                let mut r = Node::new("ret");
                self.tag(tag, &mut r);
                r.prop("id", "returnValue");
                if *stream {
                    self.w("stream");
                }
                r.prop("stream", if *stream { "true" } else { "false" });
                let t = self.ty(ty);
                r.children.push(t);
                last = self.toks.len() - 1;
                r.pos = Some(Pos { first: rfirst, last, name: None, rule: PosRule::Decl });
                rets.push(r);
            }
            MRet::Tuple(ps) => {
                self.p("->");
                self.p("(");
                rets = self.params(ps, "ret");
                last = self.p(")");
            }
        }
        n.children.extend(attrs);
        n.children.extend(doc);
        n.children.push(ident_node(&o.c.name, name));
        n.children.extend(params);
        n.children.extend(rets);
        n.pos = Some(Pos { first, last, name: Some(name), rule: PosRule::Decl });
        n
    }

    fn def(&mut self, d: &MDef) -> Node {
        let c = d.common();
        let (attrs, doc) = self.prelude(&c.doc, &c.attrs, c.attrs_first, c.interleaved, &c.name.name);
        self.scope.push(c.name.name.clone());
        let first = self.toks.len();
        let mut n;
        let name;
        let last;
        match d {
            MDef::Struct(s) => {
                n = Node::new("struct");
                if s.compact {
                    self.w("compact");
                }
                n.prop("compact", if s.compact { "true" } else { "false" });
                self.w("struct");
                name = self.ident(&c.name);
                self.p("{");
                let fs = self.fields(&s.fields);
                last = self.p("}");
                n.children.extend(attrs);
                n.children.extend(doc);
                n.children.push(ident_node(&c.name, name));
                n.children.extend(fs);
            }
            MDef::Interface(i) => {
                n = Node::new("interface");
                self.w("interface");
                name = self.ident(&c.name);
                let mut bases = vec![];
                if !i.bases.is_empty() {
                    self.p(":");
                    for (k, b) in i.bases.iter().enumerate() {
                        if k > 0 {
                            self.p(",");
                        }
                        let mut bn = self.ty(b);
                        bn.kind = "base";
                        bases.push(bn);
                    }
                    if self.trailing_in_lists {
                        self.p(",");
                    }
                }
                self.p("{");
                let mut ops = vec![];
                for o in &i.ops {
                    ops.push(self.op(o));
                }
                last = self.p("}");
                n.children.extend(attrs);
                n.children.extend(doc);
                n.children.push(ident_node(&c.name, name));
                n.children.extend(bases);
                n.children.extend(ops);
            }
            MDef::Enum(e) => {
                n = Node::new("enum");
                if e.compact {
                    self.w("compact");
                }
                if e.unchecked {
                    self.w("unchecked");
                }
                n.prop("compact", if e.compact { "true" } else { "false" });
                n.prop("unchecked", if e.unchecked { "true" } else { "false" });
                self.w("enum");
                name = self.ident(&c.name);
                let mut under = None;
                if let Some(u) = &e.underlying {
                    self.p(":");
                    let mut un = self.ty(u);
                    un.kind = "underlying";
                    under = Some(un);
                }
                self.p("{");
                let mut ens = vec![];
                let mut prev: Option<i128> = None;
                for (k, en) in e.enumerators.iter().enumerate() {
                    let (eattrs, edoc) = self.prelude(&en.c.doc, &en.c.attrs, en.c.attrs_first, en.c.interleaved, &en.c.name.name);
                    self.scope.push(en.c.name.name.clone());
                    let efirst = self.toks.len();
                    let mut x = Node::new("enumerator");
                    let ename = self.ident(&en.c.name);
                    let mut elast = ename;
                    x.prop("id", &en.c.name.name);
                    let mut fnodes = vec![];
                    if let Some(fs) = &en.fields {
                        self.p("(");
                        fnodes = self.fields(fs);
                        elast = self.p(")");
                    }
                    self.scope.pop();
                    x.prop("has_field_list", if en.fields.is_some() { "true" } else { "false" });
                    let mut literal: Option<Node> = None;
                    let value = match &en.value {
                        Some(v) => {
                            self.p("=");
                            let (lf, l) = self.int(v);
                            elast = l;
                            x.prop("explicit", "true");
                            // the literal (sign included) is a symbol with a location of its own: exactly its tokens
                            let mut lit = Node::new("valueliteral");
                            lit.prop("value", &v.value.to_string());
                            lit.pos = Some(Pos { first: lf, last: l, name: None, rule: PosRule::Exact });
                            literal = Some(lit);
                            v.value
                        }
                        None => {
                            x.prop("explicit", "false");
                            prev.map_or(0, |p| p + 1)
                        }
                    };
                    prev = Some(value);
                    x.prop("value", &value.to_string());
                    x.children.extend(eattrs);
                    x.children.extend(edoc);
                    x.children.push(ident_node(&en.c.name, ename));
                    x.children.extend(fnodes);
                    x.children.extend(literal);
                    x.pos = Some(Pos { first: efirst, last: elast, name: Some(ename), rule: PosRule::Decl });
                    ens.push(x);
                    self.member_comma(k + 1 == e.enumerators.len());
                }
                last = self.p("}");
                n.children.extend(attrs);
                n.children.extend(doc);
                n.children.push(ident_node(&c.name, name));
                n.children.extend(under);
                n.children.extend(ens);
            }
            MDef::Custom(_) => {
                n = Node::new("custom");
                self.w("custom");
                name = self.ident(&c.name);
                last = name;
                n.children.extend(attrs);
                n.children.extend(doc);
                n.children.push(ident_node(&c.name, name));
            }
            MDef::Alias(a) => {
                n = Node::new("alias");
                self.w("typealias");
                name = self.ident(&c.name);
                self.p("=");
                let t = self.ty(&a.ty);
                last = self.toks.len() - 1;
                n.children.extend(attrs);
                n.children.extend(doc);
                n.children.push(ident_node(&c.name, name));
                n.children.push(t);
            }
        }
        self.scope.pop();
        n.props.insert(0, ("id", c.name.name.clone()));
        n.pos = Some(Pos { first, last, name: Some(name), rule: PosRule::Decl });
        n
    }
}

fn ident_node(i: &MIdent, tok: usize) -> Node {
    let mut n = Node::new("identifier");
    n.prop("value", &i.name);
    n.pos = Some(Pos { first: tok, last: tok, name: None, rule: PosRule::Identifier { escaped: i.escaped } });
    n
}

/// True if tokens a and b would lex differently (or not at all) when written without anything between them.
fn needs_space(a: &Tok, b: &Tok) -> bool {
    let wordlike = |t: &Tok| matches!(t.kind, TokKind::Word);
    if wordlike(a) && wordlike(b) {
        return true;
    }
    let ae = a.text.chars().last().unwrap();
    let bs = b.text.chars().next().unwrap();
    // a word followed by an escaped identifier is fine ("a\b"), an escaped identifier is a Word token starting with '\'
    if wordlike(a) && bs == '\\' {
        return false;
    }
    (ae == ':' && bs == ':') || (ae == '[' && bs == '[') || (ae == ']' && bs == ']') || (ae == '-' && bs == '>') || (ae == '/' && (bs == '/' || bs == '*'))
}

pub fn render_file(f: &MFile, layout: &Layout) -> Rendered {
    render_file_ctx(f, layout, None)
}

pub fn render_file_ctx<'a>(f: &MFile, layout: &Layout, resolver: Option<&'a Resolver<'a>>) -> Rendered {
    let mut p = P { toks: vec![], commas: layout.commas, trailing_in_lists: layout.trailing_in_lists, ctx: resolver.map(|r| (r, f.module_name().to_string())), scope: if f.module_name().is_empty() { vec![] } else { f.module_name().split("::").map(|s| s.to_string()).collect() } };
    let mut root = Node::new("file");
    for a in &f.file_attrs {
        let mut n = p.attr(a, "[[", "]]");
        n.kind = "fileattr";
        root.children.push(n);
    }
    let emit_pre = |p: &mut P<'a>, at: usize| {
        for d in &f.pre {
            if d.before_def == at {
                p.toks.push(Tok { text: d.text.clone(), kind: TokKind::PreLine });
            }
        }
    };
    if let Some(m) = &f.module {
        let mut attrs = vec![];
        for a in &m.attrs {
            attrs.push(p.attr(a, "[", "]"));
        }
        let first = p.w("module");
        let (nfirst, nlast) = p.scoped(&m.name);
        let mut n = Node::new("module");
        n.prop("id", &m.name);
        n.children.extend(attrs);
        let mut idn = Node::new("identifier");
        idn.prop("value", &m.name);
        idn.pos = Some(Pos { first: nfirst, last: nlast, name: None, rule: PosRule::Exact });
        n.children.push(idn);
        n.pos = Some(Pos { first, last: nlast, name: Some(nfirst), rule: PosRule::Decl });
        root.children.push(n);
    }
    for (i, d) in f.defs.iter().enumerate() {
        emit_pre(&mut p, i);
        let n = p.def(d);
        root.children.push(n);
    }
    emit_pre(&mut p, usize::MAX);
    // ---- layout
    let mut text = String::from(layout.lead);
    let mut gap_idx = 0usize;
    let toks = p.toks;
    let mut starts: Vec<usize> = vec![];
    let mut ends: Vec<usize> = vec![];
    for (i, t) in toks.iter().enumerate() {
        if i > 0 {
            let prev = &toks[i - 1];
            let sep = match &layout.per_gap {
                Some(v) if gap_idx < v.len() => ALL_SEPS[v[gap_idx] as usize],
                _ => layout.sep,
            };
            gap_idx += 1;
            let mut s = String::new();
            let must_break = prev.kind == TokKind::DocLine || prev.kind == TokKind::PreLine || t.kind == TokKind::PreLine;
            if must_break && !sep.text().starts_with('\n') && !sep.text().starts_with("\r\n") {
                s.push('\n');
            }
            s.push_str(sep.text());
            if t.kind == TokKind::PreLine && !s.ends_with('\n') {
                s.push('\n');
            }
            if s.is_empty() && needs_space(prev, t) {
                s.push(' ');
            }
            text.push_str(&s);
        } else if t.kind == TokKind::PreLine && !text.is_empty() && !text.ends_with('\n') {
            text.push('\n');
        }
        starts.push(text.len());
        text.push_str(&t.text);
        ends.push(text.len());
    }
    if let Some(last) = toks.last() {
        if (last.kind == TokKind::DocLine || last.kind == TokKind::PreLine) && !layout.trail.starts_with('\n') {
            text.push('\n');
        }
    }
    text.push_str(layout.trail);
    // ---- positions (rows advance at '\n' only; columns count characters)
    let mut tok_pos = vec![];
    let mut loc_at: Vec<(usize, Loc)> = vec![]; // byte offset -> loc, for offsets we need
    let mut wanted: Vec<usize> = starts.iter().chain(ends.iter()).cloned().collect();
    wanted.sort();
    wanted.dedup();
    let mut wi = 0;
    let (mut row, mut col) = (1usize, 1usize);
    for (off, ch) in text.char_indices() {
        while wi < wanted.len() && wanted[wi] == off {
            loc_at.push((off, Loc { row, col }));
            wi += 1;
        }
        if ch == '\n' {
            row += 1;
            col = 1;
        } else {
            col += 1;
        }
    }
    while wi < wanted.len() {
        loc_at.push((wanted[wi], Loc { row, col }));
        wi += 1;
    }
    let find = |off: usize| loc_at[loc_at.binary_search_by_key(&off, |x| x.0).unwrap()].1;
    for i in 0..toks.len() {
        tok_pos.push((find(starts[i]), find(ends[i])));
    }
    Rendered { text, toks, tok_pos, tree: root }
}

/// Number of gaps (for per-gap layout enumeration).
pub fn gap_count(f: &MFile, commas: Commas) -> usize {
    let r = render_file(f, &Layout::uniform(Sep::Space, commas));
    r.toks.len().saturating_sub(1)
}
