//! Slice model (filled in later).
