//! The shared reference model of the Slice language ("slice model").

pub mod ast;
pub mod doc;
pub mod families;
pub mod gen;
pub mod observe;
pub mod print;
pub mod resolve;
pub mod rules;
pub mod run;
pub mod tree;
