//! Compiling model programs with the real compiler and collecting what the oracles need.

use super::ast::*;
use super::observe;
use super::print::*;
use super::resolve::*;
use super::tree::*;
use crate::util::guarded;
use slicec::ast::Ast;
use slicec::compilation_state::CompilationState;
use slicec::diagnostics::{Diagnostic, DiagnosticLevel};
use slicec::slice_file::SliceFile;
use slicec::slice_options::SliceOptions;

#[derive(Clone, Debug)]
pub struct PCase {
    pub program: Program,
    pub layout: Layout,
    pub label: String,
    /// the program legitimately produces warnings (deprecated uses, comment lints)
    pub may_warn: bool,
}

pub trait ProgFamily: Sync + Send {
    fn name(&self) -> String;
    fn len(&self) -> u64;
    fn get(&self, idx: u64) -> PCase;
    /// rule that makes a case non-trivial (evaluated by the wrapper)
    fn nontrivial(&self, c: &PCase) -> bool {
        c.program.iter().any(|f| !f.defs.is_empty())
    }
}

#[derive(Clone, Debug, PartialEq, Eq)]
pub struct DiagObs {
    pub code: String,
    pub level: String,
    pub message: String,
    pub file: Option<String>,
    pub span: Option<Sp>,
    pub notes: Vec<(String, Option<(String, Sp)>)>,
    pub scope: Option<String>,
}

pub fn diag_obs(d: &Diagnostic) -> DiagObs {
    DiagObs {
        code: d.code().to_string(),
        level: match d.level() {
            DiagnosticLevel::Error => "error",
            DiagnosticLevel::Warning => "warning",
            DiagnosticLevel::Allowed => "allowed",
        }
        .to_string(),
        message: d.message(),
        file: d.span().map(|s| s.file.clone()),
        span: d.span().map(observe::sp),
        notes: d.notes().iter().map(|n| (n.message.clone(), n.span.as_ref().map(|s| (s.file.clone(), observe::sp(s))))).collect(),
        scope: d.scope().cloned(),
    }
}

pub struct Compiled {
    pub rendered: Vec<Rendered>,
    pub ast: Ast,
    pub files: Vec<SliceFile>,
    pub diags: Vec<DiagObs>,
    pub raw_diags: Vec<Diagnostic>,
}

impl Compiled {
    pub fn errors(&self) -> Vec<&DiagObs> {
        self.diags.iter().filter(|d| d.level == "error").collect()
    }
    pub fn warnings(&self) -> Vec<&DiagObs> {
        self.diags.iter().filter(|d| d.level == "warning").collect()
    }
    pub fn codes(&self) -> Vec<String> {
        self.diags.iter().map(|d| d.code.clone()).collect()
    }
}

pub fn render_program(program: &Program, layout: &Layout) -> Vec<Rendered> {
    let table = Table::build(program);
    let resolver = Resolver { program, table: &table };
    program.iter().map(|f| render_file_ctx(f, layout, Some(&resolver))).collect()
}

/// Render and compile; Err = the compiler panicked (location, message).
pub fn compile_case(case: &PCase, options: Option<&SliceOptions>) -> Result<Compiled, (String, String)> {
    let rendered = render_program(&case.program, &case.layout);
    compile_rendered(rendered, options)
}

pub fn compile_rendered(rendered: Vec<Rendered>, options: Option<&SliceOptions>) -> Result<Compiled, (String, String)> {
    let texts: Vec<&str> = rendered.iter().map(|r| r.text.as_str()).collect();
    let default_opts = SliceOptions::default();
    let opts = options.unwrap_or(&default_opts);
    let r = guarded(|| {
        let state = slicec::compile_from_strings(&texts, Some(opts));
        let CompilationState { ast, diagnostics, files } = state;
        let diags = diagnostics.into_updated(&ast, &files, opts);
        (ast, files, diags)
    });
    let (ast, files, raw) = r?;
    let diags = raw.iter().map(diag_obs).collect();
    Ok(Compiled { rendered, ast, files, diags, raw_diags: raw })
}

pub fn compile_texts(texts: &[&str], options: Option<&SliceOptions>) -> Result<(Ast, Vec<SliceFile>, Vec<DiagObs>), (String, String)> {
    let default_opts = SliceOptions::default();
    let opts = options.unwrap_or(&default_opts);
    let r = guarded(|| {
        let state = slicec::compile_from_strings(texts, Some(opts));
        let CompilationState { ast, diagnostics, files } = state;
        let diags = diagnostics.into_updated(&ast, &files, opts);
        (ast, files, diags)
    });
    let (ast, files, raw) = r?;
    let d = raw.iter().map(diag_obs).collect();
    Ok((ast, files, d))
}

pub fn describe_case(c: &PCase) -> serde_json::Value {
    let rendered = render_program(&c.program, &c.layout);
    serde_json::json!({
        "label": c.label,
        "layout": c.layout.describe(),
        "files": rendered.iter().map(|r| r.text.clone()).collect::<Vec<_>>(),
    })
}

pub fn case_hash(rendered: &[Rendered]) -> u64 {
    let mut v = Vec::new();
    for r in rendered {
        v.extend_from_slice(r.text.as_bytes());
        v.push(0);
    }
    crate::util::fnv64(&v)
}
