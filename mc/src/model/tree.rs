//! Generic normalised tree used both for the expected result (built by the printer from the model) and for the
//! observed result (built by the observer from the real CompilationState); compared field by field.

#[derive(Clone, Debug, PartialEq)]
pub enum PosRule {
    /// span == [start of first token, end of last token]
    Exact,
    /// identifier: exactly its spelling, with or without the escaping backslash
    Identifier { escaped: bool },
    /// type reference: ends at the end of the last token; starts at the first token (local attributes
    /// included) or at the first token after the local attributes
    TypeRef { after_attrs: usize },
    /// declaration: starts at the first token of the declaration proper, contains the name token, ends at the
    /// end of some token of the element and never beyond its last token
    Decl,
    /// lies within [first token start, last token end]
    Within,
}

#[derive(Clone, Debug, PartialEq)]
pub struct Pos {
    pub first: usize,
    pub last: usize,
    pub name: Option<usize>,
    pub rule: PosRule,
}

#[derive(Clone, Copy, Debug, PartialEq, Eq, Default)]
pub struct Sp {
    pub sr: usize,
    pub sc: usize,
    pub er: usize,
    pub ec: usize,
}

#[derive(Clone, Debug, PartialEq)]
pub struct Node {
    pub kind: &'static str,
    pub props: Vec<(&'static str, String)>,
    pub children: Vec<Node>,
    /// expected side: token positions
    pub pos: Option<Pos>,
    /// observed side: the span slicec attached
    pub span: Option<Sp>,
    /// expected side, doc nodes: raw lines as written
    pub raw_doc: Option<Vec<String>>,
}

impl Node {
    pub fn new(kind: &'static str) -> Self {
        Node { kind, props: vec![], children: vec![], pos: None, span: None, raw_doc: None }
    }
    pub fn prop(&mut self, k: &'static str, v: &str) {
        self.props.push((k, v.to_string()));
    }
    pub fn get(&self, k: &str) -> Option<&str> {
        self.props.iter().find(|(a, _)| *a == k).map(|(_, v)| v.as_str())
    }
    pub fn set(&mut self, k: &'static str, v: &str) {
        if let Some(p) = self.props.iter_mut().find(|(a, _)| *a == k) {
            p.1 = v.to_string();
        } else {
            self.props.push((k, v.to_string()));
        }
    }
    pub fn label(&self) -> String {
        match self.get("id").or(self.get("directive")).or(self.get("value")) {
            Some(id) => format!("{}({})", self.kind, id),
            None => self.kind.to_string(),
        }
    }
    pub fn count(&self) -> usize {
        1 + self.children.iter().map(|c| c.count()).sum::<usize>()
    }
    pub fn render(&self, indent: usize, out: &mut String) {
        out.push_str(&" ".repeat(indent));
        out.push_str(self.kind);
        for (k, v) in &self.props {
            out.push_str(&format!(" {k}={v:?}"));
        }
        out.push('\n');
        for c in &self.children {
            c.render(indent + 2, out);
        }
    }
}

#[derive(Debug, Clone)]
pub struct Diff {
    /// path of node kinds/labels to the first differing field, without instance-specific names
    pub path: String,
    /// same, with identifiers (for the message)
    pub path_named: String,
    pub what: String,
    pub expected: String,
    pub observed: String,
}

/// First difference between the expected and the observed tree (kinds, properties, child lists), or None.
pub fn diff(e: &Node, o: &Node) -> Option<Diff> {
    diff_at(e, o, "", "")
}

fn diff_at(e: &Node, o: &Node, path: &str, named: &str) -> Option<Diff> {
    let here = format!("{}/{}", path, e.kind);
    let here_named = format!("{}/{}", named, e.label());
    if e.kind != o.kind {
        return Some(Diff { path: here, path_named: here_named, what: "kind".into(), expected: e.kind.into(), observed: o.kind.into() });
    }
    // properties: same keys in same order is not required; compare as maps
    for (k, v) in &e.props {
        match o.get(k) {
            Some(ov) if ov == v => {}
            Some(ov) => return Some(Diff { path: format!("{here}.{k}"), path_named: format!("{here_named}.{k}"), what: k.to_string(), expected: v.clone(), observed: ov.to_string() }),
            None => return Some(Diff { path: format!("{here}.{k}"), path_named: format!("{here_named}.{k}"), what: k.to_string(), expected: v.clone(), observed: "<absent>".into() }),
        }
    }
    for (k, v) in &o.props {
        if e.get(k).is_none() {
            return Some(Diff { path: format!("{here}.{k}"), path_named: format!("{here_named}.{k}"), what: k.to_string(), expected: "<absent>".into(), observed: v.clone() });
        }
    }
    let n = e.children.len().min(o.children.len());
    for i in 0..n {
        if let Some(d) = diff_at(&e.children[i], &o.children[i], &here, &here_named) {
            return Some(d);
        }
    }
    if e.children.len() != o.children.len() {
        let exp: Vec<String> = e.children.iter().map(|c| c.label()).collect();
        let obs: Vec<String> = o.children.iter().map(|c| c.label()).collect();
        let kind_of_extra = if e.children.len() > n { e.children[n].kind } else { o.children[n].kind };
        return Some(Diff {
            path: format!("{here}/#children[{kind_of_extra}]"),
            path_named: format!("{here_named}/#children"),
            what: "children".into(),
            expected: format!("{exp:?}"),
            observed: format!("{obs:?}"),
        });
    }
    None
}
