//! Counting global allocator: when armed (per thread) it sums the bytes successfully allocated, so that the
//! memory cost of one decode is measured deterministically (no RSS sampling).

use std::alloc::{GlobalAlloc, Layout, System};
use std::cell::Cell;

pub struct CountingAlloc;

thread_local! {
    static ARMED: Cell<bool> = const { Cell::new(false) };
    static BYTES: Cell<u64> = const { Cell::new(0) };
    static LARGEST: Cell<u64> = const { Cell::new(0) };
}

#[inline]
fn note(n: usize) {
    let _ = ARMED.try_with(|a| {
        if a.get() {
            let _ = BYTES.try_with(|b| b.set(b.get() + n as u64));
            let _ = LARGEST.try_with(|b| b.set(b.get().max(n as u64)));
        }
    });
}

unsafe impl GlobalAlloc for CountingAlloc {
    unsafe fn alloc(&self, l: Layout) -> *mut u8 {
        let p = System.alloc(l);
        if !p.is_null() {
            note(l.size());
        }
        p
    }
    unsafe fn alloc_zeroed(&self, l: Layout) -> *mut u8 {
        let p = System.alloc_zeroed(l);
        if !p.is_null() {
            note(l.size());
        }
        p
    }
    unsafe fn dealloc(&self, p: *mut u8, l: Layout) {
        System.dealloc(p, l)
    }
    unsafe fn realloc(&self, p: *mut u8, l: Layout, new: usize) -> *mut u8 {
        let q = System.realloc(p, l, new);
        if !q.is_null() && new > l.size() {
            note(new - l.size());
        }
        q
    }
}

/// Runs `f` and returns (result, bytes allocated by this thread during f, largest single allocation).
pub fn measure<T>(f: impl FnOnce() -> T) -> (T, u64, u64) {
    BYTES.with(|b| b.set(0));
    LARGEST.with(|b| b.set(0));
    ARMED.with(|a| a.set(true));
    let r = f();
    ARMED.with(|a| a.set(false));
    (r, BYTES.with(|b| b.get()), LARGEST.with(|b| b.get()))
}

pub fn disarm() {
    ARMED.with(|a| a.set(false));
}
