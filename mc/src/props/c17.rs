//! C17 — each input file is compiled exactly once: sources first, in the order given.
//!
//! E1 enumeration over REAL directory trees.  A worker process materialises a universe tree (one per subset of
//! six optional entries, cached per process) in a private scratch directory, makes it the current directory and
//! calls the real `slicec::compile_from_options` with EVERY argument list (sources × references) over the
//! tree's path spellings.  The oracle is a reference resolver over the *model* of the tree (the harness knows
//! the tree it built; file identity = canonical path computed on the model, never by `canonicalize`).
//!
//! The universe tree (depth 4):
//! ```text
//!   a.slice  b.slice  notes.txt
//!   sub/c.slice
//!   pkg/d.slice  pkg/readme.md  pkg/x.slice.bak  pkg/deep/slice  pkg/deep/er/e.slice
//!   [0 empty-dir]      pkg/empty/
//!   [1 file-link]      sub/la.slice -> ../a.slice          (links keep the `.slice` extension of their target)
//!   [2 dir-link]       dl -> sub
//!   [3 cycle]          sub/loop -> .
//!   [4 dangling-link]  pkg/gone.slice -> nowhere.slice
//!   [5 invalid-utf8]   pkg/deep/bad.slice                  (the "unreadable" entry: the harness runs as root,
//!                                                           permission bits cannot make a file unreadable)
//!   [6 special-files]  pkg/pipe.slice (a FIFO)  sub/null.slice -> /dev/null   (only in the two trees of the
//!                      `special` family: exist, named *.slice, neither a regular file nor a directory; listed
//!                      directly they cannot be "compiled once", so an E001 is demanded and nothing is parsed -
//!                      slicec used to drop them without a word; below a reference directory: softening (iii));
//!                      odd/n<0xFF>.slice (a readable Slice file whose NAME is not valid UTF-8), odd/n<U+FFFD>.slice
//!                      (the name a lossy conversion makes of it) and odd/plain.slice: reaching the first is an
//!                      E001 and nothing is parsed - slicec used to compile the twin in its place, with a
//!                      DuplicateFile warning about a duplicate that does not exist and exit status 0
//! ```
//! `sub` is kept small on purpose: below the cycle the real walk visits it 41 times per way in, with paths of
//! up to 40 links, which costs ~1 ms per expansion (measured) — everything else costs ~45 µs per scenario.
//! Every `.slice` file is a tiny valid program with a module and a struct whose names are unique to the file,
//! so any set of distinct files compiles together without a diagnostic — and a file compiled twice would not.
//!
//! What the oracle demands (each clause is a clause of the statement):
//!  * no error entry ⇒ `state.files` (mapped back to identities through the model) is exactly: the source
//!    identities in the given order (first occurrence), flagged `is_source`; then the reference identities not
//!    already present, flagged `!is_source`, in the order of the reference arguments with the expansion of one
//!    directory as an UNORDERED group (read_dir order is unspecified); every identity once; every file parsed;
//!    no E001;
//!  * one DuplicateFile diagnostic at level Warning per repeat inside one list (a repeat = a further way of
//!    reaching an identity already reached in that list: listed again, spelled differently, through a link,
//!    listed and also below a listed directory, below two listed directories, or twice below one directory via
//!    links), none for a file that is in both lists.  The statement says "a file reachable more than once ...
//!    repeats within one list are reported", and the files below a reference directory are members of the
//!    reference list by the first sentence, so repeats that arise through directory expansion count like any
//!    other (derived from the statement, not from the code);
//!  * a nonexistent path, an existing file without the `.slice` extension, a directory given as a source, or a
//!    reached file that cannot be read (invalid UTF-8) ⇒ at least one E001 at level Error and nothing parsed
//!    (every returned file has no module and no contents).
//!
//! Softenings (the statement leaves these open, so they are not flagged):
//!  (i)   symlink cycle: how often a file is "reachable" below `sub/loop -> .` is whatever the OS's ELOOP depth
//!        makes it (measured: 40).  When the expansion of a reference directory runs into the cycle, the
//!        DuplicateFile count is only bounded from below (the repeats that exist without going round the
//!        cycle) and an E001 is tolerated (then nothing may be parsed); termination, compiled-once, the
//!        compiled set, source priority and order are still checked.  Scenarios in a cyclic tree that do not
//!        expand a directory into the cycle (e.g. the spelling `sub/loop/c.slice`) are checked exactly.
//!  (ii)  links keep the `.slice` extension of their target, so "has the extension" does not depend on whether
//!        the supplied or the canonical spelling is meant.
//!  (iii) a dangling link named `*.slice` met while expanding a reference directory is "not a file" (ignored)
//!        under one reading and a "nonexistent path" (E001) under another: both accepted (with E001: nothing
//!        parsed).  Listed directly it is a nonexistent path ⇒ E001.
//!  (iv)  repeats of *error entries* (the same missing path, non-slice file or source directory listed twice)
//!        may or may not be reported as DuplicateFile: the count may exceed the expected one by at most the
//!        number of such repeats.
//!  (v)   on an error scenario only "E001 present, nothing parsed, DuplicateFile count" are checked — the
//!        statement says nothing about which files are returned.
//!
//! Limit, stated: a cycle that points at an ancestor which also holds a second way into the cycle's directory
//! (`sub/loop -> ..` plus `dl -> sub`) makes the number of distinct ELOOP-bounded paths grow like
//! Fibonacci(40): the real walk then does not finish (measured on the pinned tree: `slicec a.slice -R .` was
//! still running after 30 s; with the cycle alone it takes 15 ms).  The statement of C17 says nothing about
//! termination, so the universe uses `sub/loop -> .`, below which the walk stays linear (41 visits of `sub`
//! per way in); the observation is reported to the maintainers of C01 instead.

use super::PropMeta;
use crate::engine::*;
use crate::util::*;
use serde_json::{json, Value};
use slicec::diagnostics::DiagnosticLevel;
use slicec::slice_options::SliceOptions;
use std::collections::{BTreeMap, BTreeSet, HashMap, VecDeque};
use std::path::PathBuf;
use std::sync::{Arc, Mutex, OnceLock};
use std::time::Instant;

const FAM: &str = "c17/resolve";
const OPT_NAMES: [&str; 7] = ["empty-dir", "file-link", "dir-link", "cycle", "dangling-link", "invalid-utf8", "special-files"];
const SPECIAL_BIT: u32 = 1 << 6;
const CYCLE_BIT: u32 = 1 << 3;
/// A single compilation of a handful of 30-byte files normally takes < 5 ms (40-level walks included).
const SLOW_SECS: f64 = 20.0;

// ------------------------------------------------------------------------------------------------------------
// The model of a tree.

#[derive(Clone, Copy, PartialEq, Eq, Debug)]
enum Kind {
    Slice,
    Other,
    BadUtf8,
    /// exists, named `*.slice`, but is neither a regular file nor a directory: a FIFO
    Fifo,
    /// ... or a link to the device /dev/null
    Device,
    /// a regular, readable Slice file whose NAME is not valid UTF-8 (in the model the invalid byte is written as the
    /// marker U+0001; on disk it is the byte 0xFF)
    BadName,
}
/// stands for the byte 0xFF in a model name
const BAD_BYTE_MARKER: char = '\u{1}';

#[derive(Clone, Debug)]
enum Node {
    Dir(BTreeMap<String, Node>),
    File(Kind),
    Link(String),
}

fn insert(root: &mut Node, path: &str, node: Node) {
    let comps: Vec<&str> = path.split('/').collect();
    let mut cur = root;
    for (i, c) in comps.iter().enumerate() {
        let Node::Dir(children) = cur else { panic!("model: {path} passes through a non-directory") };
        if i + 1 == comps.len() {
            children.insert(c.to_string(), node);
            return;
        }
        cur = children.entry(c.to_string()).or_insert_with(|| Node::Dir(BTreeMap::new()));
    }
}

fn model_tree(bits: u32) -> Node {
    let mut root = Node::Dir(BTreeMap::new());
    // (pkg/v2.slice is a DIRECTORY whose name ends in ".slice")
    for p in ["a.slice", "b.slice", "sub/c.slice", "pkg/d.slice", "pkg/deep/er/e.slice", "pkg/v2.slice/f.slice"] {
        insert(&mut root, p, Node::File(Kind::Slice));
    }
    // (the extension is exactly ".slice": other letter cases are other extensions)
    for p in ["notes.txt", "pkg/readme.md", "pkg/x.slice.bak", "pkg/deep/slice", "pkg/UP.SLICE", "sub/mixed.Slice"] {
        insert(&mut root, p, Node::File(Kind::Other));
    }
    if bits & 1 != 0 {
        insert(&mut root, "pkg/empty", Node::Dir(BTreeMap::new()));
    }
    if bits & 2 != 0 {
        insert(&mut root, "sub/la.slice", Node::Link("../a.slice".into()));
    }
    if bits & 4 != 0 {
        insert(&mut root, "dl", Node::Link("sub".into()));
    }
    if bits & 8 != 0 {
        insert(&mut root, "sub/loop", Node::Link(".".into()));
    }
    if bits & 16 != 0 {
        insert(&mut root, "pkg/gone.slice", Node::Link("nowhere.slice".into()));
    }
    if bits & 32 != 0 {
        insert(&mut root, "pkg/deep/bad.slice", Node::File(Kind::BadUtf8));
    }
    if bits & SPECIAL_BIT != 0 {
        insert(&mut root, "pkg/pipe.slice", Node::File(Kind::Fifo));
        insert(&mut root, "sub/null.slice", Node::File(Kind::Device));
        // a file whose name is not valid UTF-8 next to the file whose name is what a lossy conversion makes of it
        insert(&mut root, &format!("odd/n{BAD_BYTE_MARKER}.slice"), Node::File(Kind::BadName));
        insert(&mut root, "odd/n\u{fffd}.slice", Node::File(Kind::Slice));
        insert(&mut root, "odd/plain.slice", Node::File(Kind::Slice));
        // two different files whose paths differ only in the case of ASCII letters
        insert(&mut root, "odd/Plain.slice", Node::File(Kind::Slice));
        insert(&mut root, "ODD/plain.slice", Node::File(Kind::Slice));
    }
    root
}

/// Path spellings offered as arguments in a tree (`<root>` = absolute path of the tree).
fn spellings(bits: u32) -> Vec<String> {
    let mut v: Vec<&str> = vec![
        "a.slice",         // plain
        "./a.slice",       // through '.'
        "sub/../a.slice",  // through '..'
        "<root>/a.slice",  // absolute
        "b.slice",         // a second top-level file
        "sub/c.slice",     // nested file
        "sub",             // directory (reference: expanded recursively; source: error)
        "./sub/",          // the same directory spelled differently
        ".",               // the whole tree
        "missing.slice",   // nonexistent
        "notes.txt",       // existing, not a Slice file
        "pkg/UP.SLICE",    // existing, the extension in another letter case: not a Slice file
        "a.slice/x.slice", // nonexistent in a special way: a regular file is used as a directory (ENOTDIR)
        "<root>/sub/../a.slice", // absolute AND not canonical
        "pkg/v2.slice",    // a directory named like a Slice file (reference: expanded; source: error)
    ];
    if bits & 1 != 0 {
        v.push("pkg/empty");
    }
    if bits & 2 != 0 {
        v.push("sub/la.slice"); // a.slice through a file link
    }
    if bits & 4 != 0 {
        v.push("dl/c.slice"); // sub/c.slice through a directory link
        v.push("dl"); // sub through a directory link
    }
    if bits & 8 != 0 {
        v.push("sub/loop/c.slice"); // sub/c.slice once round the cycle
    }
    if bits & 16 != 0 {
        v.push("pkg/gone.slice"); // dangling link listed directly
    }
    if bits & 32 != 0 {
        v.push("pkg/deep/bad.slice"); // unreadable (invalid UTF-8) listed directly
    }
    if bits & SPECIAL_BIT != 0 {
        v.push("pkg/pipe.slice"); // a FIFO listed directly
        v.push("sub/null.slice"); // a link to /dev/null listed directly
        v.push("pkg"); // a directory with the FIFO below it
        v.push("odd"); // a directory with a file whose name is not valid UTF-8, and its lossy twin
        v.push("odd/n\u{fffd}.slice"); // the twin listed directly
        v.push("odd/plain.slice"); // three different files whose paths differ only in letter case
        v.push("odd/Plain.slice");
        v.push("ODD/plain.slice");
    }
    v.into_iter().map(String::from).collect()
}

fn opt_names(bits: u32) -> Vec<&'static str> {
    (0..7).filter(|i| bits & (1 << i) != 0).map(|i| OPT_NAMES[i]).collect()
}

fn has_slice_ext(name: &str) -> bool {
    // "*.slice": a non-empty stem followed by ".slice" (no entry of the universe is named ".slice")
    name.len() > 6 && name.ends_with(".slice")
}

type Id = String; // canonical path relative to the tree root, components joined by '/'; "" = the root

#[derive(Debug)]
enum Res {
    File(Id, Kind),
    Dir(Vec<String>),
    Missing,
}

fn node_at<'a>(root: &'a Node, canon: &[String]) -> &'a Node {
    let mut cur = root;
    for c in canon {
        match cur {
            Node::Dir(ch) => cur = &ch[c],
            _ => panic!("model: canonical path passes through a non-directory"),
        }
    }
    cur
}

/// POSIX path resolution on the model: components left to right, links replaced by their target relative to
/// the directory that contains them, '..' taken on the resolved directory, at most 40 links.
fn resolve_from(root: &Node, start: Vec<String>, path: &str) -> Res {
    let mut cur = start;
    let mut queue: VecDeque<String> = path.split('/').map(String::from).collect();
    let mut links = 0;
    while let Some(c) = queue.pop_front() {
        if c.is_empty() || c == "." {
            continue;
        }
        if c == ".." {
            if cur.pop().is_none() {
                return Res::Missing; // would leave the universe: not generated
            }
            continue;
        }
        let Node::Dir(children) = node_at(root, &cur) else { unreachable!() };
        match children.get(&c) {
            None => return Res::Missing,
            Some(Node::Dir(_)) => cur.push(c),
            Some(Node::File(k)) => {
                if queue.iter().any(|r| !r.is_empty() && r != ".") {
                    return Res::Missing; // ENOTDIR
                }
                cur.push(c);
                return Res::File(cur.join("/"), *k);
            }
            Some(Node::Link(target)) => {
                links += 1;
                if links > 40 {
                    return Res::Missing; // ELOOP
                }
                for t in target.split('/').rev() {
                    queue.push_front(t.to_string());
                }
            }
        }
    }
    Res::Dir(cur)
}

fn resolve(root: &Node, root_abs: &str, path: &str) -> Res {
    if let Some(rest) = path.strip_prefix(root_abs) {
        if rest.is_empty() || rest.starts_with('/') {
            return resolve_from(root, vec![], rest);
        }
    }
    if path.starts_with('/') {
        return Res::Missing; // outside the universe: not generated
    }
    resolve_from(root, vec![], path)
}

#[derive(Default, Debug, Clone)]
struct Expansion {
    /// one entry per way of reaching a `*.slice` file without going round a cycle
    events: Vec<(Id, Kind)>,
    /// the walk met a link back to a directory it is inside of
    into_cycle: bool,
    /// the walk met a dangling link named `*.slice` (or a FIFO / device named `*.slice`)
    dangling: bool,
}

fn expand(root: &Node, dir: &[String], stack: &mut Vec<Vec<String>>, out: &mut Expansion) {
    stack.push(dir.to_vec());
    let Node::Dir(children) = node_at(root, dir) else { unreachable!() };
    for (name, node) in children {
        let r = match node {
            Node::Dir(_) => {
                let mut d = dir.to_vec();
                d.push(name.clone());
                Res::Dir(d)
            }
            Node::File(k) => {
                let mut d = dir.to_vec();
                d.push(name.clone());
                Res::File(d.join("/"), *k)
            }
            Node::Link(_) => resolve_from(root, dir.to_vec(), name),
        };
        match r {
            Res::Dir(c) => {
                if stack.contains(&c) {
                    out.into_cycle = true;
                } else {
                    expand(root, &c, stack, out);
                }
            }
            Res::File(_, Kind::Fifo | Kind::Device) => {
                // softening (iii) also covers an entry named `*.slice` that is neither a file nor a directory
                if has_slice_ext(name) {
                    out.dangling = true;
                }
            }
            Res::File(id, k) => {
                if has_slice_ext(name) {
                    out.events.push((id, k));
                }
            }
            Res::Missing => {
                if has_slice_ext(name) {
                    out.dangling = true;
                }
            }
        }
    }
    stack.pop();
}

/// What one argument denotes, by the model.
#[derive(Debug, Clone)]
enum Arg {
    Missing,
    NonSlice(Id),
    /// exists, has the extension, is neither a regular file nor a directory
    Special(Id),
    File(Id, Kind),
    Dir(Id, Expansion),
}

fn classify(root: &Node, root_abs: &str, spelling: &str) -> Arg {
    match resolve(root, root_abs, spelling) {
        Res::Missing => Arg::Missing,
        Res::File(id, k) => {
            let last = spelling.trim_end_matches('/').rsplit('/').next().unwrap_or("");
            if has_slice_ext(last) && matches!(k, Kind::Fifo | Kind::Device) {
                Arg::Special(id)
            } else if has_slice_ext(last) {
                Arg::File(id, k)
            } else {
                Arg::NonSlice(id)
            }
        }
        Res::Dir(c) => {
            let mut e = Expansion::default();
            expand(root, &c, &mut vec![], &mut e);
            Arg::Dir(c.join("/"), e)
        }
    }
}

// ------------------------------------------------------------------------------------------------------------
// Real trees: one scratch directory per process, one sub-directory per tree, removed at process exit.

struct Built {
    bits: u32,
    root_abs: String,
    model: Node,
    spellings: Vec<String>, // with <root> substituted
    shown: Vec<String>,     // with <root> kept, for messages
    args: Vec<Arg>,
}

fn scratch_base() -> PathBuf {
    std::env::temp_dir().join(format!("mc-c17-{}", std::process::id()))
}

extern "C" fn remove_scratch() {
    let _ = std::env::set_current_dir("/");
    let _ = std::fs::remove_dir_all(scratch_base());
}

fn sweep_stale() {
    // scratch directories of processes that were killed (hang watchdog) before their exit handler ran;
    // liveness is read from /proc, so without /proc nothing is swept
    if !PathBuf::from("/proc/self").exists() {
        return;
    }
    if let Ok(rd) = std::fs::read_dir(std::env::temp_dir()) {
        for e in rd.flatten() {
            let name = e.file_name().to_string_lossy().to_string();
            if let Some(pid) = name.strip_prefix("mc-c17-").and_then(|p| p.parse::<u32>().ok()) {
                if pid != std::process::id() && !PathBuf::from(format!("/proc/{pid}")).exists() {
                    let _ = std::fs::remove_dir_all(e.path());
                }
            }
        }
    }
}

fn file_text(id: &str) -> String {
    let tag: String = id.chars().filter(|c| c.is_ascii_alphanumeric()).collect();
    format!("module M{tag}\nstruct S{tag} {{ i: int32 }}\n")
}

fn materialise(dir: &PathBuf, canon: &mut Vec<String>, node: &Node) {
    let Node::Dir(children) = node else { unreachable!() };
    std::fs::create_dir_all(dir).expect("c17: create directory");
    for (name, child) in children {
        let p = dir.join(name);
        canon.push(name.clone());
        match child {
            Node::Dir(_) => materialise(&p, canon, child),
            Node::File(Kind::Slice) => std::fs::write(&p, file_text(&canon.join("/"))).expect("c17: write file"),
            Node::File(Kind::Other) => std::fs::write(&p, "module NotSlice\n").expect("c17: write file"),
            Node::File(Kind::BadUtf8) => std::fs::write(&p, b"module Bad\n\xff\xfe\n").expect("c17: write file"),
            Node::File(Kind::Fifo) => {
                let c = std::ffi::CString::new(p.to_str().expect("c17: UTF-8 path")).unwrap();
                assert_eq!(unsafe { libc::mkfifo(c.as_ptr(), 0o644) }, 0, "c17: mkfifo");
            }
            Node::File(Kind::Device) => std::os::unix::fs::symlink("/dev/null", &p).expect("c17: create symlink"),
            Node::File(Kind::BadName) => {
                use std::os::unix::ffi::OsStringExt;
                let mut bytes = dir.as_os_str().to_owned().into_vec();
                bytes.push(b'/');
                for ch in name.chars() {
                    if ch == BAD_BYTE_MARKER {
                        bytes.push(0xFF);
                    } else {
                        bytes.extend(ch.to_string().as_bytes());
                    }
                }
                std::fs::write(std::ffi::OsString::from_vec(bytes), file_text("oddbadname")).expect("c17: write file");
            }
            Node::Link(t) => std::os::unix::fs::symlink(t, &p).expect("c17: create symlink"),
        }
        canon.pop();
    }
}

fn built(bits: u32) -> Arc<Built> {
    static CACHE: OnceLock<Mutex<HashMap<u32, Arc<Built>>>> = OnceLock::new();
    let cache = CACHE.get_or_init(|| {
        sweep_stale();
        unsafe {
            libc::atexit(remove_scratch);
        }
        Mutex::new(HashMap::new())
    });
    let mut g = cache.lock().unwrap();
    if let Some(b) = g.get(&bits) {
        return b.clone();
    }
    let model = model_tree(bits);
    let dir = scratch_base().join(format!("t{bits:02}"));
    let _ = std::fs::remove_dir_all(&dir);
    materialise(&dir, &mut vec![], &model);
    let root_abs = dir.to_str().expect("c17: temp dir is UTF-8").trim_end_matches('/').to_string();
    let shown = spellings(bits);
    let sp: Vec<String> = shown.iter().map(|s| s.replace("<root>", &root_abs)).collect();
    let args = sp.iter().map(|s| classify(&model, &root_abs, s)).collect();
    let b = Arc::new(Built { bits, root_abs, model, spellings: sp, shown, args });
    g.insert(bits, b.clone());
    b
}

// ------------------------------------------------------------------------------------------------------------
// The reference resolver: what the statement says for (sources, references).

#[derive(Debug, Default)]
struct Expect {
    src_ids: Vec<Id>,
    /// per reference argument: identities first reached by it (not a source, not in an earlier group)
    ref_groups: Vec<BTreeSet<Id>>,
    dups_lo: usize,
    dups_hi: usize, // usize::MAX = unbounded (cycle)
    io_required: bool,
    io_tolerated: bool,
    why_io: Vec<String>,
    into_cycle: bool,
    nontrivial: bool,
}

fn expect(b: &Built, sources: &[usize], references: &[usize]) -> Expect {
    let mut e = Expect::default();
    let mut error_repeats = 0usize;
    let mut reached_bad = false;
    let mut all_events = 0usize;

    // sources
    let mut errs: BTreeSet<String> = BTreeSet::new();
    let mut nerr = 0usize;
    let mut events = 0usize;
    for &s in sources {
        match &b.args[s] {
            Arg::Missing => {
                nerr += 1;
                errs.insert(format!("?{}", b.shown[s]));
                e.why_io.push(format!("source {:?} does not exist", b.shown[s]));
            }
            Arg::NonSlice(id) => {
                nerr += 1;
                errs.insert(id.clone());
                e.why_io.push(format!("source {:?} has no .slice extension", b.shown[s]));
            }
            Arg::Special(id) => {
                nerr += 1;
                errs.insert(id.clone());
                e.why_io.push(format!("source {:?} is neither a regular file nor a directory", b.shown[s]));
            }
            Arg::Dir(id, _) => {
                nerr += 1;
                errs.insert(format!("{id}/"));
                e.why_io.push(format!("source {:?} is a directory", b.shown[s]));
            }
            Arg::File(id, k) => {
                events += 1;
                if !e.src_ids.contains(id) {
                    e.src_ids.push(id.clone());
                }
                if matches!(*k, Kind::BadUtf8 | Kind::BadName) {
                    reached_bad = true;
                }
            }
        }
    }
    e.dups_lo += events - e.src_ids.len();
    error_repeats += nerr - errs.len();
    e.io_required |= nerr > 0;
    all_events += events;

    // references
    let mut errs: BTreeSet<String> = BTreeSet::new();
    let mut nerr = 0usize;
    let mut events = 0usize;
    let mut ref_ids: BTreeSet<Id> = BTreeSet::new();
    let mut bad_name_reaches = 0usize;
    let mut placed: BTreeSet<Id> = e.src_ids.iter().cloned().collect();
    for &r in references {
        let mut group = BTreeSet::new();
        let mut reach = |id: &Id, k: Kind, group: &mut BTreeSet<Id>| {
            if k == Kind::BadName {
                // refused by its name, before identities are compared: an error entry (softening (iv) for its repeats)
                reached_bad = true;
                bad_name_reaches += 1;
                return;
            }
            events += 1;
            ref_ids.insert(id.clone());
            if placed.insert(id.clone()) {
                group.insert(id.clone());
            }
            if matches!(k, Kind::BadUtf8 | Kind::BadName) {
                reached_bad = true;
            }
        };
        match &b.args[r] {
            Arg::Missing => {
                nerr += 1;
                errs.insert(format!("?{}", b.shown[r]));
                e.why_io.push(format!("reference {:?} does not exist", b.shown[r]));
            }
            Arg::NonSlice(id) => {
                nerr += 1;
                errs.insert(id.clone());
                e.why_io.push(format!("reference {:?} has no .slice extension", b.shown[r]));
            }
            Arg::Special(id) => {
                nerr += 1;
                errs.insert(id.clone());
                e.why_io.push(format!("reference {:?} is neither a regular file nor a directory", b.shown[r]));
            }
            Arg::File(id, k) => reach(id, *k, &mut group),
            Arg::Dir(_, x) => {
                for (id, k) in &x.events {
                    reach(id, *k, &mut group);
                }
                e.into_cycle |= x.into_cycle;
                e.io_tolerated |= x.dangling | x.into_cycle;
            }
        }
        e.ref_groups.push(group);
    }
    e.dups_lo += events - ref_ids.len();
    error_repeats += nerr - errs.len() + bad_name_reaches.saturating_sub(1);
    e.io_required |= nerr > 0;
    all_events += events;

    if reached_bad {
        e.io_required = true;
        e.why_io.push("a file that cannot be compiled is reached (pkg/deep/bad.slice: contents are not UTF-8; odd/n<0xFF>.slice: its name is not)".into());
    }
    e.dups_hi = if e.into_cycle { usize::MAX } else { e.dups_lo + error_repeats };
    let distinct: BTreeSet<&Id> = e.src_ids.iter().chain(ref_ids.iter()).collect();
    e.nontrivial = e.io_required || all_events > distinct.len();
    e
}

// ------------------------------------------------------------------------------------------------------------
// Observation of the real code.

struct Obs {
    files: Vec<(String, bool, bool)>, // relative_path, is_source, parsed (module set or contents non-empty)
    dup_warnings: usize,
    dup_other_level: usize,
    e001: usize,
    e001_not_error_level: usize,
    other: Vec<String>,
    secs: f64,
}

fn observe(sources: &[String], references: &[String]) -> Result<Obs, (String, String)> {
    guarded(|| {
        let options = SliceOptions { sources: sources.to_vec(), references: references.to_vec(), ..Default::default() };
        let t0 = Instant::now();
        let state = slicec::compile_from_options(&options);
        let secs = t0.elapsed().as_secs_f64();
        let files = state.files.iter().map(|f| (f.relative_path.clone(), f.is_source, f.module.is_some() || !f.contents.is_empty())).collect();
        let mut o = Obs { files, dup_warnings: 0, dup_other_level: 0, e001: 0, e001_not_error_level: 0, other: vec![], secs };
        for d in state.into_diagnostics(&options) {
            match d.code() {
                "DuplicateFile" => {
                    if d.level() == DiagnosticLevel::Warning {
                        o.dup_warnings += 1
                    } else {
                        o.dup_other_level += 1
                    }
                }
                "E001" => {
                    o.e001 += 1;
                    if d.level() != DiagnosticLevel::Error {
                        o.e001_not_error_level += 1;
                    }
                }
                c => o.other.push(format!("{c}: {}", truncate(&d.message(), 80))),
            }
        }
        o
    })
}

/// Compare one scenario; returns the outcome class.
fn scenario(b: &Built, e: &Expect, sources: &[usize], references: &[usize], out: &mut CaseOut) -> String {
    let src: Vec<String> = sources.iter().map(|&i| b.spellings[i].clone()).collect();
    let refs: Vec<String> = references.iter().map(|&i| b.spellings[i].clone()).collect();
    let show_in = || {
        format!(
            "tree options {:?}; sources {:?}; references {:?}",
            opt_names(b.bits),
            sources.iter().map(|&i| &b.shown[i]).collect::<Vec<_>>(),
            references.iter().map(|&i| &b.shown[i]).collect::<Vec<_>>()
        )
    };
    let feat = if e.into_cycle { "/cycle" } else { "" };
    let o = match observe(&src, &refs) {
        Ok(o) => o,
        Err((loc, msg)) => {
            out.violate(format!("{FAM}/panic@{loc}"), format!("{}: compile_from_options panicked at {loc}: {msg}", show_in()));
            return "panic".into();
        }
    };
    let class = format!("files={},dup={},io={}", o.files.len(), o.dup_warnings.min(9), (o.e001 > 0) as u8);
    let show_obs = || {
        format!(
            "observed files {:?}, {} DuplicateFile warning(s), {} E001, other diagnostics {:?}",
            o.files.iter().map(|(p, s, _)| format!("{}{}", p.replace(&b.root_abs, "<root>"), if *s { " (source)" } else { " (reference)" })).collect::<Vec<_>>(),
            o.dup_warnings,
            o.e001,
            o.other
        )
    };
    if o.secs > SLOW_SECS {
        out.violate(format!("{FAM}/termination{feat}"), format!("{}: one compilation took {:.1} s", show_in(), o.secs));
    }
    if o.dup_other_level > 0 {
        out.violate(format!("{FAM}/duplicate-warning-level"), format!("{}: {} DuplicateFile diagnostic(s) not at level Warning", show_in(), o.dup_other_level));
    }
    if o.e001_not_error_level > 0 {
        out.violate(format!("{FAM}/io-error-level"), format!("{}: {} E001 diagnostic(s) not at level Error", show_in(), o.e001_not_error_level));
    }
    // DuplicateFile count (checked in every scenario: de-duplication does not depend on the verdict)
    if o.dup_warnings < e.dups_lo || o.dup_warnings > e.dups_hi {
        let exp = if e.dups_hi == usize::MAX {
            format!("at least {}", e.dups_lo)
        } else if e.dups_hi == e.dups_lo {
            format!("exactly {}", e.dups_lo)
        } else {
            format!("{}..={}", e.dups_lo, e.dups_hi)
        };
        let which = if o.dup_warnings < e.dups_lo { "missing" } else { "spurious" };
        out.violate(
            format!("{FAM}/duplicate-warnings/{which}{feat}"),
            format!("{}: expected {exp} DuplicateFile warning(s) (one per repeat within one list, none across lists); {}", show_in(), show_obs()),
        );
    }
    let nothing_parsed = o.files.iter().all(|(_, _, parsed)| !parsed);
    if e.io_required || (e.io_tolerated && o.e001 > 0) {
        // error scenario: E001 and nothing parsed
        if o.e001 == 0 {
            out.violate(format!("{FAM}/io-error-missing"), format!("{}: expected an I/O error (E001) because {}; {}", show_in(), e.why_io.join("; "), show_obs()));
        }
        if !nothing_parsed {
            out.violate(
                format!("{FAM}/parsed-despite-io-error"),
                format!("{}: an I/O error is due ({}) yet files were parsed; {}", show_in(), e.why_io.join("; "), show_obs()),
            );
        }
        return class;
    }
    // clean scenario
    if o.e001 > 0 {
        out.violate(format!("{FAM}/unexpected-io-error{feat}"), format!("{}: every argument exists, is a Slice file or a reference directory and is readable, but: {}", show_in(), show_obs()));
        return class;
    }
    let exp_ref: Vec<&BTreeSet<Id>> = e.ref_groups.iter().collect();
    let show_exp = || format!("expected sources {:?} then reference groups {:?}", e.src_ids, exp_ref);
    // map observed files back to identities
    let mut ids: Vec<(Id, bool)> = vec![];
    for (p, is_src, _) in &o.files {
        match resolve(&b.model, &b.root_abs, p) {
            Res::File(id, _) => ids.push((id, *is_src)),
            _ => {
                out.violate(format!("{FAM}/compiled-set/unknown-path"), format!("{}: returned file {p:?} does not denote a file of the tree; {}", show_in(), show_obs()));
                return class;
            }
        }
    }
    let mut seen = BTreeSet::new();
    for (id, _) in &ids {
        if !seen.insert(id.clone()) {
            out.violate(format!("{FAM}/compiled-twice{feat}"), format!("{}: {id} is compiled more than once; {}; {}", show_in(), show_exp(), show_obs()));
            return class;
        }
    }
    let mut want: BTreeSet<Id> = e.src_ids.iter().cloned().collect();
    for g in &e.ref_groups {
        want.extend(g.iter().cloned());
    }
    if seen != want {
        let missing: Vec<&Id> = want.difference(&seen).collect();
        let extra: Vec<&Id> = seen.difference(&want).collect();
        let which = if !missing.is_empty() { "missing" } else { "extra" };
        out.violate(format!("{FAM}/compiled-set/{which}{feat}"), format!("{}: missing {missing:?}, extra {extra:?}; {}; {}", show_in(), show_exp(), show_obs()));
        return class;
    }
    for (id, is_src) in &ids {
        let listed = e.src_ids.contains(id);
        if listed && !*is_src {
            out.violate(format!("{FAM}/source-priority{feat}"), format!("{}: {id} is listed as a source but compiled as a reference; {}", show_in(), show_obs()));
            return class;
        }
        if !listed && *is_src {
            out.violate(format!("{FAM}/reference-flagged-source{feat}"), format!("{}: {id} is only a reference but compiled as a source; {}", show_in(), show_obs()));
            return class;
        }
    }
    let n = e.src_ids.len();
    if ids[..n].iter().map(|(i, _)| i).ne(e.src_ids.iter()) {
        out.violate(format!("{FAM}/source-order{feat}"), format!("{}: {}; {}", show_in(), show_exp(), show_obs()));
        return class;
    }
    let group_of = |id: &Id| e.ref_groups.iter().position(|g| g.contains(id)).unwrap();
    let gs: Vec<usize> = ids[n..].iter().map(|(i, _)| group_of(i)).collect();
    if gs.windows(2).any(|w| w[0] > w[1]) {
        out.violate(format!("{FAM}/reference-order{feat}"), format!("{}: {}; {}", show_in(), show_exp(), show_obs()));
        return class;
    }
    if !o.files.iter().all(|(_, _, parsed)| *parsed) {
        out.violate(format!("{FAM}/not-compiled"), format!("{}: no error, yet some returned file has neither module nor contents; {}", show_in(), show_obs()));
    }
    class
}

// ------------------------------------------------------------------------------------------------------------
// The family: (tree, sources list, first reference) chunks.

/// Number of lists with a length in lo..=hi over n symbols.
fn count_lists(n: u64, lo: usize, hi: usize) -> u64 {
    (lo..=hi).map(|k| n.pow(k as u32)).sum()
}

/// The idx-th list with a length in lo..=hi over n symbols (shorter lists first).
fn nth_list(n: u64, lo: usize, hi: usize, mut idx: u64) -> Vec<usize> {
    for k in lo..=hi {
        let c = n.pow(k as u32);
        if idx < c {
            let mut v = Vec::with_capacity(k);
            for _ in 0..k {
                v.push((idx % n) as usize);
                idx /= n;
            }
            v.reverse();
            return v;
        }
        idx -= c;
    }
    panic!("list index out of range")
}

pub struct Lists {
    label: String,
    trees: Vec<u32>,
    src_len: (usize, usize),
    ref_len: (usize, usize),
    /// prefix sums of the number of cases per tree
    starts: Vec<u64>,
    /// if set: the only spellings used (longer lists over a smaller alphabet)
    only: Option<Vec<&'static str>>,
}

impl Lists {
    fn new(label: &str, trees: Vec<u32>, src_len: (usize, usize), ref_len: (usize, usize)) -> Lists {
        Self::over(label, trees, src_len, ref_len, None)
    }
    fn over(label: &str, trees: Vec<u32>, src_len: (usize, usize), ref_len: (usize, usize), only: Option<Vec<&'static str>>) -> Lists {
        let mut l = Lists { label: label.to_string(), trees, src_len, ref_len, starts: vec![], only };
        let mut acc = 0;
        let mut starts = vec![];
        for &t in &l.trees {
            starts.push(acc);
            acc += l.cases_of(t);
        }
        starts.push(acc);
        l.starts = starts;
        l
    }
    /// indices (into the tree's spelling list) of the usable spellings: all of them
    fn alpha(&self, bits: u32) -> Vec<usize> {
        let sp = spellings(bits);
        (0..sp.len()).filter(|&i| self.only.as_ref().map_or(true, |o| o.contains(&sp[i].as_str()))).collect()
    }
    fn chunks(&self, n: u64) -> u64 {
        // chunk 0 = the empty reference list (if allowed); chunk c = lists starting with symbol c-1
        (if self.ref_len.0 == 0 { 1 } else { 0 }) + if self.ref_len.1 >= 1 { n } else { 0 }
    }
    fn cases_of(&self, bits: u32) -> u64 {
        let n = self.alpha(bits).len() as u64;
        count_lists(n, self.src_len.0, self.src_len.1) * self.chunks(n)
    }
    /// (tree, alphabet, sources (alphabet positions), first reference (alphabet position) or None)
    fn locate(&self, idx: u64) -> (u32, Vec<usize>, Vec<usize>, Option<usize>) {
        let t = self.starts.partition_point(|&s| s <= idx) - 1;
        let bits = self.trees[t];
        let alpha = self.alpha(bits);
        let n = alpha.len() as u64;
        let local = idx - self.starts[t];
        let ch = self.chunks(n);
        let src = nth_list(n, self.src_len.0, self.src_len.1, local / ch);
        let mut c = local % ch;
        let first = if self.ref_len.0 == 0 {
            if c == 0 {
                None
            } else {
                c -= 1;
                Some(c as usize)
            }
        } else {
            Some(c as usize)
        };
        (bits, alpha, src, first)
    }
    /// lengths of the rest of the reference list after the first element
    fn rest_len(&self) -> (usize, usize) {
        (self.ref_len.0.max(1) - 1, self.ref_len.1 - 1)
    }
}

impl Family for Lists {
    fn name(&self) -> String {
        self.label.clone()
    }
    fn len(&self) -> u64 {
        *self.starts.last().unwrap()
    }
    fn hang_secs(&self) -> f64 {
        60.0
    }
    fn crash_sig(&self, _idx: u64, how: &str) -> String {
        if how.starts_with("hang") {
            format!("{FAM}/termination/worker-hang")
        } else {
            format!("{FAM}/{how}")
        }
    }
    fn describe(&self, idx: u64) -> Value {
        let (bits, alpha, src, first) = self.locate(idx);
        let sp = spellings(bits);
        let (lo, hi) = self.rest_len();
        json!({
            "tree_options": opt_names(bits),
            "tree": "a.slice b.slice notes.txt sub/c.slice pkg/{d.slice,readme.md,x.slice.bak,v2.slice/f.slice,deep/{slice,er/e.slice}} + options: empty-dir=pkg/empty/, file-link=sub/la.slice->../a.slice, dir-link=dl->sub, cycle=sub/loop->., dangling-link=pkg/gone.slice->nowhere.slice, invalid-utf8=pkg/deep/bad.slice, special-files=pkg/pipe.slice (FIFO) + sub/null.slice->/dev/null",
            "cwd": "<root> (the tree)",
            "sources": src.iter().map(|&i| sp[alpha[i]].clone()).collect::<Vec<_>>(),
            "references": match first {
                None => json!([]),
                Some(f) => json!(format!("[{:?}] followed by every list of {lo}..={hi} further spellings out of {:?}", sp[alpha[f]], alpha.iter().map(|&i| sp[i].clone()).collect::<Vec<_>>())),
            },
            "call": "slicec::compile_from_options(&SliceOptions{sources, references, ..Default::default()})",
        })
    }
    fn run(&self, idx: u64) -> CaseOut {
        let (bits, alpha, src_pos, first) = self.locate(idx);
        let b = built(bits);
        let src: Vec<usize> = src_pos.iter().map(|&i| alpha[i]).collect();
        let mut out = CaseOut::new(hash_str(&format!("c17|{bits}|{:?}|{:?}|{:?}", src.iter().map(|&i| &b.shown[i]).collect::<Vec<_>>(), first.map(|f| &b.shown[alpha[f]]), self.ref_len)));
        out.steps = 0;
        let prev = std::env::current_dir().ok();
        std::env::set_current_dir(&b.root_abs).expect("c17: enter the tree");
        let mut classes: BTreeMap<String, u64> = BTreeMap::new();
        let mut nontrivial_scenarios = 0u64;
        let mut head_class: Option<String> = None;
        let mut one = |refs: &[usize], out: &mut CaseOut| {
            out.steps += 1;
            out.validated += 1;
            let e = expect(&b, &src, refs);
            if e.nontrivial {
                nontrivial_scenarios += 1;
            }
            let c = scenario(&b, &e, &src, refs, out);
            if head_class.is_none() {
                head_class = Some(c.clone());
            }
            *classes.entry(c).or_insert(0) += 1;
        };
        match first {
            None => one(&[], &mut out),
            Some(f) => {
                let (lo, hi) = self.rest_len();
                let n = alpha.len() as u64;
                for k in 0..count_lists(n, lo, hi) {
                    let mut refs = vec![alpha[f]];
                    refs.extend(nth_list(n, lo, hi, k).into_iter().map(|i| alpha[i]));
                    one(&refs, &mut out);
                }
            }
        }
        if let Some(p) = prev {
            let _ = std::env::set_current_dir(p);
        }
        // non-trivial case = the part shared by all its scenarios (sources + first reference) already aliases a
        // file twice or contains an error entry
        let shared: Vec<usize> = first.map(|f| vec![alpha[f]]).unwrap_or_default();
        out.nontrivial = expect(&b, &src, &shared).nontrivial;
        out.class = head_class.unwrap_or_default();
        out.extra.push(("scenarios".into(), out.steps));
        out.extra.push(("scenarios_nontrivial".into(), nontrivial_scenarios));
        for (c, n) in classes {
            out.extra.push((format!("scenario_class[{c}]"), n));
        }
        let mut seen = std::collections::HashSet::new();
        out.violations.retain(|v| seen.insert(v.sig.clone()));
        out
    }
}

// ------------------------------------------------------------------------------------------------------------
// The command line of the real binary: wherever the -R options stand among the sources, a path written as a source
// is compiled as a source, in the order written, and what follows a -R value is not swallowed by it.

pub struct ArgvOrdersThroughTheBinary;
const AO_ARGVS: [&[&str]; 8] = [
    &["main.slice", "extra.slice", "-R", "ref"],
    &["-R", "ref", "main.slice", "extra.slice"],
    &["main.slice", "-R", "ref", "extra.slice"],
    &["-R", "ref", "--", "main.slice", "extra.slice"],
    &["-R=ref", "main.slice", "extra.slice"],
    &["-R", "ref", "main.slice", "-R", "ref2", "extra.slice"],
    &["main.slice", "-R", "ref/common.slice", "extra.slice", "-R", "ref2"],
    &["extra.slice", "-R", "ref", "main.slice"],
];
impl Family for ArgvOrdersThroughTheBinary {
    fn name(&self) -> String {
        format!("argv-orders-through-the-binary/{} placements of -R options among two sources (before, between, after, with '--', '-R=value', two -R options): the request a capturing generator receives lists the sources in the order written and the reference files behind them", AO_ARGVS.len())
    }
    fn len(&self) -> u64 {
        AO_ARGVS.len() as u64
    }
    fn hang_secs(&self) -> f64 {
        60.0
    }
    fn describe(&self, idx: u64) -> Value {
        json!({"argv": AO_ARGVS[idx as usize]})
    }
    fn run(&self, idx: u64) -> CaseOut {
        use crate::proc::{encode_reply, run, split_request, Gen, Install, Node as PNode, Scenario, Script, Step};
        let argv = AO_ARGVS[idx as usize];
        let mut out = CaseOut::new(hash_str(&format!("c17ao{idx}")));
        out.validated = 1;
        out.nontrivial = true;
        let mut sc = Scenario::default();
        for (name, text) in [("main.slice", "module Main\nstruct M { c: Common::C }\n"), ("extra.slice", "module Extra\nstruct E { c: Common::C? }\n"), ("ref/common.slice", "module Common\nstruct C {}\n"), ("ref2/other.slice", "module Other\nstruct O {}\n")] {
            sc.tree.push((name.to_string(), PNode::File(text.as_bytes().to_vec())));
        }
        sc.gens.push(Gen { name: "capture".into(), install: Install::Script(Script(vec![Step::ReadAll, Step::Stdout(encode_reply(&[], &[])), Step::Exit(0)])) });
        // (the generator option first: behind a '--' everything is a source)
        sc.argv = vec!["-G".to_string(), "{gen0}".to_string()];
        sc.argv.extend(argv.iter().map(|s| s.to_string()));
        let o = run(&sc, std::time::Duration::from_secs(20));
        let desc = || format!("argv {:?}\nexit {:?}\nstderr {}", sc.argv, o.exit_code, truncate(&o.stderr_text(), 400));
        if o.timed_out || o.signal.is_some() || o.panic_location().is_some() {
            out.violate("c17/argv-orders/crash-or-hang", desc());
            return out;
        }
        if o.exit_code != Some(0) {
            out.violate("c17/argv-orders/valid-command-line-not-accepted", desc());
            return out;
        }
        let Some(stdin) = o.gens.get(0).and_then(|g| g.stdin.clone()) else {
            out.violate("c17/argv-orders/generator-not-run", desc());
            return out;
        };
        let decoded = split_request(&stdin, &[]).ok_or("arguments".to_string()).and_then(|r| super::c08::decode_request(r));
        match decoded {
            Err(e) => out.violate("c17/argv-orders/request-undecodable", format!("{e}\n{}", desc())),
            Ok((sources, references)) => {
                let paths = |v: &Vec<crate::model::tree::Node>| v.iter().map(|n| n.get("path").unwrap_or("?").to_string()).collect::<Vec<_>>();
                let want_src: Vec<String> = argv.iter().filter(|a| ["main.slice", "extra.slice"].contains(a)).map(|s| s.to_string()).collect();
                if paths(&sources) != want_src {
                    out.violate("c17/argv-orders/sources-of-the-request", format!("the paths written as sources are {want_src:?}, the request lists the sources {:?} (references {:?})\n{}", paths(&sources), paths(&references), desc()));
                }
                let mut want_ref = vec!["ref/common.slice".to_string()];
                if argv.iter().any(|a| *a == "ref2") {
                    want_ref.push("ref2/other.slice".to_string());
                }
                if paths(&references) != want_ref {
                    out.violate("c17/argv-orders/references-of-the-request", format!("expected the reference files {want_ref:?}, the request lists {:?}\n{}", paths(&references), desc()));
                }
                out.class = format!("{}src+{}ref", sources.len(), references.len());
            }
        }
        out
    }
}

pub fn meta(m: &mut PropMeta) {
    m.rule = "REAL directory trees in a private scratch directory, the harness' cwd inside the tree, the real slicec::compile_from_options in-process. Universe (depth 4): a.slice b.slice notes.txt sub/c.slice pkg/{d.slice,readme.md,x.slice.bak,v2.slice/f.slice,deep/{slice,er/e.slice}} plus every subset of 6 optional entries (2^6 trees): empty directory pkg/empty/, file link sub/la.slice->../a.slice, directory link dl->sub, cycle sub/loop->., dangling link pkg/gone.slice, invalid-UTF-8 file pkg/deep/bad.slice (the 'unreadable' entry; the harness runs as root so permission bits are useless). Argument lists are EVERY (sources, references) pair of lists over the tree's 12-19 path spellings: a.slice ./a.slice sub/../a.slice <abs>/a.slice b.slice sub/c.slice, directories sub ./sub/ . (reference: expanded; source: error), missing.slice, notes.txt, and per option pkg/empty, sub/la.slice, dl/c.slice, dl, sub/loop/c.slice, pkg/gone.slice, pkg/deep/bad.slice. Oracle = reference resolver over the MODEL of the tree (identity = canonical path computed on the model): state.files mapped back to identities must be the source identities in the given order flagged is_source, then the not-yet-present reference identities in argument order with each directory expansion an unordered group, every identity once, every file parsed, no E001; exactly one DuplicateFile at level Warning per repeat within one list (also repeats arising through directory expansion and links) and none across lists; nonexistent / non-.slice / directory-as-source / unreadable reached file => at least one E001 at level Error and nothing parsed (no module, no contents in any returned file). Softenings: when a reference directory expansion runs into the cycle the DuplicateFile count is only bounded from below and an E001 is tolerated (ELOOP depth is the OS's business); a dangling *.slice link (or, in the two special-files trees, a FIFO / a link to /dev/null named *.slice) below a reference directory may be ignored or reported, but listed directly each is an E001; repeats of error entries may or may not be warned about; on error scenarios the returned file list is not compared. A case = (tree, sources list, first reference) and runs every reference list with that first element; the real scenario count is extra_counters.scenarios (= steps = validated), per-scenario outcome classes (files returned, DuplicateFile warnings, E001 present) are extra_counters.scenario_class[..]. Non-trivial scenario = the argument lists reach at least one file twice or contain an error entry; non-trivial case = that already holds for the part shared by all its scenarios (sources + first reference); extra_counters.scenarios_nontrivial counts scenarios.";
    m.explanation = "exhaustive enumeration of argument lists over real directory trees (files, links, cycle, dangling link, unreadable file) against a reference resolver on the model tree";
    m.quick_bound = "32 trees without the cycle x all lists of <=2 sources + <=2 references (1.5M compilations); 32 trees with the cycle x <=2 sources + <=1 reference; tree {cycle} x <=2 + <=2 (a directory expansion into the cycle costs ~1 ms, everything else ~45 us)";
    m.thorough_bound = "all 64 trees x <=2 sources + <=2 references; 7 trees without the cycle (no option, each single option, all five) additionally x (3 sources + <=2 references) and (<=2 sources + 3 references); tree {cycle} x 3 sources + <=2 references; the tree with all five non-cycle options x 3 sources + 3 references (so <=3 + <=3 is complete on that tree only: the full product 64 trees x <=3 + <=3 would be ~5e8 compilations); 34M compilations in total";
}

pub fn families(tier: &str) -> Vec<Box<dyn Family>> {
    let pick = |f: &dyn Fn(u32) -> bool| -> Vec<u32> {
        (0..64).filter(|b| f(*b)).collect()
    };
    let acyclic = pick(&|b| b & CYCLE_BIT == 0);
    let cyclic = pick(&|b| b & CYCLE_BIT != 0);
    // longer lists over fewer spellings: a repeat with several entries behind it, several repeats in one list
    let few = vec!["a.slice", "./a.slice", "b.slice", "sub/c.slice"];
    let few_dir = vec!["a.slice", "./a.slice", "b.slice", "sub/c.slice", "sub"];
    let long: Vec<Box<dyn Family>> = vec![
        Box::new(Lists::over("plain tree and tree {file-link, dir-link} x sources of 4..5 entries over 4 spellings (2 of one file) x references<=1", pick(&|b| b == 0 || b == 6), (4, 5), (0, 1), Some(few))),
        Box::new(Lists::over("plain tree and tree {file-link, dir-link} x sources<=1 x references of 4..5 entries over 5 spellings (2 of one file, a directory)", pick(&|b| b == 0 || b == 6), (0, 1), (4, 5), Some(few_dir))),
    ];
    // entries that exist, are named *.slice and are neither a regular file nor a directory
    let special: Box<dyn Family> = Box::new(Lists::new("trees {special-files} and {special-files, file-link, dir-link} (a FIFO pkg/pipe.slice, a link sub/null.slice to /dev/null, a file odd/n<0xFF>.slice whose name is not UTF-8 next to its lossy twin, odd/plain.slice next to odd/Plain.slice and ODD/plain.slice) x sources<=2 x references<=2", vec![SPECIAL_BIT, SPECIAL_BIT | 6], (0, 2), (0, 2)));
    let mut v: Vec<Box<dyn Family>> = if tier == "quick" {
        vec![
            Box::new(Lists::new("32 trees without the cycle x sources<=2 x references<=2", acyclic, (0, 2), (0, 2))),
            Box::new(Lists::new("32 trees with the cycle x sources<=2 x references<=1", cyclic, (0, 2), (0, 1))),
            Box::new(Lists::new("tree {cycle} x sources<=2 x references<=2", pick(&|b| b == 8), (0, 2), (0, 2))),
        ]
    } else {
        let representative = pick(&|b| [0, 1, 2, 4, 16, 32, 55].contains(&b));
        vec![
            Box::new(Lists::new("32 trees without the cycle x sources<=2 x references<=2", acyclic, (0, 2), (0, 2))),
            Box::new(Lists::new("32 trees with the cycle x sources<=2 x references<=2", cyclic, (0, 2), (0, 2))),
            Box::new(Lists::new("7 trees without the cycle (none, each single option, all five) x sources=3 x references<=2", representative.clone(), (3, 3), (0, 2))),
            Box::new(Lists::new("7 trees without the cycle (none, each single option, all five) x sources<=2 x references=3", representative, (0, 2), (3, 3))),
            Box::new(Lists::new("tree {cycle} x sources=3 x references<=2", pick(&|b| b == 8), (3, 3), (0, 2))),
            Box::new(Lists::new("tree with all five options but the cycle x sources=3 x references=3", pick(&|b| b == 55), (3, 3), (3, 3))),
        ]
    };
    v.extend(long);
    v.push(special);
    v.push(Box::new(ArgvOrdersThroughTheBinary));
    v
}
