//! C14 — emitted diagnostics are complete, well-formed and match the totals.

use super::c04::violator;
use super::PropMeta;
use crate::engine::*;
use crate::model::ast::*;
use crate::model::gen;
use crate::model::print::*;
use crate::model::run::*;
use crate::proc::{run, show_bytes, Scenario};
use crate::util::*;
use clap::Parser;
use serde_json::{json, Value};
use slicec::diagnostic_emitter::DiagnosticEmitter;
use slicec::slice_options::SliceOptions;
use std::time::Duration;

pub fn meta(m: &mut PropMeta) {
    m.rule = "one diagnostic source per diagnostic kind the compiler can produce from text (30 rule violators of C04, unresolved / wrong-kind / cyclic references, containment and inheritance cycles with multi-note chains, key errors with note spans, redefinitions, deprecated uses whose reason carries quotes, backslashes, tabs and non-ASCII text, broken / malformed / ill-fitting doc comments, syntax errors), alone, in all ordered pairs and (thorough) in triples of lint sources, in one and two files and two layouts (single line / one token per line, so spans cover several lines) x {human, json} x colour {forced on, --disable-color} x --allow {none, Deprecated, All}; emitted in-process by the real DiagnosticEmitter into a buffer (options parsed by the real clap definition); plus a process-level slice through the real binary for totals, exit status, span-less diagnostics (I/O errors, DuplicateFile) and file names with spaces, quotes, backslashes and non-ASCII characters. Oracle: JSON: exactly one line per non-allowed diagnostic, each parses (serde_json) to an object with exactly the keys message, severity, span, notes, error_code whose values equal the diagnostic obtained through the API, in recorded order, nothing else in the stream; human: one 'error [code]' / 'warning [code]' header per non-allowed diagnostic in order with its message, a location line iff it has a span, one 'note:' per note; summary counts on stdout equal the numbers of headers; exit status agrees; with colours disabled no ESC byte; allowed lints leave no byte. non-trivial = at least one diagnostic is emitted and one note or allowed lint is involved; distinct = distinct (program, layout, configuration).";
    m.explanation = "enumeration of diagnostic-producing programs x emission configurations; emitted stream re-parsed independently and compared with the diagnostics obtained through the API";
    m.quick_bound = "50 sources alone and in all ordered pairs x 2 layouts x 12 configurations (pairs: rotating configuration)";
    m.thorough_bound = "pairs x all 12 configurations; triples of the 14 lint/special sources";
}

pub const N_SPECIAL: usize = 20;
pub const N_SOURCES: usize = 30 + N_SPECIAL;

/// Diagnostic source k with names made unique by i (each adds definitions to the file).
pub fn diag_source(k: usize, i: usize) -> Vec<MDef> {
    if k < 30 {
        return vec![violator(k, i)];
    }
    let n = |b: &str| format!("{b}{i}");
    let i32t = || MType::prim("int32");
    match k - 30 {
        0 => {
            // deprecated use, reason with quotes, backslash, tab, non-ASCII
            let mut d = st(&n("Old"), vec![]);
            *d.common_mut() = d.common().clone().attr(MAttr::with("deprecated", vec![MArg::Str("say \\\"hi\\\" \\\\ é\t😀 done".into())]));
            vec![d, st(&n("UsesOld"), vec![MField::new("a", MType::named(&n("Old"))), MField::new("b", MType::seq(MType::named(&n("Old")).opt()))])]
        }
        1 => {
            let mut d = st(&n("BrokenLink"), vec![]);
            *d.common_mut() = d.common().clone().doc(&[" See {@link Nope} and {@link AlsoNope}."]);
            vec![d]
        }
        2 => {
            let mut d = st(&n("Malformed"), vec![]);
            *d.common_mut() = d.common().clone().doc(&[" @frob \"x\""]);
            vec![d]
        }
        3 => {
            let mut d = st(&n("Incorrect"), vec![]);
            *d.common_mut() = d.common().clone().doc(&[" @returns: nothing", " @param a: none"]);
            vec![d]
        }
        4 => vec![st(&n("Unresolved"), vec![MField::new("a", MType::named("No::Such::Type"))])],
        5 => vec![st(&n("WrongKind"), vec![MField::new("a", MType::named("Lib::HI"))])],
        6 => vec![alias(&n("CycA"), MType::named(&n("CycB"))), alias(&n("CycB"), MType::named(&n("CycA")))],
        7 => vec![st(&n("RingA"), vec![MField::new("b", MType::named(&n("RingB")).opt())]), st(&n("RingB"), vec![MField::new("c", MType::seq(MType::named(&n("RingC"))))]), st(&n("RingC"), vec![MField::new("a", MType::named(&n("RingA")))])],
        8 => vec![iface(&n("LoopI"), vec![MType::named(&n("LoopJ"))], vec![]), iface(&n("LoopJ"), vec![MType::named(&n("LoopI"))], vec![])],
        9 => vec![cst(&n("BadKey"), vec![MField::new("f", MType::prim("float32")), MField::new("o", i32t().opt())]), st(&n("UsesBadKey"), vec![MField::new("d", MType::dict(MType::named(&n("BadKey")), i32t()))])],
        10 => vec![st(&n("Twice"), vec![]), custom(&n("Twice"))],
        11 => {
            // deprecated operation-less interface used as base: note with span
            let mut d = iface(&n("OldI"), vec![], vec![]);
            *d.common_mut() = d.common().clone().attr(MAttr::new("deprecated"));
            vec![d, iface(&n("DerivedI"), vec![MType::named(&n("OldI"))], vec![])]
        }
        12 => {
            let mut o = op("o", vec![MParam::new("a", i32t())], MRet::Single { tag: None, stream: false, ty: i32t() });
            o.c = o.c.doc(&[" @param zz: no such parameter", " @returns named: single return is unnamed"]);
            vec![iface(&n("DocI"), vec![], vec![o])]
        }
        13 => {
            // misplaced tags whose messages wrap onto further lines, the last of them shorter than the tag line
            let mut d = st(&n("Wrapped"), vec![]);
            *d.common_mut() = d.common().clone().doc(&[" Overview.", " @returns: a first line of the message that is long", "   ok.", " @param a: another first line that is rather long", "  x"]);
            vec![d]
        }
        14 => {
            let mut o = op("w", vec![MParam::new("a", i32t())], MRet::None);
            o.c = o.c.doc(&[" @param zz: no such parameter, said at some length on this line", "   no.", " @returns: and nothing is returned either, as this line says", " .", " @param a: fine"]);
            vec![iface(&n("WrapI"), vec![], vec![o])]
        }
        15 => vec![en(&n("Multi"), Some(MType::prim("uint8")), vec![enumerator_v("A", MInt::dec(300)), enumerator_v("B", MInt::dec(300)), MEnumerator { c: MCommon::new("C"), fields: Some(vec![]), value: None }])],
        16 => {
            // comment defects reported AT a position (a span of width zero, drawn as a pointer): an inline tag that is
            // cut short, on a member (indented by whatever the layout indents with)
            let mut fl = MField::new("cut", i32t());
            fl.c = fl.c.doc(&[" Does {@link I"]);
            vec![st(&n("CutShort"), vec![MField::new("before", i32t()), fl])]
        }
        18 => {
            // an attribute that is not legal where it stands, BETWEEN two that are
            let mut d = st(&n("Misplaced"), vec![MField::new("a", i32t())]);
            *d.common_mut() = d.common().clone().attr(MAttr::new("cs::first")).attr(MAttr::new("oneway")).attr(MAttr::with("cs::last", vec![MArg::Ident("x".into())]));
            vec![d]
        }
        19 => {
            // an attribute used three times, other attributes between the uses: the repeats are at fault, not the first
            let mut d = st(&n("Repeated"), vec![MField::new("a", i32t())]);
            *d.common_mut() = d.common().clone().attr(MAttr::new("deprecated")).attr(MAttr::new("cs::between")).attr(MAttr::new("deprecated")).attr(MAttr::new("cs::again")).attr(MAttr::with("deprecated", vec![MArg::Str("third".into())]));
            vec![d]
        }
        _ => {
            // ... and with a tab INSIDE the comment line, before the position
            let mut o = op("t", vec![], MRet::None);
            o.c = o.c.doc(&[" tab\there, then {@link", " and\t\t@param"]);
            vec![iface(&n("TabInside"), vec![], vec![o])]
        }
    }
}

fn program_of(ks: &[usize], two_files: bool) -> Program {
    let mut f = MFile::module("M");
    let mut g = MFile::module("M::N");
    for (i, k) in ks.iter().enumerate() {
        let defs = diag_source(*k, i);
        if two_files && i % 2 == 1 {
            g.defs.extend(defs);
        } else {
            f.defs.extend(defs);
        }
    }
    if two_files {
        vec![f, g, gen::lib_file()]
    } else {
        vec![f, gen::lib_file()]
    }
}

#[derive(Clone, Copy, Debug)]
pub struct Config {
    pub json: bool,
    pub color: bool,
    pub allow: u8, // 0 none, 1 Deprecated, 2 All
}
pub fn config(i: u64) -> Config {
    Config { json: i % 2 == 1, color: (i / 2) % 2 == 1, allow: ((i / 4) % 3) as u8 }
}
impl Config {
    pub fn argv(&self) -> Vec<String> {
        let mut v = vec!["slicec".to_string()];
        if self.json {
            v.extend(["--diagnostic-format".to_string(), "json".to_string()]);
        }
        if !self.color {
            v.push("--disable-color".to_string());
        }
        match self.allow {
            1 => v.extend(["-A".to_string(), "Deprecated".to_string()]),
            2 => v.extend(["--allow".to_string(), "All".to_string()]),
            _ => {}
        }
        v
    }
}

pub fn strip_ansi(s: &str) -> String {
    let mut o = String::new();
    let mut it = s.chars().peekable();
    while let Some(c) = it.next() {
        if c == '\u{1b}' {
            if it.peek() == Some(&'[') {
                it.next();
                while let Some(x) = it.next() {
                    if x.is_ascii_alphabetic() {
                        break;
                    }
                }
            }
            continue;
        }
        o.push(c);
    }
    o
}

/// Check an emitted stream against the diagnostics obtained through the API.
pub fn check_stream(stream: &str, diags: &[DiagObs], cfg: &Config, fam: &str, out: &mut CaseOut, input: &dyn Fn() -> String) {
    let emitted: Vec<&DiagObs> = diags.iter().filter(|d| d.level != "allowed").collect();
    if !cfg.color && stream.contains('\u{1b}') {
        out.violate(format!("c14/{fam}/escape-sequence-with-colours-disabled/{}", if cfg.json { "json" } else { "human" }), format!("--disable-color but the output contains an ESC byte: {:?}\n{}", truncate(stream, 300), input()));
    }
    if cfg.json {
        let lines: Vec<&str> = stream.split('\n').collect();
        // the stream is newline-terminated lines: last split element is empty
        let (body, tail) = lines.split_at(lines.len().saturating_sub(1));
        if !tail.iter().all(|t| t.is_empty()) {
            out.violate(format!("c14/{fam}/json/stream-not-line-terminated"), format!("JSON stream does not end with a newline: {:?}\n{}", truncate(stream, 300), input()));
        }
        if body.len() != emitted.len() {
            out.violate(format!("c14/{fam}/json/line-count"), format!("{} non-allowed diagnostic(s) but {} line(s) in the JSON stream:\n{}\n{}", emitted.len(), body.len(), truncate(stream, 600), input()));
            return;
        }
        for (line, d) in body.iter().zip(emitted.iter()) {
            let v: Value = match serde_json::from_str(line) {
                Ok(v) => v,
                Err(e) => {
                    out.violate(format!("c14/{fam}/json/line-does-not-parse"), format!("line {line:?} is not a JSON value: {e}\n{}", input()));
                    continue;
                }
            };
            let Some(obj) = v.as_object() else {
                out.violate(format!("c14/{fam}/json/not-an-object"), format!("line {line:?}\n{}", input()));
                continue;
            };
            let mut keys: Vec<&str> = obj.keys().map(|k| k.as_str()).collect();
            keys.sort();
            if keys != ["error_code", "message", "notes", "severity", "span"] {
                out.violate(format!("c14/{fam}/json/keys"), format!("object has keys {keys:?}\n{}", input()));
                continue;
            }
            let span_json = |f: &Option<String>, s: &Option<crate::model::tree::Sp>| match (f, s) {
                (Some(f), Some(s)) => json!({"start": {"row": s.sr, "col": s.sc}, "end": {"row": s.er, "col": s.ec}, "file": f}),
                _ => Value::Null,
            };
            let exp = json!({
                "message": d.message,
                "severity": d.level,
                "span": span_json(&d.file, &d.span),
                "notes": d.notes.iter().map(|(m, s)| json!({"message": m, "span": match s { Some((f, s)) => span_json(&Some(f.clone()), &Some(*s)), None => Value::Null }})).collect::<Vec<_>>(),
                "error_code": d.code,
            });
            if v != exp {
                let field = ["message", "severity", "span", "notes", "error_code"].iter().find(|k| v[**k] != exp[**k]).unwrap_or(&"?");
                out.violate(format!("c14/{fam}/json/value-differs/{field}"), format!("emitted {line}\nbut the diagnostic is {exp}\n{}", input()));
            }
        }
    } else {
        let text = strip_ansi(stream);
        // headers in order
        let mut headers: Vec<(String, String, String)> = vec![]; // (level, code, message)
        let mut notes_after: Vec<usize> = vec![];
        let mut locs_after: Vec<usize> = vec![];
        for line in text.lines() {
            let parse = |prefix: &str| -> Option<(String, String)> {
                let rest = line.strip_prefix(prefix)?.strip_prefix(" [")?;
                let (code, msg) = rest.split_once("]: ")?;
                Some((code.to_string(), msg.to_string()))
            };
            if let Some((c, m)) = parse("error") {
                headers.push(("error".into(), c, m));
                notes_after.push(0);
                locs_after.push(0);
            } else if let Some((c, m)) = parse("warning") {
                headers.push(("warning".into(), c, m));
                notes_after.push(0);
                locs_after.push(0);
            } else if line.starts_with("note: ") {
                if let Some(l) = notes_after.last_mut() {
                    *l += 1;
                }
            } else if line.starts_with(" --> ") {
                if let Some(l) = locs_after.last_mut() {
                    *l += 1;
                }
            }
        }
        if emitted.is_empty() && !text.is_empty() {
            out.violate(format!("c14/{fam}/human/output-without-diagnostics"), format!("nothing to report but the stream holds {:?}\n{}", truncate(&text, 300), input()));
        }
        // a message may span several lines (doc-comment text): compare the first line
        let exp: Vec<(String, String, String)> = emitted.iter().map(|d| (d.level.clone(), d.code.clone(), d.message.lines().next().unwrap_or("").to_string())).collect();
        if headers != exp {
            let i = headers.iter().zip(exp.iter()).position(|(a, b)| a != b).unwrap_or(headers.len().min(exp.len()));
            out.violate(
                format!("c14/{fam}/human/headers-differ"),
                format!("{} header(s) emitted, {} diagnostic(s) to report; first difference at #{i}: emitted {:?}, expected {:?}\n--- stream ---\n{}\n{}", headers.len(), exp.len(), headers.get(i), exp.get(i), truncate(&text, 1500), input()),
            );
            return;
        }
        // the whole stream, line by line: per diagnostic the headline with EVERY line of its message, its snippet if it
        // has a span, then per note "note: " with every line of the NOTE's message and its snippet - and nothing else
        {
            let lines: Vec<&str> = text.split('\n').collect();
            let mut k = 0usize;
            let gutter = |l: &str| l.trim_start().trim_start_matches(|c: char| c.is_ascii_digit()).trim_start().starts_with('|');
            let mut problem: Option<String> = None;
            let mut expect_text = |k: &mut usize, what: &str, full: &str| -> Option<String> {
                for (j, want) in full.split('\n').enumerate() {
                    let got = lines.get(*k).copied();
                    if got.map(|g| g.trim_end_matches('\r')) != Some(want.trim_end_matches('\r')) {
                        return Some(format!("{what}: line {j} of the text must be {want:?} but stream line {} is {got:?}", *k + 1));
                    }
                    *k += 1;
                }
                None
            };
            let mut skip_snippet = |k: &mut usize, what: &str, f: &str, s: &crate::model::tree::Sp| -> Option<String> {
                let want = format!(" --> {}:{}:{}", f, s.sr, s.sc);
                if lines.get(*k).copied() != Some(want.as_str()) {
                    return Some(format!("{what}: expected the location line {want:?} at stream line {}, found {:?}", *k + 1, lines.get(*k)));
                }
                *k += 1;
                while lines.get(*k).map_or(false, |l| gutter(l)) {
                    *k += 1;
                }
                None
            };
            'all: for (i, d) in emitted.iter().enumerate() {
                let what = format!("diagnostic #{i} ({} {})", d.level, d.code);
                if let Some(p) = expect_text(&mut k, &what, &format!("{} [{}]: {}", d.level, d.code, d.message)) {
                    problem = Some(p);
                    break 'all;
                }
                if let (Some(f), Some(sp)) = (&d.file, &d.span) {
                    if let Some(p) = skip_snippet(&mut k, &what, f, sp) {
                        problem = Some(p);
                        break 'all;
                    }
                }
                for (ni, (nmsg, nspan)) in d.notes.iter().enumerate() {
                    let what = format!("{what}, note #{ni}");
                    if let Some(p) = expect_text(&mut k, &what, &format!("note: {nmsg}")) {
                        problem = Some(p);
                        break 'all;
                    }
                    if let Some((f, sp)) = nspan {
                        if let Some(p) = skip_snippet(&mut k, &what, f, sp) {
                            problem = Some(p);
                            break 'all;
                        }
                    }
                }
            }
            if problem.is_none() {
                if let Some(extra) = lines[k.min(lines.len())..].iter().find(|l| !l.trim().is_empty()) {
                    problem = Some(format!("after the last diagnostic the stream goes on with {extra:?}"));
                }
            }
            if let Some(p) = problem {
                out.violate(format!("c14/{fam}/human/stream-is-not-the-diagnostics-in-order"), format!("{p}\n--- stream ---\n{}\n{}", truncate(&text, 2000), input()));
            }
        }
        for (i, d) in emitted.iter().enumerate() {
            // note messages may also contain line breaks: count notes by the API, lines starting with "note: " >= notes
            if notes_after[i] != d.notes.len() {
                out.violate(format!("c14/{fam}/human/note-count"), format!("{} {}: {} note(s) but {} 'note:' line(s)\n--- stream ---\n{}\n{}", d.level, d.code, d.notes.len(), notes_after[i], truncate(&text, 1500), input()));
            }
            let exp_locs = d.span.is_some() as usize + d.notes.iter().filter(|n| n.1.is_some()).count();
            if locs_after[i] != exp_locs {
                out.violate(format!("c14/{fam}/human/location-lines"), format!("{} {}: expected {} location line(s), found {}\n--- stream ---\n{}\n{}", d.level, d.code, exp_locs, locs_after[i], truncate(&text, 1500), input()));
            }
            if let (Some(f), Some(s)) = (&d.file, &d.span) {
                let want = format!(" --> {}:{}:{}", f, s.sr, s.sc);
                if !text.lines().any(|l| l == want) {
                    out.violate(format!("c14/{fam}/human/location-text"), format!("no line {want:?} in the stream\n--- stream ---\n{}\n{}", truncate(&text, 1500), input()));
                }
            }
        }
    }
}

pub struct Emission {
    pub arity: usize,
    pub all_configs: bool,
    /// restrict to the special sources (for triples)
    pub specials_only: bool,
}
impl Emission {
    fn base(&self) -> u64 {
        if self.specials_only {
            N_SPECIAL as u64
        } else {
            N_SOURCES as u64
        }
    }
    fn decode(&self, idx: u64) -> (Vec<usize>, bool, bool, Config) {
        let ncfg = if self.all_configs { 12 } else { 1 };
        let ci = idx % ncfg;
        let mut r = idx / ncfg;
        let layout_lines = r % 2 == 1;
        r /= 2;
        let two_files = r % 2 == 1;
        r /= 2;
        let mut ks = vec![];
        for _ in 0..self.arity {
            let k = (r % self.base()) as usize;
            ks.push(if self.specials_only { 30 + k } else { k });
            r /= self.base();
        }
        let cfg = if self.all_configs { config(ci) } else { config(idx / 4 + idx) };
        (ks, two_files, layout_lines, cfg)
    }
}
impl Family for Emission {
    fn name(&self) -> String {
        format!("emission/{} of {} diagnostic sources x {{1,2}} files x 2 layouts x {}", ["", "singles", "ordered pairs", "ordered triples"][self.arity], self.base(), if self.all_configs { "12 configurations" } else { "rotating configuration" })
    }
    fn len(&self) -> u64 {
        self.base().pow(self.arity as u32) * 4 * if self.all_configs { 12 } else { 1 }
    }
    fn describe(&self, idx: u64) -> Value {
        let (ks, two, lines, cfg) = self.decode(idx);
        let p = program_of(&ks, two);
        let layout = Layout::uniform(if lines { Sep::Newline } else { Sep::Space }, Commas::None);
        let r = render_program(&p, &layout);
        json!({"sources": ks, "files": r.iter().take(if two { 2 } else { 1 }).map(|x| x.text.clone()).collect::<Vec<_>>(), "argv": cfg.argv()})
    }
    fn run(&self, idx: u64) -> CaseOut {
        let (ks, two, lines, cfg) = self.decode(idx);
        let p = program_of(&ks, two);
        let layout = Layout::uniform(if lines { Sep::Newline } else { Sep::Space }, Commas::None);
        let rendered = render_program(&p, &layout);
        let texts: Vec<String> = rendered.iter().map(|r| r.text.clone()).collect();
        let mut out = CaseOut::new(hash_str(&format!("{texts:?}{cfg:?}")));
        out.validated = 1;
        let input = || format!("argv {:?}\n--- input ---\n{}", cfg.argv(), texts[..texts.len() - 1].join("\n--- next file ---\n"));
        let opts = match SliceOptions::try_parse_from(cfg.argv()) {
            Ok(o) => o,
            Err(e) => {
                out.violate("c14/emission/options-rejected", format!("{:?}: {e}", cfg.argv()));
                return out;
            }
        };
        let c = match compile_rendered(rendered, Some(&opts)) {
            Ok(c) => c,
            Err((loc, msg)) => {
                out.class = "panic".into();
                out.violate(format!("c14/emission/panic@{loc}"), format!("compiling panicked at {loc}: {msg}\n{}", input()));
                return out;
            }
        };
        let Compiled { files, diags, raw_diags, .. } = c;
        let mut buf: Vec<u8> = vec![];
        console::set_colors_enabled(cfg.color);
        console::set_colors_enabled_stderr(cfg.color);
        let r = guarded(|| {
            let mut em = DiagnosticEmitter::new(&mut buf, &opts, &files);
            em.emit_diagnostics(raw_diags).map_err(|e| e.to_string())
        });
        console::set_colors_enabled(false);
        console::set_colors_enabled_stderr(false);
        match r {
            Err((loc, msg)) => {
                out.class = "panic".into();
                out.violate(format!("c14/emission/panic@{loc}"), format!("emitting panicked at {loc}: {msg}\n{}", input()));
                return out;
            }
            Ok(Err(e)) => {
                out.violate("c14/emission/emitter-error", format!("emit_diagnostics failed: {e}\n{}", input()));
                return out;
            }
            Ok(Ok(())) => {}
        }
        let stream = String::from_utf8_lossy(&buf).to_string();
        let shown = diags.iter().filter(|d| d.level != "allowed").count();
        out.nontrivial = shown > 0 && (diags.iter().any(|d| !d.notes.is_empty()) || diags.len() != shown);
        out.class = format!("{}{}:{}shown/{}allowed/{}notes", if cfg.json { "json" } else { "human" }, if cfg.color { "+colour" } else { "" }, shown.min(6), (diags.len() - shown).min(3), diags.iter().map(|d| d.notes.len()).sum::<usize>().min(6));
        out.steps = diags.len() as u64 + 1;
        check_stream(&stream, &diags, &cfg, "emission", &mut out, &input);
        // "in the order it was recorded": what is shown under a suppression is what is shown without it, minus the
        // suppressed entries, in the same order (the order the API returns is compared with the stream above; this
        // compares it with an independent run)
        if cfg.allow != 0 {
            let plain = SliceOptions::try_parse_from(Config { allow: 0, ..cfg }.argv()).expect("options without --allow");
            let rendered2 = render_program(&p, &layout);
            if let Ok(c0) = compile_rendered(rendered2, Some(&plain)) {
                let key = |d: &DiagObs| (d.code.clone(), d.message.clone(), d.file.clone(), d.span);
                let base: Vec<_> = c0.diags.iter().map(key).collect();
                let shown_now: Vec<_> = diags.iter().filter(|d| d.level != "allowed").map(key).collect();
                let mut it = base.iter();
                let in_order = shown_now.iter().all(|k| it.any(|b| b == k));
                if !in_order {
                    out.violate("c14/emission/order-differs-from-the-run-without-the-suppression", format!("shown with the suppression: {:?}\nrecorded without it: {:?}\n{}", shown_now.iter().map(|k| (&k.0, k.3)).collect::<Vec<_>>(), base.iter().map(|k| (&k.0, k.3)).collect::<Vec<_>>(), input()));
                }
            }
        }
        out
    }
}


/// Diagnostics of the parsing phases (they need ill-formed TEXT, which the model cannot print): without a span, at
/// the end of the file, one row past the last line, with user bytes in the message.
pub struct RawSources;
const RAW_TEXTS: [&[&str]; 10] = [
    &["struct S {}\n"],
    &["module M\nstruct S {"],
    &["#if X\nmodule M"],
    &["module M\nstruct \u{e9} {}\n"],
    &["module M\n/* unterminated"],
    &["module M\nstruct S { a: int32 \n"],
    &["module M\nstruct S { a: \"str\\\"ing\" }\n"],
    &["module M\n#if (A &&\nstruct S {}\n#endif\n"],
    &["module M\n/// @bogus \"q\"\nstruct S {}\nstruct T { x y }", "struct Q {}\n/// {@link\ncustom C\n"],
    &["", "module M\n[deprecated] struct D {}\nstruct U { d: D }\n#endif"],
];
impl Family for RawSources {
    fn name(&self) -> String {
        format!("emission/raw sources: {} ill-formed texts (no module: a diagnostic without a span; input ends inside a definition, a directive, a block comment; an error one row past the last line; user bytes in a lexer message; two such files) x 12 configurations", RAW_TEXTS.len())
    }
    fn len(&self) -> u64 {
        RAW_TEXTS.len() as u64 * 12
    }
    fn describe(&self, idx: u64) -> Value {
        json!({"files": RAW_TEXTS[(idx % RAW_TEXTS.len() as u64) as usize], "argv_options": config(idx / RAW_TEXTS.len() as u64).argv()[1..].to_vec()})
    }
    fn run(&self, idx: u64) -> CaseOut {
        let texts = RAW_TEXTS[(idx % RAW_TEXTS.len() as u64) as usize];
        let cfg = config(idx / RAW_TEXTS.len() as u64);
        let mut out = CaseOut::new(hash_str(&format!("c14raw{idx}")));
        out.validated = 1;
        out.nontrivial = true;
        let input = || format!("argv {:?}\n--- input ---\n{}", cfg.argv(), texts.join("\n--- next file ---\n"));
        let opts = match SliceOptions::try_parse_from(cfg.argv()) {
            Ok(o) => o,
            Err(e) => {
                out.violate("c14/emission/options-rejected", format!("{:?}: {e}", cfg.argv()));
                return out;
            }
        };
        let r = guarded(|| {
            let state = slicec::compile_from_strings(texts, Some(&opts));
            let slicec::compilation_state::CompilationState { ast, diagnostics, files } = state;
            let raw = diagnostics.into_updated(&ast, &files, &opts);
            (ast, files, raw)
        });
        let (_ast, files, raw) = match r {
            Ok(x) => x,
            Err((loc, msg)) => {
                out.violate(format!("c14/emission/panic@{loc}"), format!("compiling panicked at {loc}: {msg}\n{}", input()));
                return out;
            }
        };
        let diags: Vec<DiagObs> = raw.iter().map(diag_obs).collect();
        let mut buf: Vec<u8> = vec![];
        console::set_colors_enabled(cfg.color);
        console::set_colors_enabled_stderr(cfg.color);
        let r = guarded(|| {
            let mut em = DiagnosticEmitter::new(&mut buf, &opts, &files);
            em.emit_diagnostics(raw).map_err(|e| e.to_string())
        });
        console::set_colors_enabled(false);
        console::set_colors_enabled_stderr(false);
        match r {
            Err((loc, msg)) => {
                out.violate(format!("c14/emission/panic@{loc}"), format!("emitting panicked at {loc}: {msg}\n{}", input()));
                return out;
            }
            Ok(Err(e)) => {
                out.violate("c14/emission/emitter-error", format!("emit_diagnostics failed: {e}\n{}", input()));
                return out;
            }
            Ok(Ok(())) => {}
        }
        let stream = String::from_utf8_lossy(&buf).to_string();
        if diags.iter().all(|d| d.level != "error") {
            out.violate("c14/emission/raw-source-without-error", format!("an ill-formed text produced no error\n{}", input()));
        }
        out.steps = diags.len() as u64 + 1;
        out.class = format!("{}:{}diags:{}spanless", if cfg.json { "json" } else { "human" }, diags.len().min(6), diags.iter().filter(|d| d.span.is_none()).count().min(3));
        check_stream(&stream, &diags, &cfg, "emission", &mut out, &input);
        out
    }
}

/// Process-level slice: totals on stdout, exit status, span-less diagnostics, hostile file names.
pub struct Binary;
const NAMES: [&str; 6] = ["plain.slice", "with space.slice", "quo\"te.slice", "back\\slash.slice", "ünï 😀.slice", "tab\there.slice"];
impl Family for Binary {
    fn name(&self) -> String {
        "binary/6 file names x 14 program shapes (clean, warnings, errors, notes, missing file, duplicate file, directory, two files, a generator that cannot be started, one that exits 1, a failing generator next to warnings, a generator that writes to its stderr, a healthy generator whose reply carries a diagnostic, a program with 256 errors) x 12 configurations through the real slicec binary".into()
    }
    fn len(&self) -> u64 {
        6 * 14 * 12
    }
    fn hang_secs(&self) -> f64 {
        60.0
    }
    fn describe(&self, idx: u64) -> Value {
        json!({"file_name": NAMES[(idx % 6) as usize], "shape": (idx / 6) % 14, "argv_options": config(idx / 84).argv()[1..].to_vec()})
    }
    fn run(&self, idx: u64) -> CaseOut {
        let name = NAMES[(idx % 6) as usize];
        let shape = (idx / 6) % 14;
        let cfg = config(idx / 84);
        let mut out = CaseOut::new(hash_str(&format!("c14bin{idx}")));
        out.validated = 1;
        out.nontrivial = true;
        let mut sc = Scenario::default();
        let text = match shape {
            0 => "module M\nstruct S {}\n".to_string(),
            1 | 10 => "module M\n[deprecated(\"q\\\"uote\")] struct D {}\nstruct U { d: D }\n/// {@link Nope}\nstruct L {}\n".to_string(),
            8 | 9 | 11 | 12 => "module M\nstruct S {}\n".to_string(),
            2 => "module M\ncompact struct E {}\nstruct F { a: Nope }\n".to_string(),
            // 256 errors: an exit status computed from the count would be 0
            13 => format!("module M\nstruct Many {{\n{}}}\n", (0..256).map(|i| format!("  a{i}: Nope{i}\n")).collect::<String>()),
            3 => "module M\nstruct A { b: B }\nstruct B { a: A }\n".to_string(),
            _ => "module M\n\t[deprecated] struct D {}\n\tstruct U { d: D? }\n".to_string(),
        };
        sc.tree.push((name.to_string(), crate::proc::Node::File(text.into_bytes())));
        let mut argv: Vec<String> = vec![name.to_string()];
        match shape {
            4 => argv.push("missing file.slice".into()),
            5 => argv.push(name.to_string()),
            6 => {
                sc.tree.push(("a dir".into(), crate::proc::Node::Dir));
                argv.push("a dir".into());
            }
            7 => {
                sc.tree.push(("other é.slice".into(), crate::proc::Node::File(b"module O\n/// @bogus\nstruct X { y: M::Nope }\n".to_vec())));
                argv.push("other é.slice".into());
            }
            // diagnostics that come from the generator phase: they are shown, counted and decide the exit status too
            8 => {
                argv.push("-G".into());
                argv.push("{work}/no such generator".into());
            }
            9 | 10 => {
                use crate::proc::{encode_reply, Gen, Install, Script, Step};
                sc.gens.push(Gen { name: "ok".into(), install: Install::Script(Script(vec![Step::ReadAll, Step::Stdout(encode_reply(&[], &[])), Step::Exit(0)])) });
                sc.gens.push(Gen { name: "failing".into(), install: Install::Script(Script(vec![Step::ReadAll, Step::Exit(1)])) });
                argv.extend(["-G".to_string(), "{gen0}".into(), "-G".into(), "{gen1}".into()]);
            }
            11 => {
                use crate::proc::{Gen, Install, Script, Step};
                sc.gens.push(Gen { name: "talks".into(), install: Install::Script(Script(vec![Step::ReadAll, Step::Stderr(b"generator says \"oops\"\n".to_vec()), Step::Exit(0)])) });
                argv.extend(["-G".to_string(), "{gen0}".into()]);
            }
            12 => {
                use crate::proc::{encode_reply, Gen, Install, RDiag, Script, Step};
                let d = RDiag { level: 1, message: "a warning from the generator".into(), source: None };
                sc.gens.push(Gen { name: "warns".into(), install: Install::Script(Script(vec![Step::ReadAll, Step::Stdout(encode_reply(&[], &[d])), Step::Exit(0)])) });
                argv.extend(["-G".to_string(), "{gen0}".into()]);
            }
            _ => {}
        }
        argv.extend(cfg.argv()[1..].iter().cloned());
        // the environment asks for colours in every run: with --disable-color the option must win (stdout AND stderr)
        sc.env.push(("CLICOLOR_FORCE".into(), "1".into()));
        sc.env.push(("NO_COLOR".into(), "".into()));
        sc.argv = argv;
        let obs = run(&sc, Duration::from_secs(20));
        let stderr = String::from_utf8_lossy(&obs.stderr).to_string();
        let stdout = String::from_utf8_lossy(&obs.stdout).to_string();
        let input = || format!("argv {:?}\n--- stderr ---\n{}\n--- stdout ---\n{}", obs.argv, show_bytes(&obs.stderr), show_bytes(&obs.stdout));
        if obs.timed_out || obs.signal.is_some() || obs.panic_location().is_some() {
            out.violate("c14/binary/crash-or-hang", input());
            return out;
        }
        if !cfg.color && (stderr.contains('\u{1b}') || stdout.contains('\u{1b}')) {
            out.violate("c14/binary/escape-sequence-with-colours-disabled", input());
        }
        // VALUES through the binary: the file names of this family (quotes, backslash, tab, non-ASCII) must arrive as
        // they are - in the file of every span, in every location line, in the messages that quote a path
        let known_files = [name, "other é.slice"];
        let mut messages: Vec<String> = vec![];
        let (errors, warnings);
        if cfg.json {
            let mut e = 0;
            let mut w = 0;
            for line in stderr.lines() {
                match serde_json::from_str::<Value>(line) {
                    Ok(v) if v.is_object() => {
                        messages.push(v["message"].as_str().unwrap_or("").to_string());
                        let spans = std::iter::once(&v["span"]).chain(v["notes"].as_array().into_iter().flatten().map(|n| &n["span"]));
                        for sp in spans.filter(|sp| !sp.is_null()) {
                            if !sp["file"].as_str().map_or(false, |f| known_files.contains(&f)) {
                                out.violate("c14/binary/json/file-name-of-a-span", format!("span {sp} names a file that is none of {known_files:?}\n{}", input()));
                            }
                        }
                        let mut keys: Vec<&str> = v.as_object().unwrap().keys().map(|k| k.as_str()).collect();
                        keys.sort();
                        if keys != ["error_code", "message", "notes", "severity", "span"] {
                            out.violate("c14/binary/json/keys", format!("keys {keys:?}\n{}", input()));
                        }
                        match v["severity"].as_str() {
                            Some("error") => e += 1,
                            Some("warning") => w += 1,
                            other => out.violate("c14/binary/json/severity", format!("severity {other:?}\n{}", input())),
                        }
                    }
                    _ if shape == 11 && line.starts_with("generator says") => {
                        out.violate("c14/binary/json/stderr-text-of-a-generator-on-the-diagnostic-stream", format!("line {line:?}\n{}", input()))
                    }
                    _ => out.violate("c14/binary/json/line-does-not-parse", format!("line {line:?}\n{}", input())),
                }
            }
            if shape == 12 && stdout.trim() == "a warning from the generator" {
                out.violate("c14/binary/json/diagnostic-of-a-generator-printed-as-plain-text-on-stdout", input());
            } else if !stdout.trim().is_empty() {
                // the summary is a human-format feature
                out.violate("c14/binary/json/summary-on-stdout", input());
            }
            errors = e;
            warnings = w;
        } else {
            let t = strip_ansi(&stderr);
            errors = t.lines().filter(|l| l.starts_with("error [")).count();
            warnings = t.lines().filter(|l| l.starts_with("warning [")).count();
            messages.extend(t.lines().filter(|l| l.starts_with("error [") || l.starts_with("warning [")).map(|l| l.to_string()));
            for l in t.lines().filter(|l| l.starts_with(" --> ")) {
                let rest = &l[5..];
                let ok = known_files.iter().any(|f| rest.strip_prefix(f).and_then(|r| r.strip_prefix(':')).map_or(false, |rc| rc.split(':').count() == 2 && rc.split(':').all(|x| x.parse::<usize>().is_ok())));
                if !ok {
                    out.violate("c14/binary/human/file-name-of-a-location-line", format!("location line {l:?} does not name one of {known_files:?} followed by :row:column\n{}", input()));
                }
            }
            let so = strip_ansi(&stdout);
            let num_after = |marker: &str| -> Option<usize> { so.lines().find(|l| l.contains(marker)).and_then(|l| l.split(marker).nth(1)).and_then(|r| r.trim().split(' ').next().map(|x| x.to_string())).and_then(|x| x.parse().ok()) };
            let sw = num_after("Compilation generated").unwrap_or(0);
            let se = num_after("Compilation failed with").unwrap_or(0);
            // (the other face of the open finding: in the human format the generator's diagnostic is a bare line on
            // stdout too - shown, but neither styled as a diagnostic nor counted in the summary)
            if shape == 12 && so.lines().any(|l| l.trim() == "a warning from the generator") && sw == warnings {
                out.violate("c14/binary/human/diagnostic-of-a-generator-printed-as-plain-text-and-not-counted", input());
            }
            if sw != warnings || se != errors {
                out.violate("c14/binary/human/summary-counts", format!("summary says {sw} warning(s) / {se} error(s) but {warnings} / {errors} were shown\n{}", input()));
            }
        }
        // a message of several lines is shown with all of them (the text a generator wrote to its stderr is the second
        // line of the error about that generator)
        if shape == 11 {
            let said = "generator says \"oops\"";
            let shown = if cfg.json { messages.iter().any(|m| m.lines().skip(1).any(|l| l == said)) } else { strip_ansi(&stderr).lines().any(|l| l == said) };
            if !shown {
                out.violate("c14/binary/later-lines-of-a-message-missing", format!("the error about the generator must carry what it wrote to its stderr ({said:?}) as a line of its own\n{}", input()));
            }
        }
        // messages that quote a path quote it as it was given
        let quoted = match shape {
            4 => Some("missing file.slice"),
            5 if cfg.allow != 2 => Some(name),
            6 => Some("a dir"),
            _ => None,
        };
        if let Some(q) = quoted {
            // (the JSON value is unescaped by the parser; the human line shows the text as it is)
            if !messages.iter().any(|m| m.contains(q)) {
                out.violate("c14/binary/path-in-a-message", format!("shape {shape}: no message quotes the path {q:?}; messages: {messages:?}\n{}", input()));
            }
        }
        let code = obs.exit_code.unwrap_or(-1);
        if (errors > 0) != (code != 0) {
            out.violate("c14/binary/exit-status", format!("exit status {code} with {errors} error(s) emitted\n{}", input()));
        }
        // expected presence per shape
        let exp_err = matches!(shape, 2 | 3 | 4 | 6 | 7 | 8 | 9 | 10 | 11 | 13);
        if exp_err != (errors > 0) {
            out.violate("c14/binary/expected-errors", format!("shape {shape}: errors expected {exp_err}, {errors} emitted\n{}", input()));
        }
        let lintish = matches!(shape, 1 | 5 | 10) && cfg.allow != 2;
        if lintish && warnings == 0 && !(shape == 5 && cfg.allow == 2) {
            out.violate("c14/binary/expected-warnings", format!("shape {shape}: warnings expected, none emitted\n{}", input()));
        }
        if cfg.allow == 2 && warnings > 0 {
            out.violate("c14/binary/allowed-lint-left-a-trace", format!("--allow All but {warnings} warning(s) emitted\n{}", input()));
        }
        out.class = format!("{}e{}w:exit{}", errors.min(3), warnings.min(3), code);
        out
    }
}


/// The library's exit point (`CompilationState::emit_diagnostics`, what a downstream compiler calls) against the
/// binary's own copy of it: same inputs, same options => the same bytes on both streams and the same verdict.
pub struct ExitPoints;
impl Family for ExitPoints {
    fn name(&self) -> String {
        "exit-points/8 program shapes (clean, warnings, errors, notes, missing file, duplicate file, directory, two files) and the 256-error program x 12 configurations: the binary with --dry-run and a minimal compiler that ends with CompilationState::emit_diagnostics write the same stderr and stdout and agree on failure".into()
    }
    fn len(&self) -> u64 {
        9 * 12
    }
    fn describe(&self, idx: u64) -> Value {
        let shape = [0, 1, 2, 3, 4, 5, 6, 7, 13][(idx % 9) as usize];
        json!({"shape": shape, "argv_options": config(idx / 9).argv()[1..].to_vec()})
    }
    fn run(&self, idx: u64) -> CaseOut {
        let shape = [0u64, 1, 2, 3, 4, 5, 6, 7, 13][(idx % 9) as usize];
        let cfg = config(idx / 9);
        let mut out = CaseOut::new(hash_str(&format!("c14exit{idx}")));
        out.validated = 1;
        out.nontrivial = true;
        // the scenario of the `binary` family with the same shape number (file name 0)
        let build = |subject: Option<&str>| {
            let mut sc = Scenario::default();
            let (text, extra) = binary_shape(shape, "a.slice", &mut sc);
            sc.tree.push(("a.slice".to_string(), crate::proc::Node::File(text.into_bytes())));
            let mut argv: Vec<String> = vec!["a.slice".to_string()];
            argv.extend(extra);
            argv.extend(cfg.argv()[1..].iter().cloned());
            argv.push("--dry-run".into());
            sc.env.push(("CLICOLOR_FORCE".into(), "1".into()));
            sc.env.push(("NO_COLOR".into(), "".into()));
            if let Some(s) = subject {
                sc.env.push(("MC_SUBJECT_BINARY".into(), s.to_string()));
            }
            sc.argv = argv;
            sc
        };
        let a = run(&build(None), Duration::from_secs(20));
        let b = run(&build(Some("emitcs")), Duration::from_secs(20));
        let input = || format!("argv {:?}\n--- slicec: exit {:?} stderr ---\n{}\n--- stdout ---\n{}\n--- library exit point: exit {:?} stderr ---\n{}\n--- stdout ---\n{}", a.argv, a.exit_code, show_bytes(&a.stderr), show_bytes(&a.stdout), b.exit_code, show_bytes(&b.stderr), show_bytes(&b.stdout));
        for o in [&a, &b] {
            if o.timed_out || o.signal.is_some() || o.panic_location().is_some() {
                out.violate("c14/exit-points/crash-or-hang", input());
                return out;
            }
        }
        // (paths differ between the two scratch directories only where a message shows an absolute path: none does)
        if a.stderr != b.stderr {
            out.violate("c14/exit-points/diagnostic-stream-differs", input());
        }
        if a.stdout != b.stdout {
            out.violate("c14/exit-points/summary-differs", input());
        }
        if (a.exit_code == Some(0)) != (b.exit_code == Some(0)) {
            out.violate("c14/exit-points/verdict-differs", input());
        }
        out.class = format!("exit{:?}", a.exit_code);
        out
    }
}

/// Text of the main file and the further arguments of shape `shape` of the `binary` family (shapes without generators).
fn binary_shape(shape: u64, name: &str, sc: &mut Scenario) -> (String, Vec<String>) {
    let text = match shape {
        0 => "module M\nstruct S {}\n".to_string(),
        1 => "module M\n[deprecated(\"q\\\"uote\")] struct D {}\nstruct U { d: D }\n/// {@link Nope}\nstruct L {}\n".to_string(),
        2 => "module M\ncompact struct E {}\nstruct F { a: Nope }\n".to_string(),
        3 => "module M\nstruct A { b: B }\nstruct B { a: A }\n".to_string(),
        13 => format!("module M\nstruct Many {{\n{}}}\n", (0..256).map(|i| format!("  a{i}: Nope{i}\n")).collect::<String>()),
        _ => "module M\n\t[deprecated] struct D {}\n\tstruct U { d: D? }\n".to_string(),
    };
    let mut extra = vec![];
    match shape {
        4 => extra.push("missing file.slice".to_string()),
        5 => extra.push(name.to_string()),
        6 => {
            sc.tree.push(("a dir".into(), crate::proc::Node::Dir));
            extra.push("a dir".into());
        }
        7 => {
            sc.tree.push(("other é.slice".into(), crate::proc::Node::File(b"module O\n/// @bogus\nstruct X { y: M::Nope }\n".to_vec())));
            extra.push("other é.slice".into());
        }
        _ => {}
    }
    (text, extra)
}

/// "Exactly the diagnostics that are not suppressed are written, each once": which ones are suppressed is decided
/// per FILE for a file-level attribute. Three files carry the same kind of lint; every subset of them allows it.
/// The expectation needs no model of the compiler: the lint located in file i is written iff file i does not allow it.
pub struct PerFileSuppression;
const PFS_LINTS: [(&str, &str); 3] = [
    ("Deprecated", "[deprecated] struct Old{I} {}\nstruct Uses{I} { o: Old{I} }\n"),
    ("BrokenDocLink", "/// See {@link Nope{I}}.\nstruct Doc{I} {}\n"),
    ("MalformedDocComment", "/// @bogus{I} x\nstruct Bad{I} {}\n"),
];
const PFS_ORDERS: [[usize; 3]; 6] = [[0, 1, 2], [0, 2, 1], [1, 0, 2], [1, 2, 0], [2, 0, 1], [2, 1, 0]];
impl PerFileSuppression {
    fn build(idx: u64) -> (Vec<String>, Vec<bool>, &'static str, bool, [usize; 3]) {
        let (lint, body) = PFS_LINTS[(idx % 3) as usize];
        let mask = (idx / 3) % 8;
        let json = (idx / 24) % 2 == 1;
        let order = PFS_ORDERS[((idx / 48) % 6) as usize];
        let all = (idx / 288) % 2 == 1;
        let mut texts = vec![];
        let mut allowed = vec![];
        for k in order {
            let a = mask >> k & 1 == 1;
            allowed.push(a);
            let attr = if a { format!("[[allow({})]]\n", if all { "All" } else { lint }) } else { String::new() };
            texts.push(format!("{attr}module F{k}\n{}", body.replace("{I}", &k.to_string())));
        }
        (texts, allowed, lint, json, order)
    }
}
impl Family for PerFileSuppression {
    fn name(&self) -> String {
        "per-file-suppression/three files with the same kind of lint (Deprecated, BrokenDocLink, MalformedDocComment) x every subset of them carrying [[allow(that lint)]] or [[allow(All)]] x all 6 file orders x 2 formats: the lint of file i is written exactly once iff file i does not allow it".into()
    }
    fn len(&self) -> u64 {
        3 * 8 * 2 * 6 * 2
    }
    fn describe(&self, idx: u64) -> Value {
        let (texts, allowed, lint, json, _) = Self::build(idx);
        json!({"lint": lint, "files": texts, "file_allows_it": allowed, "format": if json { "json" } else { "human" }})
    }
    fn run(&self, idx: u64) -> CaseOut {
        let (texts, allowed, lint, json, _) = Self::build(idx);
        let mut out = CaseOut::new(hash_str(&format!("c14pfs{idx}")));
        out.validated = 1;
        out.nontrivial = allowed.iter().any(|a| *a) && !allowed.iter().all(|a| *a);
        let argv: Vec<String> = if json { vec!["slicec".into(), "--diagnostic-format".into(), "json".into(), "--disable-color".into()] } else { vec!["slicec".into(), "--disable-color".into()] };
        let opts = SliceOptions::try_parse_from(argv).expect("options");
        let input = || format!("format {}\n--- input ---\n{}", if json { "json" } else { "human" }, texts.join("\n--- next file ---\n"));
        let refs: Vec<&str> = texts.iter().map(|s| s.as_str()).collect();
        let r = guarded(|| {
            let state = slicec::compile_from_strings(&refs, Some(&opts));
            let slicec::compilation_state::CompilationState { ast, diagnostics, files } = state;
            let raw = diagnostics.into_updated(&ast, &files, &opts);
            let mut buf: Vec<u8> = vec![];
            let res = {
                let mut em = DiagnosticEmitter::new(&mut buf, &opts, &files);
                em.emit_diagnostics(raw).map_err(|e| e.to_string())
            };
            (buf, res)
        });
        let stream = match r {
            Err((loc, msg)) => {
                out.violate(format!("c14/per-file-suppression/panic@{loc}"), format!("{msg}\n{}", input()));
                return out;
            }
            Ok((_, Err(e))) => {
                out.violate("c14/per-file-suppression/emitter-error", format!("{e}\n{}", input()));
                return out;
            }
            Ok((buf, Ok(()))) => String::from_utf8_lossy(&buf).to_string(),
        };
        // reports of that lint per file, read from the STREAM
        let mut per_file = vec![0usize; 3];
        if json {
            for line in stream.lines() {
                if let Ok(v) = serde_json::from_str::<Value>(line) {
                    if v["error_code"].as_str() == Some(lint) {
                        if let Some(i) = v["span"]["file"].as_str().and_then(|f| f.strip_prefix("string-")).and_then(|i| i.parse::<usize>().ok()) {
                            per_file[i.min(2)] += 1;
                        }
                    }
                }
            }
        } else {
            let lines: Vec<&str> = stream.lines().collect();
            for (k, l) in lines.iter().enumerate() {
                if l.starts_with(&format!("warning [{lint}]")) {
                    if let Some(i) = lines.get(k + 1).and_then(|n| n.strip_prefix(" --> string-")).and_then(|r| r.split(':').next()).and_then(|i| i.parse::<usize>().ok()) {
                        per_file[i.min(2)] += 1;
                    }
                }
            }
        }
        for i in 0..3 {
            let want = if allowed[i] { 0 } else { 1 };
            if per_file[i] != want {
                let sig = if allowed[i] { "allowed-lint-left-a-trace" } else if per_file[i] == 0 { "lint-of-a-file-that-does-not-allow-it-is-missing" } else { "lint-written-more-than-once" };
                out.violate(format!("c14/per-file-suppression/{sig}"), format!("file {i} {} {lint}: {} report(s) of it located in that file were written, {want} expected\n--- stream ---\n{}\n{}", if allowed[i] { "allows" } else { "does not allow" }, per_file[i], truncate(&stream, 1200), input()));
                break;
            }
        }
        out.class = format!("{lint}:{}allowed:{}", allowed.iter().filter(|a| **a).count(), if json { "json" } else { "human" });
        out
    }
}

pub fn families(tier: &str) -> Vec<Box<dyn Family>> {
    let quick = tier == "quick";
    let mut v: Vec<Box<dyn Family>> = vec![Box::new(ExitPoints), Box::new(RawSources), Box::new(PerFileSuppression), Box::new(Emission { arity: 1, all_configs: true, specials_only: false }), Box::new(Binary), Box::new(Emission { arity: 2, all_configs: !quick, specials_only: false })];
    if !quick {
        v.push(Box::new(Emission { arity: 3, all_configs: false, specials_only: true }));
    }
    v
}
