//! C13 — lint suppression silences only the named lints in scope, never errors.

use super::PropMeta;
use crate::engine::*;
use crate::model::run::*;
use crate::model::tree::*;
use crate::util::*;
use clap::Parser;
use serde_json::{json, Value};
use slicec::slice_options::SliceOptions;

pub fn meta(m: &mut PropMeta) {
    m.rule = "for each lint kind a template per element kind on which it can arise (Deprecated: field, parameter, return-tuple member, single return, alias, base interface, enumerator field, nested sequence element; BrokenDocLink / IncorrectDocComment / MalformedDocComment: every commentable kind; DuplicateFile: real files given twice) x suppression placement {none, command line, file attribute, enclosing definition, enclosing member, the element itself, an unrelated sibling, another file} x argument {that lint, All, another lint, two lints, that lint in another letter case on the command line} x {alone, next to an error}: complete product, and all ordered pairs of placements with 'that lint' / 'another lint'. Every insertion point is a line of its own so that no position moves. Options are parsed by the real clap definition. Oracle: reference level (Allowed iff named or All by an accepted --allow, by the file of occurrence, by the element concerned or a definition enclosing it; otherwise Warning; the enclosing-member placement is not judged: the statement says 'definition'); differential: with and without the suppression the diagnostic list (codes, messages, spans, notes, order) is identical except for the levels of the targeted lints, the observed AST is identical except for the added allow attribute, a control lint of another kind on an unrelated definition changes only when named at command-line/file level, and errors keep level Error. non-trivial = the suppression is in scope of the lint; distinct = distinct (template, placement, argument) inputs.";
    m.explanation = "complete template x placement x argument product with a reference level function and a differential oracle";
    m.quick_bound = "34 templates x 8 placements x 5 arguments x 2; placement pairs";
    m.thorough_bound = "same (complete)";
}

#[derive(Clone, Copy, Debug, PartialEq, Eq)]
enum Slot {
    File,
    Def,
    Member,
    Elem,
    Sibling,
}

#[derive(Clone, Copy, Debug, PartialEq, Eq)]
enum Place {
    None,
    Cli,
    File,
    Def,
    Member,
    Elem,
    Sibling,
    OtherFile,
}
const PLACES: [Place; 8] = [Place::None, Place::Cli, Place::File, Place::Def, Place::Member, Place::Elem, Place::Sibling, Place::OtherFile];

struct Template {
    lint: &'static str,
    control: &'static str,
    name: &'static str,
    /// lines; a line may be a slot
    lines: Vec<(String, Option<Slot>)>,
}

fn l(s: &str) -> (String, Option<Slot>) {
    (s.to_string(), None)
}
fn slot(s: Slot) -> (String, Option<Slot>) {
    (String::new(), Some(s))
}

fn control_lines(control: &str) -> Vec<(String, Option<Slot>)> {
    match control {
        "BrokenDocLink" => vec![l("/// {@link NopeCtrl}"), l("custom CTRL")],
        "MalformedDocComment" => vec![l("/// @bogus"), l("custom CTRL")],
        _ => unreachable!(),
    }
}

fn templates() -> Vec<Template> {
    let mut v = vec![];
    let mut add = |lint: &'static str, name: &'static str, body: Vec<(String, Option<Slot>)>| {
        let control = if lint == "BrokenDocLink" { "MalformedDocComment" } else { "BrokenDocLink" };
        let mut lines = vec![slot(Slot::File), l("module M"), l("[deprecated] struct D {}"), l("[deprecated(\"old\")] interface DI {}")];
        lines.extend(body);
        lines.extend(control_lines(control));
        v.push(Template { lint, control, name, lines });
    };
    use Slot::*;
    // ---- Deprecated
    add("Deprecated", "field", vec![slot(Def), l("struct S {"), slot(Sibling), l("  s: int32"), slot(Elem), l("  f: D"), l("}")]);
    add("Deprecated", "parameter", vec![slot(Def), l("interface I {"), slot(Sibling), l("  other()"), slot(Member), l("  op("), slot(Elem), l("    p: D"), l("  )"), l("}")]);
    add("Deprecated", "return-tuple-member", vec![slot(Def), l("interface I {"), slot(Sibling), l("  other()"), slot(Member), l("  op() -> ("), slot(Elem), l("    r: D"), l("    q: int32"), l("  )"), l("}")]);
    add("Deprecated", "single-return", vec![slot(Def), l("interface I {"), slot(Sibling), l("  other()"), slot(Elem), l("  op() -> D"), l("}")]);
    // a parameter and a return member of one operation may have the same name (and then the same scoped name): the
    // lint concerns the one whose type is deprecated, the other one is an unrelated sibling
    add("Deprecated", "parameter-named-like-a-return-member", vec![slot(Def), l("interface I {"), slot(Member), l("  op("), slot(Elem), l("    x: D"), l("  ) -> ("), slot(Sibling), l("    x: bool"), l("    y: bool"), l("  )"), l("}")]);
    add("Deprecated", "return-member-named-like-a-parameter", vec![slot(Def), l("interface I {"), slot(Member), l("  op("), slot(Sibling), l("    x: bool"), l("  ) -> ("), slot(Elem), l("    x: D"), l("    y: bool"), l("  )"), l("}")]);
    add("Deprecated", "alias", vec![slot(Sibling), l("struct Sib {}"), slot(Elem), l("typealias A = D")]);
    add("Deprecated", "base-interface", vec![slot(Sibling), l("struct Sib {}"), slot(Elem), l("interface I : DI {}")]);
    add("Deprecated", "enumerator-field", vec![slot(Def), l("enum E {"), slot(Sibling), l("  W"), slot(Member), l("  V("), slot(Elem), l("    f: D"), l("  )"), l("}")]);
    add("Deprecated", "nested-sequence-element", vec![slot(Def), l("struct S {"), slot(Sibling), l("  s: int32"), slot(Elem), l("  f: Sequence<Dictionary<int32, D?>>"), l("}")]);
    // ---- comment lints on every commentable kind
    for (lint, comment) in [("BrokenDocLink", "/// See {@link Nope}."), ("MalformedDocComment", "/// @foo bar"), ("IncorrectDocComment", "/// @returns: nothing")] {
        let c = comment;
        add(lint, "struct", vec![slot(Sibling), l("struct Sib {}"), slot(Elem), l(c), l("struct S {}")]);
        add(lint, "field", vec![slot(Def), l("struct S {"), slot(Sibling), l("  s: int32"), slot(Elem), l(c), l("  f: int32"), l("}")]);
        add(lint, "interface", vec![slot(Sibling), l("struct Sib {}"), slot(Elem), l(c), l("interface I {}")]);
        add(lint, "operation", vec![slot(Def), l("interface I {"), slot(Sibling), l("  other()"), slot(Elem), l(c), l("  op()"), l("}")]);
        add(lint, "enum", vec![slot(Sibling), l("struct Sib {}"), slot(Elem), l(c), l("enum E { A }")]);
        add(lint, "enumerator", vec![slot(Def), l("enum E {"), slot(Sibling), l("  W"), slot(Elem), l(c), l("  V"), l("}")]);
        add(lint, "custom", vec![slot(Sibling), l("struct Sib {}"), slot(Elem), l(c), l("custom C")]);
        add(lint, "alias", vec![slot(Sibling), l("struct Sib {}"), slot(Elem), l(c), l("typealias A = int32")]);
    }
    // the other sites that produce IncorrectDocComment on an operation: a @param without such a parameter, a named
    // @returns on a single return, a @returns naming no member of the return tuple; and a doc comment on the field of an
    // enumerator (a scope four levels deep), links in tag messages and @see
    add("IncorrectDocComment", "operation-param-without-parameter", vec![slot(Def), l("interface I {"), slot(Sibling), l("  other()"), slot(Elem), l("/// @param zz: no such parameter"), l("  op(a: int32)"), l("}")]);
    add("IncorrectDocComment", "operation-named-returns-on-single-return", vec![slot(Def), l("interface I {"), slot(Sibling), l("  other()"), slot(Elem), l("/// @returns named: but the return is unnamed"), l("  op() -> int32"), l("}")]);
    add("IncorrectDocComment", "operation-returns-naming-no-member", vec![slot(Def), l("interface I {"), slot(Sibling), l("  other()"), slot(Elem), l("/// @returns nope: not a member of the tuple"), l("  op() -> (x: int32, y: int32)"), l("}")]);
    add("MalformedDocComment", "enumerator-field", vec![slot(Def), l("enum E {"), slot(Sibling), l("  W"), slot(Member), l("  V("), slot(Elem), l("/// @foo bar"), l("    f: int32"), l("  )"), l("}")]);
    add("BrokenDocLink", "link-in-a-param-message", vec![slot(Def), l("interface I {"), slot(Sibling), l("  other()"), slot(Elem), l("/// @param a: see {@link Nope}"), l("  op(a: int32)"), l("}")]);
    add("BrokenDocLink", "see-tag", vec![slot(Sibling), l("struct Sib {}"), slot(Elem), l("/// @see Nope"), l("struct S {}")]);
    // links to things that exist but cannot be linked to (a primitive, a module): the same lint, reported on another path
    add("BrokenDocLink", "link-to-a-primitive", vec![slot(Sibling), l("struct Sib {}"), slot(Elem), l("/// See {@link bool}."), l("struct S {}")]);
    add("BrokenDocLink", "link-to-a-module-on-a-field", vec![slot(Def), l("struct S {"), slot(Sibling), l("  s: int32"), slot(Elem), l("/// See {@link M}."), l("  f: int32"), l("}")]);
    add("BrokenDocLink", "see-a-module-on-an-operation", vec![slot(Def), l("interface I {"), slot(Sibling), l("  other()"), slot(Elem), l("/// @see M"), l("  op()"), l("}")]);
    // ONE element that owns two lints of different kinds (the second is of the control's kind and says "Companion"): a
    // suppression on the element that names one of them says nothing about the other
    add("Deprecated", "field-with-a-broken-link-too", vec![slot(Def), l("struct S {"), slot(Sibling), l("  s: int32"), slot(Elem), l("/// See {@link NopeCompanion}."), l("  f: D"), l("}")]);
    add("Deprecated", "alias-with-a-broken-link-too", vec![slot(Sibling), l("struct Sib {}"), slot(Elem), l("/// See {@link NopeCompanion}."), l("typealias A = D")]);
    v
}

#[derive(Clone, Debug, PartialEq, Eq)]
enum Arg {
    That,
    All,
    Other,
    Two,
    /// only meaningful on the command line
    ThatLowercase,
}
const ARGS: [Arg; 5] = [Arg::That, Arg::All, Arg::Other, Arg::Two, Arg::ThatLowercase];

fn arg_text(a: &Arg, t: &Template) -> Vec<String> {
    match a {
        Arg::That => vec![t.lint.to_string()],
        Arg::All => vec!["All".to_string()],
        Arg::Other => vec![t.control.to_string()],
        Arg::Two => vec![t.control.to_string(), t.lint.to_string()],
        Arg::ThatLowercase => vec![t.lint.to_lowercase()],
    }
}
fn names(a: &Arg, code: &str, t: &Template) -> bool {
    match a {
        Arg::That => code == t.lint,
        Arg::All => true,
        Arg::Other => code == t.control,
        Arg::Two => code == t.lint || code == t.control,
        // the statement: named by an --allow value that the command line accepts
        Arg::ThatLowercase => code == t.lint,
    }
}

struct Rendered {
    files: Vec<String>,
    cli: Vec<String>,
}

/// `err`: 0 = no error anywhere; 1 = a validation error in the lint's file; errors of the PARSING phases in the other
/// file: 2 = a syntax error, 3 = definitions without a module, 4 = a preprocessor error; rule violations that the
/// PARSER reports itself, in the lint's own file (the file is syntactically valid, its attributes apply): 5 = a tag
/// out of range, 6 = a return tuple of one; 7 = the other file re-declares everything the templates declare (same
/// scoped names, members included) and then has a syntax error: discarding it must leave the first file's elements
/// findable
fn render(t: &Template, places: &[(Place, Arg)], err: u8) -> Rendered {
    let mut text = String::new();
    for (line, s) in &t.lines {
        match s {
            None => text.push_str(line),
            Some(sl) => {
                for (p, a) in places {
                    let hit = matches!((p, sl), (Place::File, Slot::File) | (Place::Def, Slot::Def) | (Place::Member, Slot::Member) | (Place::Elem, Slot::Elem) | (Place::Sibling, Slot::Sibling));
                    if hit {
                        let args = arg_text(a, t).join(", ");
                        if *sl == Slot::File {
                            text.push_str(&format!("[[allow({args})]]"));
                        } else {
                            text.push_str(&format!("[allow({args})]"));
                        }
                    }
                }
            }
        }
        text.push('\n');
    }
    if err == 1 {
        text.push_str("compact struct BAD {}\n");
    }
    if err == 5 {
        text.push_str("struct BAD5 { tag(-1) x: int32? }\n");
    }
    if err == 6 {
        text.push_str("interface BAD6 { op() -> (a: int32) }\n");
    }
    let mut other = String::new();
    for (p, a) in places {
        if *p == Place::OtherFile {
            other.push_str(&format!("[[allow({})]]", arg_text(a, t).join(", ")));
        }
    }
    // the other file has lints of its own, one of every kind (they are reported in different phases of the
    // compilation): only the command line and ITS file-level attribute may silence them
    match err {
        3 => other.push_str("\nstruct Q {}\n"),
        4 => other.push_str("\n#if\nmodule X\n#endif\n"),
        _ => other.push_str("\nmodule N\nstruct Z {}\n[deprecated] struct OldN {}\nstruct UsesN { o: OldN }\n/// {@link NopeN}\ncustom CN\n/// @bogusN\ncustom DN\n/// @param q: none\nstruct EN {}\n"),
    }
    if err == 2 {
        other.push_str("struct T { x y }\n");
    }
    if err == 7 {
        other = other.replace("\nmodule N\n", "\nmodule M\n");
        other.push_str("struct S { s: int32 f: int32 }\ninterface I { other() op(p: int32 x: int32) -> (r: int32 q: int32 y: int32) }\nenum E { W V(f: int32) }\ncustom C\ntypealias A = int32\nstruct Sib {}\nstruct D {}\ninterface DI {}\ncustom CTRL\nstruct T { x y }\n");
    }
    let mut cli = vec![];
    for (p, a) in places {
        if *p == Place::Cli {
            for x in arg_text(a, t) {
                cli.push("-A".to_string());
                cli.push(x);
            }
        }
    }
    Rendered { files: vec![text, other], cli }
}

fn has_slot(t: &Template, s: Slot) -> bool {
    t.lines.iter().any(|(_, x)| *x == Some(s))
}

fn place_exists(t: &Template, p: Place) -> bool {
    match p {
        Place::Def => has_slot(t, Slot::Def),
        Place::Member => has_slot(t, Slot::Member),
        Place::Sibling => has_slot(t, Slot::Sibling),
        _ => true,
    }
}

/// Some(true/false) = the reference says in scope / not in scope of the target lint; None = not judged
fn in_scope_target(p: Place) -> Option<bool> {
    match p {
        Place::None | Place::Sibling | Place::OtherFile => Some(false),
        Place::Cli | Place::File | Place::Def | Place::Elem => Some(true),
        Place::Member => None,
    }
}
fn in_scope_control(p: Place) -> bool {
    matches!(p, Place::Cli | Place::File)
}

fn strip_allow(n: &mut Node) {
    n.children.retain(|c| !((c.kind == "attr" || c.kind == "fileattr") && c.get("directive") == Some("allow")));
    for c in &mut n.children {
        strip_allow(c);
    }
}

fn strip_spans_nothing(_: &mut Node) {}

fn run_config(t: &Template, places: &[(Place, Arg)], with_error: u8, swap: bool, fam: &str, out: &mut CaseOut) -> String {
    let _ = strip_spans_nothing;
    let mut base = render(t, &[], with_error);
    let mut with = render(t, places, with_error);
    if swap {
        // the file with the lint is the SECOND file of the compilation, the unrelated one the first
        base.files.reverse();
        with.files.reverse();
    }
    let desc = || format!("template {}/{} places {:?} error={} files-swapped={}\n--- file 0 ---\n{}--- file 1 ---\n{}--- argv: {:?}", t.lint, t.name, places, with_error, swap, with.files[0], with.files[1], with.cli);
    // options through the real command-line definition
    let mut argv = vec!["slicec".to_string()];
    argv.extend(with.cli.iter().cloned());
    let opts = match guarded(|| SliceOptions::try_parse_from(argv.clone())) {
        Err((loc, msg)) => {
            out.violate(format!("c13/{fam}/panic@{loc}"), format!("parsing {argv:?} panicked: {msg}"));
            return "panic".into();
        }
        Ok(Err(_)) => return "cli-rejected".into(), // a value the command line does not accept is not a suppression
        Ok(Ok(o)) => o,
    };
    let base_opts = SliceOptions::default();
    let compile = |files: &Vec<String>, o: &SliceOptions| {
        let refs: Vec<&str> = files.iter().map(|s| s.as_str()).collect();
        compile_texts(&refs, Some(o))
    };
    out.steps += 2;
    let (b, w) = match (compile(&base.files, &base_opts), compile(&with.files, &opts)) {
        (Ok(b), Ok(w)) => (b, w),
        (Err((loc, msg)), _) | (_, Err((loc, msg))) => {
            out.violate(format!("c13/{fam}/panic@{loc}"), format!("panic at {loc}: {msg}\n{}", desc()));
            return "panic".into();
        }
    };
    // keep the ASTs alive: the files point into them
    let (_bast, bfiles, bd) = b;
    let (_wast, wfiles, wd) = w;
    // template sanity: the baseline produces the target lint as a warning
    let other_file = format!("string-{}", if swap { 0 } else { 1 });
    let target_base: Vec<&DiagObs> = bd.iter().filter(|d| d.code == t.lint && d.file.as_deref() != Some(other_file.as_str())).collect();
    if target_base.is_empty() && with_error >= 2 {
        // the other file does not parse: lints of the later phases are not produced at all
        return "n/a-lint-of-a-later-phase".into();
    }
    if target_base.is_empty() || target_base.iter().any(|d| d.level != "warning") {
        out.violate(format!("c13/{fam}/lint-not-reported-as-warning/{}", t.lint), format!("without any suppression the {} lint of this template must be a warning; diagnostics: {:?}\n{}", t.lint, bd.iter().map(|d| (&d.code, &d.level)).collect::<Vec<_>>(), desc()));
        return "no-lint".into();
    }
    // 1. identical diagnostic list except for levels
    let strip = |d: &DiagObs| (d.code.clone(), d.message.clone(), d.file.clone(), d.span, d.notes.clone());
    let bl: Vec<_> = bd.iter().map(strip).collect();
    let wl: Vec<_> = wd.iter().map(strip).collect();
    if bl != wl {
        let first = bl.iter().zip(wl.iter()).position(|(a, b)| a != b).unwrap_or(bl.len().min(wl.len()));
        out.violate(
            format!("c13/{fam}/other-diagnostics-changed"),
            format!("adding the suppression changed more than levels: diagnostic #{first}: without {:?}, with {:?} ({} vs {} diagnostics)\n{}", bl.get(first), wl.get(first), bl.len(), wl.len(), desc()),
        );
        return "diags-changed".into();
    }
    // 2. levels
    let mut class = String::new();
    for (i, d) in wd.iter().enumerate() {
        let base_level = &bd[i].level;
        if d.level == "error" || base_level == "error" {
            if d.level != *base_level {
                out.violate(format!("c13/{fam}/error-level-changed"), format!("{} changed level {} -> {}\n{}", d.code, base_level, d.level, desc()));
            }
            continue;
        }
        if d.file.as_deref() == Some(other_file.as_str()) {
            // a lint of the other file: silenced iff the command line or that file's own attribute names it
            let exp = places.iter().any(|(p, a)| matches!(p, Place::Cli | Place::OtherFile) && names(a, &d.code, t) && !(*a == Arg::ThatLowercase && *p != Place::Cli));
            let got = d.level == "allowed";
            // a file that does not parse has no attributes: its own file-level attribute is not judged then
            let unjudged = matches!(with_error, 2 | 4 | 7) && places.iter().any(|(p, a)| *p == Place::OtherFile && names(a, &d.code, t)) && !places.iter().any(|(p, a)| *p == Place::Cli && names(a, &d.code, t));
            if exp != got && !unjudged {
                let pl: Vec<String> = places.iter().map(|(p, a)| format!("{p:?}:{a:?}")).collect();
                out.violate(
                    format!("c13/{fam}/{}/lint-of-the-other-file/{}", if exp { "not-silenced" } else { "wrongly-silenced" }, pl.join("+")),
                    format!("lint {} ({}) of the other file has level {} but the suppressions {:?} {} it\n{}", d.code, d.message, d.level, places, if exp { "name" } else { "are out of scope of or do not name" }, desc()),
                );
            }
            continue;
        }
        let is_target = d.code == t.lint;
        // (a lint of the control's KIND that sits on the target element - its message says "Companion" - is in scope
        // of exactly the placements the target is in scope of)
        let is_companion = d.code == t.control && d.message.contains("Companion");
        let is_control = d.code == t.control && !is_companion;
        let mut expected_allowed: Option<bool> = Some(false);
        for (p, a) in places {
            if !names(a, &d.code, t) {
                continue;
            }
            if *a == Arg::ThatLowercase && *p != Place::Cli {
                continue; // only judged on the command line (in an attribute it is an invalid argument: an error)
            }
            let sc = if is_target || is_companion {
                in_scope_target(*p)
            } else if is_control {
                Some(in_scope_control(*p))
            } else {
                None
            };
            match sc {
                Some(true) => expected_allowed = Some(true),
                Some(false) => {}
                None => {
                    if expected_allowed != Some(true) {
                        expected_allowed = None
                    }
                }
            }
        }
        if let Some(exp) = expected_allowed {
            let got = d.level == "allowed";
            if exp != got {
                let which = if is_target { "target" } else { "control" };
                let pl: Vec<String> = places.iter().map(|(p, a)| format!("{p:?}:{a:?}")).collect();
                out.violate(
                    format!("c13/{fam}/{}/{}/{}", if exp { "not-silenced" } else { "wrongly-silenced" }, which, pl.join("+")),
                    format!("{} lint {} ({}) has level {} but the suppression {:?} {} it\n{}", which, d.code, d.message, d.level, places, if exp { "is in scope and names" } else { "is out of scope of or does not name" }, desc()),
                );
            }
        }
        if is_target {
            class.push_str(if d.level == "allowed" { "A" } else { "W" });
        }
    }
    // 3. AST identical except for the attribute itself
    for i in 0..bfiles.len() {
        let (Ok(mut bo), Ok(mut wo)) = (guarded(|| crate::model::observe::file(&bfiles[i])), guarded(|| crate::model::observe::file(&wfiles[i]))) else { continue };
        strip_allow(&mut bo);
        strip_allow(&mut wo);
        if bo != wo {
            let d = diff(&bo, &wo);
            out.violate(format!("c13/{fam}/ast-changed"), format!("adding the suppression changed the AST of file {i} beyond the attribute itself: {:?}\n{}", d.map(|d| (d.path_named, d.expected, d.observed)), desc()));
        }
    }
    class
}

pub struct Product {
    ts: Vec<Template>,
}
impl Product {
    pub fn new() -> Self {
        Product { ts: templates() }
    }
}
impl Family for Product {
    fn name(&self) -> String {
        format!("single-placement/{} templates x 8 placements x 5 arguments x {{alone, next to a validation error, next to a file with a syntax error / without a module / with a preprocessor error, next to a rule violation reported by the parser itself (tag out of range, return tuple of one) in the same file}} x {{lint in the first file, in the second file}}", self.ts.len())
    }
    fn len(&self) -> u64 {
        self.ts.len() as u64 * 8 * 5 * 8 * 2
    }
    fn describe(&self, idx: u64) -> Value {
        let (t, p, a, e) = self.decode(idx % (self.len() / 2));
        let r = render(t, &[(p, a.clone())], e);
        json!({"lint": t.lint, "element": t.name, "placement": format!("{p:?}"), "argument": format!("{a:?}"), "files": r.files, "argv": r.cli, "files_given_in_reverse_order": idx >= self.len() / 2})
    }
    fn run(&self, idx: u64) -> CaseOut {
        let swap = idx >= self.len() / 2;
        let (t, p, a, e) = self.decode(idx % (self.len() / 2));
        let mut out = CaseOut::new(hash_str(&format!("c13p{idx}")));
        out.steps = 0;
        out.validated = 1;
        if !place_exists(t, p) || (a == Arg::ThatLowercase && p != Place::Cli) {
            out.class = "n/a".into();
            return out;
        }
        out.nontrivial = in_scope_target(p) == Some(true);
        out.class = format!("{:?}:{}", p, run_config(t, &[(p, a)], e, swap, "single", &mut out));
        out
    }
}
impl Product {
    fn decode(&self, idx: u64) -> (&Template, Place, Arg, u8) {
        let e = (idx % 8) as u8;
        let a = ARGS[((idx / 8) % 5) as usize].clone();
        let p = PLACES[((idx / 40) % 8) as usize];
        let t = &self.ts[(idx / 320) as usize];
        (t, p, a, e)
    }
}

pub struct PlacementPairs {
    ts: Vec<Template>,
}
impl PlacementPairs {
    pub fn new() -> Self {
        PlacementPairs { ts: templates() }
    }
    fn decode(&self, idx: u64) -> (&Template, (Place, Arg), (Place, Arg)) {
        let args = [Arg::That, Arg::Other, Arg::All];
        let a2 = args[(idx % 3) as usize].clone();
        let a1 = args[((idx / 3) % 3) as usize].clone();
        let p2 = PLACES[1 + ((idx / 9) % 7) as usize];
        let p1 = PLACES[1 + ((idx / 63) % 7) as usize];
        let t = &self.ts[(idx / 441) as usize];
        (t, (p1, a1), (p2, a2))
    }
}
impl Family for PlacementPairs {
    fn name(&self) -> String {
        format!("placement-pairs/{} templates x 7x7 placements (also the same placement twice: two attributes on one element) x 3x3 arguments", self.ts.len())
    }
    fn len(&self) -> u64 {
        self.ts.len() as u64 * 441
    }
    fn describe(&self, idx: u64) -> Value {
        let (t, a, b) = self.decode(idx);
        let r = render(t, &[a.clone(), b.clone()], 0);
        json!({"lint": t.lint, "element": t.name, "placements": format!("{a:?} + {b:?}"), "files": r.files, "argv": r.cli})
    }
    fn run(&self, idx: u64) -> CaseOut {
        let (t, a, b) = self.decode(idx);
        let mut out = CaseOut::new(hash_str(&format!("c13pp{idx}")));
        out.steps = 0;
        out.validated = 1;
        // (equal placements: two allow attributes on ONE element / file, two -A options; the same argument twice is the
        // single placement again)
        if !place_exists(t, a.0) || !place_exists(t, b.0) || (a.0 == b.0 && a.1 == b.1) {
            out.class = "n/a".into();
            return out;
        }
        out.nontrivial = in_scope_target(a.0) == Some(true) || in_scope_target(b.0) == Some(true);
        out.class = run_config(t, &[a, b], 0, idx % 2 == 1, "pairs", &mut out);
        out
    }
}

/// DuplicateFile: a command-line-only lint; real files given twice through compile_from_options.
pub struct DuplicateFile;
const DF_ARGS: [&[&str]; 8] = [&[], &["DuplicateFile"], &["All"], &["Deprecated"], &["duplicatefile"], &["ALL"], &["Deprecated", "DuplicateFile"], &["BrokenDocLink", "MalformedDocComment"]];
impl Family for DuplicateFile {
    fn name(&self) -> String {
        "duplicate-file/8 --allow lists x {source twice, reference twice, both} on real files".into()
    }
    fn len(&self) -> u64 {
        DF_ARGS.len() as u64 * 3
    }
    fn workers(&self) -> Option<usize> {
        Some(4)
    }
    fn describe(&self, idx: u64) -> Value {
        let shapes = ["a.slice a.slice", "a.slice -R b.slice -R b.slice", "a.slice a.slice -R b.slice -R b.slice -R a.slice"];
        json!({"allow": DF_ARGS[(idx / 3) as usize], "shape": shapes[(idx % 3) as usize]})
    }
    fn run(&self, idx: u64) -> CaseOut {
        let allow = DF_ARGS[(idx / 3) as usize];
        let shape = idx % 3;
        let mut out = CaseOut::new(hash_str(&format!("c13df{idx}")));
        out.validated = 1;
        out.nontrivial = !allow.is_empty();
        let dir = std::env::temp_dir().join(format!("mc-c13-{}-{}", std::process::id(), idx));
        let _ = std::fs::remove_dir_all(&dir);
        std::fs::create_dir_all(&dir).unwrap();
        let a = dir.join("a.slice");
        let b = dir.join("b.slice");
        std::fs::write(&a, "module A\n[deprecated] struct D {}\nstruct U { d: D }\n").unwrap();
        std::fs::write(&b, "module B\nstruct Z {}\n").unwrap();
        let (a, b) = (a.display().to_string(), b.display().to_string());
        let mut argv: Vec<String> = vec!["slicec".into()];
        let expected_dups = match shape {
            0 => {
                argv.extend([a.clone(), a.clone()]);
                1
            }
            1 => {
                argv.extend([a.clone(), "-R".into(), b.clone(), "-R".into(), b.clone()]);
                1
            }
            _ => {
                argv.extend([a.clone(), a.clone(), "-R".into(), b.clone(), "-R".into(), b.clone(), "-R".into(), a.clone()]);
                2
            }
        };
        for x in allow {
            argv.push("-A".into());
            argv.push(x.to_string());
        }
        let r = guarded(|| {
            let opts = SliceOptions::try_parse_from(argv.clone()).map_err(|e| e.to_string())?;
            let state = slicec::compile_from_options(&opts);
            let slicec::compilation_state::CompilationState { ast, diagnostics, files } = state;
            Ok::<_, String>(diagnostics.into_updated(&ast, &files, &opts).iter().map(diag_obs).collect::<Vec<_>>())
        });
        let _ = std::fs::remove_dir_all(&dir);
        match r {
            Err((loc, msg)) => out.violate(format!("c13/duplicate-file/panic@{loc}"), format!("{argv:?}: panic {msg}")),
            Ok(Err(e)) => out.violate("c13/duplicate-file/cli-rejected", format!("{argv:?} rejected: {e}")),
            Ok(Ok(diags)) => {
                let named = |code: &str| allow.iter().any(|x| x.eq_ignore_ascii_case("All") || x.eq_ignore_ascii_case(code));
                let dups: Vec<_> = diags.iter().filter(|d| d.code == "DuplicateFile").collect();
                out.class = format!("dups={} levels={:?}", dups.len(), diags.iter().map(|d| d.level.chars().next().unwrap()).collect::<String>());
                if dups.len() != expected_dups {
                    out.violate("c13/duplicate-file/lint-count", format!("{argv:?}: expected {expected_dups} DuplicateFile lint(s), got {}", dups.len()));
                }
                for d in &diags {
                    if d.level == "error" {
                        out.violate("c13/duplicate-file/unexpected-error", format!("{argv:?}: {} {}", d.code, d.message));
                        continue;
                    }
                    let exp = if named(&d.code) { "allowed" } else { "warning" };
                    if d.level != exp {
                        out.violate(format!("c13/duplicate-file/{}/{}", if exp == "allowed" { "not-silenced" } else { "wrongly-silenced" }, d.code), format!("{argv:?}: {} has level {} but must be {exp}", d.code, d.level));
                    }
                }
                if !diags.iter().any(|d| d.code == "Deprecated") {
                    out.violate("c13/duplicate-file/control-lint-missing", format!("{argv:?}: the Deprecated control lint disappeared"));
                }
            }
        }
        out
    }
}


/// Process level: the same product (single placements, arguments {that lint, All, another lint}) through the real
/// binary with a capturing generator, once without and once with the suppression: the exit status is the same,
/// the error reports are the same, no warning other than the named lint(s) disappears and none appears, the
/// generator runs in both runs or in neither, and the request it receives differs only by the allow attribute.
pub struct BinaryDifferential {
    ts: Vec<Template>,
}
impl BinaryDifferential {
    pub fn new() -> Self {
        BinaryDifferential { ts: templates() }
    }
    fn decode(&self, idx: u64) -> (&Template, Place, Arg, u8) {
        let e = (idx % 5) as u8;
        let a = [Arg::That, Arg::All, Arg::Other][((idx / 5) % 3) as usize].clone();
        let p = PLACES[1 + ((idx / 15) % 7) as usize];
        let t = &self.ts[(idx / 105) as usize];
        (t, p, a, e)
    }
}
struct BinRun {
    exit: Option<i32>,
    errors: Vec<String>,
    warnings: Vec<String>,
    request: Option<Vec<u8>>,
    crashed: bool,
    stderr: String,
}
fn run_binary_c13(r: &Rendered) -> BinRun {
    use crate::proc::{encode_reply, run, split_request, Gen, Install, Node as PNode, Scenario, Script, Step};
    let mut sc = Scenario::default();
    // (the name of the first file is the END of the name of the second, and of its path: a file is found by its name,
    // not by a part of it)
    sc.tree.push(("data.slice".into(), PNode::File(r.files[0].as_bytes().to_vec())));
    sc.tree.push(("sub/metadata.slice".into(), PNode::File(r.files[1].as_bytes().to_vec())));
    sc.gens.push(Gen { name: "capture".into(), install: Install::Script(Script(vec![Step::ReadAll, Step::Stdout(encode_reply(&[], &[])), Step::Exit(0)])) });
    sc.argv = vec!["data.slice".into(), "sub/metadata.slice".into(), "--disable-color".into(), "-G".into(), "{gen0}".into()];
    sc.argv.extend(r.cli.iter().cloned());
    let o = run(&sc, std::time::Duration::from_secs(30));
    let stderr = o.stderr_text();
    // a report = its header line and the location line that follows it
    let mut errors = vec![];
    let mut warnings = vec![];
    let lines: Vec<&str> = stderr.lines().collect();
    for (i, l) in lines.iter().enumerate() {
        let loc = lines.get(i + 1).filter(|n| n.starts_with(" --> ")).copied().unwrap_or("");
        if l.starts_with("error [") {
            errors.push(format!("{l} {loc}"));
        } else if l.starts_with("warning [") {
            warnings.push(format!("{l} {loc}"));
        }
    }
    let request = o.gens.get(0).and_then(|g| g.stdin.clone()).and_then(|s| split_request(&s, &[]).map(|r| r.to_vec()));
    BinRun { exit: o.exit_code, errors, warnings, request, crashed: o.timed_out || o.signal.is_some() || o.panic_location().is_some(), stderr }
}
impl Family for BinaryDifferential {
    fn name(&self) -> String {
        format!("binary-differential/{} templates x 7 placements x 3 arguments x {{alone, next to a validation error, next to a file with a syntax error / without a module / with a preprocessor error}} through the real binary with a capturing generator, without and with the suppression", self.ts.len())
    }
    fn len(&self) -> u64 {
        self.ts.len() as u64 * 105
    }
    fn hang_secs(&self) -> f64 {
        120.0
    }
    fn describe(&self, idx: u64) -> Value {
        let (t, p, a, e) = self.decode(idx);
        let r = render(t, &[(p, a.clone())], e);
        json!({"lint": t.lint, "element": t.name, "placement": format!("{p:?}"), "argument": format!("{a:?}"), "files": r.files, "argv": r.cli, "next_to_an_error": e})
    }
    fn run(&self, idx: u64) -> CaseOut {
        let (t, p, a, e) = self.decode(idx);
        let mut out = CaseOut::new(hash_str(&format!("c13bin{idx}")));
        out.steps = 0;
        out.validated = 1;
        if !place_exists(t, p) {
            out.class = "n/a".into();
            return out;
        }
        let fam = "c13/binary";
        let base_r = render(t, &[], e);
        let with_r = render(t, &[(p, a.clone())], e);
        let b = run_binary_c13(&base_r);
        let w = run_binary_c13(&with_r);
        out.steps = 2;
        out.nontrivial = in_scope_target(p) == Some(true);
        let desc = || format!("template {}/{} place {:?} arg {:?} error={}\n--- file 0 ---\n{}--- file 1 ---\n{}--- argv: {:?}\n--- stderr without ---\n{}\n--- stderr with ---\n{}", t.lint, t.name, p, a, e, with_r.files[0], with_r.files[1], with_r.cli, truncate(&b.stderr, 700), truncate(&w.stderr, 700));
        if b.crashed || w.crashed {
            out.violate(format!("{fam}/crash-or-hang"), desc());
            return out;
        }
        if b.exit != w.exit {
            out.violate(format!("{fam}/exit-status-changed"), format!("exit status {:?} without, {:?} with the suppression\n{}", b.exit, w.exit, desc()));
        }
        if b.errors != w.errors {
            out.violate(format!("{fam}/error-reports-changed"), format!("errors without: {:?}\nerrors with: {:?}\n{}", b.errors, w.errors, desc()));
        }
        // warnings: nothing new; what disappeared is a lint the argument names
        let code_of = |l: &str| l.split('[').nth(1).and_then(|r| r.split(']').next()).unwrap_or("").to_string();
        let mut remaining = b.warnings.clone();
        for wl in &w.warnings {
            match remaining.iter().position(|x| x == wl) {
                Some(i) => {
                    remaining.remove(i);
                }
                None => out.violate(format!("{fam}/new-warning-appeared"), format!("{wl}\n{}", desc())),
            }
        }
        for gone in &remaining {
            if !names(&a, &code_of(gone), t) {
                out.violate(format!("{fam}/unnamed-warning-disappeared"), format!("{gone}\n{}", desc()));
            }
        }
        // a file-level attribute is about ITS file: one on the first file changes no report located in the second, and
        // allow(All) on the second file (when it parses) leaves no warning located there
        let in_other = |l: &String| l.contains(" --> sub/metadata.slice:");
        if p == Place::File {
            let (bo, wo): (Vec<&String>, Vec<&String>) = (b.warnings.iter().filter(|l| in_other(l)).collect(), w.warnings.iter().filter(|l| in_other(l)).collect());
            if bo != wo {
                out.violate(format!("{fam}/file-attribute-of-another-file-applied"), format!("the attribute is on data.slice, but the warnings located in sub/metadata.slice changed: {bo:?} -> {wo:?}\n{}", desc()));
            }
        }
        if p == Place::OtherFile && a == Arg::All && e <= 1 {
            if let Some(l) = w.warnings.iter().find(|l| in_other(l)) {
                out.violate(format!("{fam}/file-attribute-not-applied-to-its-own-file"), format!("sub/metadata.slice carries [[allow(All)]] but a warning located in it is still written: {l}\n{}", desc()));
            }
        }
        // generator: both or neither; request differs by the allow attribute only
        match (&b.request, &w.request) {
            (None, None) => {}
            (Some(rb), Some(rw)) => {
                if p == Place::Cli && rb != rw {
                    out.violate(format!("{fam}/request-changed-by-a-command-line-option"), desc());
                }
                match (super::c08::decode_request(rb), super::c08::decode_request(rw)) {
                    (Ok((s1, r1)), Ok((s2, r2))) => {
                        let norm = |v: Vec<Node>| {
                            v.into_iter()
                                .map(|mut n| {
                                    strip_allow(&mut n);
                                    n
                                })
                                .collect::<Vec<_>>()
                        };
                        let (before, after) = ((norm(s1), norm(r1)), (norm(s2), norm(r2)));
                        if before != after {
                            let d = before.0.iter().chain(before.1.iter()).zip(after.0.iter().chain(after.1.iter())).find_map(|(x, y)| diff(x, y));
                            out.violate(format!("{fam}/request-changed-beyond-the-attribute"), format!("{:?}\n{}", d.map(|d| (d.path_named, d.expected, d.observed)), desc()));
                        }
                    }
                    (Err(e), _) | (_, Err(e)) => out.violate(format!("{fam}/request-undecodable"), format!("{e}\n{}", desc())),
                }
            }
            _ => out.violate(format!("{fam}/generation-happens-in-one-run-only"), format!("generator ran without the suppression: {}, with: {}\n{}", b.request.is_some(), w.request.is_some(), desc())),
        }
        out.class = format!("{p:?}:exit{:?}:{}->{}warnings", w.exit, b.warnings.len(), w.warnings.len());
        out
    }
}


/// A parameter and a return member of one operation that have the SAME name (and so the same scoped name) and BOTH a
/// deprecated type: each of the two lints is governed by the attribute on its own member, whatever the other one carries.
pub struct SameNameBothDeprecated;
const SN_ATTRS: [&str; 5] = ["", "[allow(Deprecated)]", "[allow(All)]", "[allow(BrokenDocLink)]", "[allow(BrokenDocLink, Deprecated)]"];
impl Family for SameNameBothDeprecated {
    fn name(&self) -> String {
        "same-name-both-deprecated/a parameter and a return member named alike, both of a deprecated type: 5 x 5 attribute assignments x attribute on the operation x 2 file orders x a third like-named member in another operation".into()
    }
    fn len(&self) -> u64 {
        5 * 5 * 3 * 2
    }
    fn describe(&self, idx: u64) -> Value {
        json!({"files": Self::texts(idx)})
    }
    fn run(&self, idx: u64) -> CaseOut {
        let texts = Self::texts(idx);
        let mut out = CaseOut::new(hash_str(&format!("snbd{idx}")));
        out.validated = 1;
        out.nontrivial = true;
        let d = decode_index(idx, &[5, 5, 3, 2]);
        let (pa, ra, oa) = (d[0] as usize, d[1] as usize, d[2] as usize);
        let refs: Vec<&str> = texts.iter().map(|s| s.as_str()).collect();
        let ctx = || texts.join("--- next file ---\n");
        let (_ast, _files, diags) = match compile_texts(&refs, None) {
            Ok(x) => x,
            Err((loc, msg)) => {
                out.violate(format!("c13/same-name/panic@{loc}"), format!("panic at {loc}: {msg}\n{}", ctx()));
                return out;
            }
        };
        let silences = |a: usize| matches!(a, 1 | 2 | 4);
        let op_silences = oa != 0;
        // rows of the main file (see `texts`): parameter x on row 6, return member x on row 9, the other operation's x on row 14
        let main = if d[3] == 1 { "string-1" } else { "string-0" };
        for (what, row, exp_allowed) in [("parameter", 6usize, silences(pa) || op_silences), ("return member", 9, silences(ra) || op_silences), ("parameter of the other operation", 14, false)] {
            let hits: Vec<&DiagObs> = diags.iter().filter(|d| d.code == "Deprecated" && d.file.as_deref() == Some(main) && d.span.map_or(false, |s| s.sr == row)).collect();
            if hits.len() != 1 {
                out.violate("c13/same-name/lint-missing-or-repeated", format!("{} Deprecated lint(s) on row {row} ({what}); diagnostics {:?}\n{}", hits.len(), diags.iter().map(|d| (&d.code, &d.level, d.span.map(|s| s.sr))).collect::<Vec<_>>(), ctx()));
                continue;
            }
            let got = hits[0].level == "allowed";
            if got != exp_allowed {
                out.violate(
                    format!("c13/same-name/{}/{}", if exp_allowed { "not-silenced" } else { "wrongly-silenced" }, what.split(' ').next().unwrap()),
                    format!("the Deprecated lint of the {what} (row {row}) has level {} but the attributes on its own member / its operation {} it\n{}", hits[0].level, if exp_allowed { "allow" } else { "do not allow" }, ctx()),
                );
            }
        }
        if diags.iter().any(|d| d.level == "error") {
            out.violate("c13/same-name/error", format!("{:?}\n{}", diags.iter().map(|d| (&d.code, &d.level)).collect::<Vec<_>>(), ctx()));
        }
        out.class = format!("p{pa}r{ra}o{oa}");
        out
    }
}
impl SameNameBothDeprecated {
    fn texts(idx: u64) -> Vec<String> {
        let d = decode_index(idx, &[5, 5, 3, 2]);
        let op_attr = ["", "[allow(Deprecated)]", "[allow(All)]"][d[2] as usize];
        let main = format!(
            "module M\n[deprecated] struct D {{}}\ninterface I {{\n{op_attr}\n  op(\n    {}x: D\n    w: bool\n  ) -> (\n    {}x: D\n    y: bool\n  )\n\n  other(\n    x: D\n  )\n}}\n",
            SN_ATTRS[d[0] as usize], SN_ATTRS[d[1] as usize]
        );
        let other = "module N\nstruct Z {}\n".to_string();
        if d[3] == 1 {
            vec![other, main]
        } else {
            vec![main, other]
        }
    }
}

/// An `allow` attribute with several arguments of which some are not lint names: every such argument is an error of
/// its own, and the lints that the OTHER arguments name are silenced all the same, wherever they stand in the list.
pub struct InvalidNamesInTheList;
const INL_LISTS: [(&str, usize); 8] = [
    ("MalformedDocComment", 0),
    ("Bogus, MalformedDocComment", 1),
    ("MalformedDocComment, Bogus", 1),
    ("Nope1, Nope2, MalformedDocComment", 2),
    ("Nope1, MalformedDocComment, Nope2", 2),
    ("deprecated, MalformedDocComment", 1),
    ("DuplicateFile2, All", 1),
    ("Bogus", 1),
];
impl Family for InvalidNamesInTheList {
    fn name(&self) -> String {
        format!("invalid-names-in-the-list/{} argument lists of an allow attribute (0..2 names that are no lints before, after or around the name that matters) x {{file attribute, attribute on the element}} x 2 formats of the lint (a malformed doc comment: the lint the parser itself reports)", INL_LISTS.len())
    }
    fn len(&self) -> u64 {
        INL_LISTS.len() as u64 * 2
    }
    fn describe(&self, idx: u64) -> Value {
        json!({"file": Self::text(idx).0})
    }
    fn run(&self, idx: u64) -> CaseOut {
        let (text, n_invalid, names_it) = Self::text(idx);
        let mut out = CaseOut::new(hash_str(&format!("c13inl{idx}")));
        out.validated = 1;
        out.nontrivial = n_invalid > 0;
        match compile_texts(&[&text], None) {
            Err((loc, msg)) => out.violate(format!("c13/invalid-names-in-the-list/panic@{loc}"), format!("{msg}\n--- input ---\n{text}")),
            Ok((_, _, diags)) => {
                let errors = diags.iter().filter(|d| d.level == "error").count();
                let lint: Vec<&DiagObs> = diags.iter().filter(|d| d.code == "MalformedDocComment").collect();
                if errors != n_invalid {
                    out.violate("c13/invalid-names-in-the-list/one-error-per-invalid-name", format!("{n_invalid} argument(s) of the attribute are no lint names but {errors} error(s) were reported: {:?}\n--- input ---\n{text}", diags.iter().map(|d| (&d.code, &d.level, &d.message)).collect::<Vec<_>>()));
                }
                let want = if names_it { "allowed" } else { "warning" };
                if lint.len() != 1 || lint[0].level != want {
                    out.violate(format!("c13/invalid-names-in-the-list/{}", if names_it { "named-lint-not-silenced" } else { "unnamed-lint-silenced" }), format!("the MalformedDocComment lint must have level {want}: {:?}\n--- input ---\n{text}", lint.iter().map(|d| &d.level).collect::<Vec<_>>()));
                }
                out.class = format!("{n_invalid}invalid:{}", lint.first().map_or("none", |d| d.level.as_str()));
            }
        }
        out
    }
}
impl InvalidNamesInTheList {
    fn text(idx: u64) -> (String, usize, bool) {
        let (list, n_invalid) = INL_LISTS[(idx % INL_LISTS.len() as u64) as usize];
        let names_it = list.contains("MalformedDocComment") || list.contains("All");
        let text = if idx / INL_LISTS.len() as u64 == 0 {
            format!("[[allow({list})]]\nmodule M\n/// @foo bar\nstruct S {{}}\n")
        } else {
            format!("module M\n[allow({list})]\n/// @foo bar\nstruct S {{}}\n")
        };
        (text, n_invalid, names_it)
    }
}

pub fn families(_tier: &str) -> Vec<Box<dyn Family>> {
    vec![Box::new(DuplicateFile), Box::new(InvalidNamesInTheList), Box::new(Product::new()), Box::new(BinaryDifferential::new()), Box::new(PlacementPairs::new()), Box::new(SameNameBothDeprecated)]
}
