//! C09 — reported locations point at the right source text (positions recorded by the printer are the
//! expected spans; relations are taken from the statement, not from slicec's current span conventions).

use super::PropMeta;
use crate::engine::*;
use crate::model::print::*;
use crate::model::run::*;
use crate::model::tree::*;
use crate::util::*;
use serde_json::Value;

pub fn meta(m: &mut PropMeta) {
    m.rule = "the C02 program x layout families (tabs, CRLF, blank lines, multi-byte characters in comments and string arguments before elements on the same line, preprocessor lines before/between definitions, preludes present/absent, every optional keyword present/absent); every Symbol of the observed AST whose source tokens are known from the printer is one obligation: inside the file, start <= end, 1-based character counts; identifier span == its spelling (with or without the escaping backslash); type-reference span ends at its last token and starts at its first token (with or without its local attributes); attribute span == directive + arguments; definition/member/parameter/return/enumerator/operation span starts at the first token of the declaration proper, contains the name, ends at the end of a token of that element; doc-comment parts lie within the comment's lines. Plus the diagnostic catalogue family: every diagnostic's span lies inside the offending element known to the injector, and the human-readable snippet shows the right line number and underlines exactly the spanned columns (tabs, CRLF, non-ASCII). steps = obligations checked; non-trivial = the layout is not plain single spaces or the element has a prelude/modifier.";
    m.explanation = "bounded-exhaustive program x layout enumeration; expected positions come from the printer that produced the text";
    m.quick_bound = "as C02 quick";
    m.thorough_bound = "as C02 thorough";
}

pub struct Positions {
    pub inner: Box<dyn ProgFamily>,
}

fn le(a: Loc, b: Loc) -> bool {
    (a.row, a.col) <= (b.row, b.col)
}

struct Ctx<'a> {
    r: &'a Rendered,
    nrows: usize,
    fam: &'a str,
    out: &'a mut CaseOut,
    file: usize,
    obligations: u64,
}

impl<'a> Ctx<'a> {
    fn fail(&mut self, e: &Node, o: &Node, which: &str, detail: String) {
        let p = e.pos.as_ref().unwrap();
        let first_tok = &self.r.toks[p.first].text;
        let first_class = if crate::model::ast::KEYWORDS.contains(&first_tok.as_str()) { first_tok.clone() } else if first_tok.starts_with("///") { "doc".into() } else if first_tok.chars().next().map_or(false, |c| c.is_ascii_alphabetic() || c == '\\') { "identifier".into() } else { first_tok.clone() };
        let prev_class = if p.first == 0 { "start-of-file".to_string() } else { let t = &self.r.toks[p.first - 1].text; if t.starts_with("///") { "doc".into() } else if t.starts_with('#') { "directive".into() } else if t.chars().all(|c| !c.is_ascii_alphanumeric()) { t.clone() } else { "word".into() } };
        let sp = o.span.unwrap();
        let (a, b) = (self.r.tok_pos[p.first].0, self.r.tok_pos[p.last].1);
        self.out.violate(
            format!("c09/span/{}/{which}/first={first_class}/after={prev_class}", e.kind),
            format!(
                "file {}: {} {}: span {}:{}..{}:{} but its tokens {:?}..{:?} occupy {}:{}..{}:{} ({detail})\n--- input ---\n{}",
                self.file, e.kind, e.label(), sp.sr, sp.sc, sp.er, sp.ec, self.r.toks[p.first].text, self.r.toks[p.last].text, a.row, a.col, b.row, b.col, self.r.text
            ),
        );
    }

    fn walk(&mut self, e: &Node, o: &Node, doc_range: Option<(Loc, Loc)>) {
        let mut doc_range = doc_range;
        if let Some(sp) = o.span {
            let s = Loc { row: sp.sr, col: sp.sc };
            let t = Loc { row: sp.er, col: sp.ec };
            if let Some(p) = &e.pos {
                self.obligations += 1;
                let first = self.r.tok_pos[p.first];
                let last = self.r.tok_pos[p.last];
                if !le(s, t) {
                    self.fail(e, o, "start-after-end", "start > end".into());
                } else if s.row < 1 || s.col < 1 || t.row > self.nrows + 1 {
                    self.fail(e, o, "outside-file", format!("file has {} rows", self.nrows));
                } else {
                    match &p.rule {
                        PosRule::Exact => {
                            if s != first.0 {
                                self.fail(e, o, "start", "must start at its first token".into());
                            } else if t != last.1 {
                                self.fail(e, o, "end", "must end at the end of its last token".into());
                            }
                        }
                        PosRule::Identifier { escaped } => {
                            let alt = Loc { row: first.0.row, col: first.0.col + 1 };
                            if !(s == first.0 || (*escaped && s == alt)) {
                                self.fail(e, o, "start", "an identifier's span covers exactly its spelling".into());
                            } else if t != last.1 {
                                self.fail(e, o, "end", "an identifier's span covers exactly its spelling".into());
                            }
                        }
                        PosRule::TypeRef { after_attrs } => {
                            let alt = self.r.tok_pos[*after_attrs].0;
                            if !(s == first.0 || s == alt) {
                                self.fail(e, o, "start", "a type reference's span covers exactly the type expression".into());
                            } else if t != last.1 {
                                self.fail(e, o, "end", "a type reference's span covers exactly the type expression".into());
                            }
                        }
                        PosRule::Decl => {
                            if s != first.0 {
                                self.fail(e, o, "start", "must start at the first token of the declaration proper".into());
                            } else if !(p.first..=p.last).any(|i| self.r.tok_pos[i].1 == t) {
                                self.fail(e, o, "end", "must end on a token of the element".into());
                            } else if let Some(nm) = p.name {
                                let np = self.r.tok_pos[nm];
                                if !(le(s, np.0) && le(np.1, t)) {
                                    self.fail(e, o, "name-not-included", "must include its name".into());
                                }
                            }
                        }
                        PosRule::Within => {
                            // a comment line ends at its line feed: with CRLF line ends the carriage return is part of it
                            let slack = if self.r.text.contains("\r\n") { 1 } else { 0 };
                            let end = Loc { row: last.1.row, col: last.1.col + slack };
                            if !(le(first.0, s) && le(t, end)) {
                                self.fail(e, o, "outside", "must lie within its lines".into());
                            }
                            doc_range = Some((first.0, end));
                        }
                    }
                }
            } else if let Some((a, b)) = doc_range {
                // parts of a doc comment lie within that comment's lines
                self.obligations += 1;
                // ... and within the text of the lines they start and end on (columns count characters)
                let slack = if self.r.text.contains("\r\n") { 1 } else { 0 };
                let line_len = |row: usize| self.r.text.split('\n').nth(row - 1).map(|l| l.trim_end_matches('\r').chars().count()).unwrap_or(0);
                if s.row >= 1 && t.row >= 1 && (s.col > line_len(s.row) + 1 + slack || t.col > line_len(t.row) + 1 + slack) {
                    let sig = format!("c09/span/doc-part/{}/beyond-the-end-of-its-line", o.kind);
                    self.out.violate(sig, format!("file {}: {} span {}:{}..{}:{} but line {} has {} characters and line {} has {}\n--- input ---\n{}", self.file, o.kind, s.row, s.col, t.row, t.col, s.row, line_len(s.row), t.row, line_len(t.row), self.r.text));
                }
                if !(le(a, s) && le(t, b) && le(s, t)) {
                    let sig = format!("c09/span/doc-part/{}/outside-comment", o.kind);
                    self.out.violate(sig, format!("file {}: {} span {}:{}..{}:{} lies outside its doc comment {}:{}..{}:{}\n--- input ---\n{}", self.file, o.kind, s.row, s.col, t.row, t.col, a.row, a.col, b.row, b.col, self.r.text));
                }
            }
        }
        if e.children.len() == o.children.len() {
            // the parts of a doc comment each lie within THEIR lines: the overview within the lines before the first
            // tag line, a tag within its head line and the continuation lines up to the next tag line
            let mut block_of_child: Vec<Option<(Loc, Loc)>> = vec![None; e.children.len()];
            // (a comment whose lines are interleaved with attributes has other tokens between its lines: skipped here)
            if let (true, Some(raw), Some(p)) = (e.kind == "doc" && e.pos.as_ref().map_or(false, |p| e.raw_doc.as_ref().map_or(false, |r| p.last + 1 - p.first == r.len())), &e.raw_doc, &e.pos) {
                let slack = if self.r.text.contains("\r\n") { 1 } else { 0 };
                let is_tag = |l: &String| l.trim_start().starts_with('@');
                let first_tag = raw.iter().position(is_tag).unwrap_or(raw.len());
                // (keyword, first line, last line) of every tag block, in source order
                let mut blocks: Vec<(String, usize, usize)> = vec![];
                let mut i = first_tag;
                while i < raw.len() {
                    let mut end = i + 1;
                    while end < raw.len() && !is_tag(&raw[end]) {
                        end += 1;
                    }
                    let kw: String = raw[i].trim_start().chars().skip(1).take_while(|c| c.is_ascii_alphabetic()).collect();
                    blocks.push((kw, i, end - 1));
                    i = end;
                }
                let range = |a: usize, b: usize| -> (Loc, Loc) {
                    let last = self.r.tok_pos[p.first + b].1;
                    (self.r.tok_pos[p.first + a].0, Loc { row: last.row, col: last.col + slack })
                };
                let mut used = vec![false; blocks.len()];
                for (ci, c) in e.children.iter().enumerate() {
                    let want = match c.kind {
                        "overview" => {
                            if first_tag > 0 {
                                block_of_child[ci] = Some(range(0, first_tag - 1));
                            }
                            continue;
                        }
                        "param-tag" => "param",
                        "returns-tag" => "returns",
                        "see-tag" => "see",
                        _ => continue,
                    };
                    if let Some(bi) = (0..blocks.len()).find(|bi| !used[*bi] && blocks[*bi].0 == want) {
                        used[bi] = true;
                        block_of_child[ci] = Some(range(blocks[bi].1, blocks[bi].2));
                    }
                }
            }
            for (ci, (ec, oc)) in e.children.iter().zip(o.children.iter()).enumerate() {
                if ec.kind == oc.kind {
                    if let (Some((a, b)), Some(sp)) = (block_of_child[ci], oc.span) {
                        let (s, t) = (Loc { row: sp.sr, col: sp.sc }, Loc { row: sp.er, col: sp.ec });
                        self.obligations += 1;
                        if !(le(a, s) && le(t, b)) {
                            let sig = format!("c09/span/doc-part/{}/outside-its-own-lines", oc.kind);
                            self.out.violate(sig, format!("file {}: {} span {}:{}..{}:{} but its lines occupy {}:{}..{}:{}\n--- input ---\n{}", self.file, oc.kind, s.row, s.col, t.row, t.col, a.row, a.col, b.row, b.col, self.r.text));
                        }
                    }
                    self.walk(ec, oc, block_of_child[ci].or(doc_range));
                }
            }
        }
    }
}

impl Family for Positions {
    fn name(&self) -> String {
        self.inner.name()
    }
    fn len(&self) -> u64 {
        self.inner.len()
    }
    fn describe(&self, idx: u64) -> Value {
        describe_case(&self.inner.get(idx))
    }
    fn run(&self, idx: u64) -> CaseOut {
        let case = self.inner.get(idx);
        let fam = self.inner.name();
        let fam = fam.split('/').next().unwrap().to_string();
        let rendered = render_program(&case.program, &case.layout);
        let mut out = CaseOut::new(case_hash(&rendered));
        out.validated = 1;
        out.nontrivial = case.layout.sep != Sep::Space || case.layout.per_gap.is_some();
        let keep = rendered.clone();
        match compile_rendered(rendered, None) {
            Err((loc, _)) => {
                out.class = format!("panic@{loc}"); // C01/C02 report crashes; positions cannot be checked
            }
            Ok(c) => {
                if !c.errors().is_empty() {
                    out.class = "rejected".into(); // C02's business
                    return out;
                }
                let mut total = 0;
                for (i, r) in keep.iter().enumerate() {
                    let Ok(o) = guarded(|| crate::model::observe::file(&c.files[i])) else { continue };
                    if diff(&r.tree, &o).is_some() {
                        continue; // shape differs: C02 reports it; positions are checked on matching trees only
                    }
                    let nrows = r.text.matches('\n').count() + 1;
                    let mut ctx = Ctx { r, nrows, fam: &fam, out: &mut out, file: i, obligations: 0 };
                    ctx.walk(&r.tree, &o, None);
                    let _ = ctx.fam;
                    total += ctx.obligations;
                }
                out.steps = total;
                out.class = format!("checked:{}-obligations", (total / 20) * 20);
                let mut seen = std::collections::HashSet::new();
                out.violations.retain(|v| seen.insert(v.sig.clone()));
            }
        }
        out
    }
}


// ---------------------------------------------------------------------------------------------------------------
// Doc comments with non-ASCII text in front of their links and tags, in every commentable position.

const NA_COMMENTS: [&[&str]; 12] = [
    &[" Größe des Würfels."],
    &[" Über {@link IS} tail"],
    &[" 日本語 {@link IS::f} と {@link IE::EA}"],
    &[" é {@link IS}"],
    &[" Ünï {@link Nope} broken"],
    &[" first line", " zweite Zeile mit Ümläuten {@link OS} end", " third"],
    &[" Overview ö.", " @see IS"],
    &[" Ö", " @param a: größer {@link IE} ä", " @returns x: ß {@link IS}"],
    &[" @param a: 😀 {@link IC}", "   weiter geht’s {@link IA}"],
    &["\u{3000}全角 {@link IS}", "\u{3000}次の行 {@link Missing}"],
    &[" plain ascii {@link IS} then ü {@link IE}"],
    &[" ü", " @see Nope"],
];

pub struct NonAsciiDocs;
impl crate::model::run::ProgFamily for NonAsciiDocs {
    fn name(&self) -> String {
        format!("doc-comments-with-non-ascii-text/{} comments (non-ASCII text before links, tags and line ends) x 11 positions x 4 layouts", NA_COMMENTS.len())
    }
    fn len(&self) -> u64 {
        NA_COMMENTS.len() as u64 * 11 * 4
    }
    fn get(&self, idx: u64) -> PCase {
        let layout = [Sep::Space, Sep::Newline, Sep::CrLf, Sep::Tab][(idx % 4) as usize];
        let pos = ((idx / 4) % 11) as usize;
        let lines: Vec<String> = NA_COMMENTS[(idx / 44) as usize].iter().map(|s| s.to_string()).collect();
        PCase { program: super::c16::place_doc(pos, &lines, idx % 8 >= 4), layout: Layout::uniform(layout, Commas::None), label: format!("non-ascii doc comment {} at position {pos}", idx / 44), may_warn: true }
    }
}

// ---------------------------------------------------------------------------------------------------------------
// Diagnostics: span inside the offending element; snippet shows the right line number and underlines exactly the
// spanned columns (tabs, CRLF, non-ASCII).

use super::c14::{diag_source, N_SOURCES};
use crate::model::ast::MFile;
use crate::model::rules;
use slicec::diagnostic_emitter::DiagnosticEmitter;
use slicec::slice_options::SliceOptions;

pub struct DiagnosticSpans {
    /// 1 = single diagnostic sources, 2 = ordered pairs, 0 = the cross-file catalogue (notes that point into another file)
    pub arity: usize,
}
const N_CROSS: u64 = 12;
/// leading blank lines of the row-shifted family (arity 3): multi-line spans then cross rows 9 -> 10 and 99 -> 100
const LEADS: [usize; 22] = [0, 1, 2, 3, 4, 5, 6, 7, 8, 9, 10, 11, 12, 93, 94, 95, 96, 97, 98, 99, 100, 101];
const NEWLINES: &str = "\n\n\n\n\n\n\n\n\n\n\n\n\n\n\n\n\n\n\n\n\n\n\n\n\n\n\n\n\n\n\n\n\n\n\n\n\n\n\n\n\n\n\n\n\n\n\n\n\n\n\n\n\n\n\n\n\n\n\n\n\n\n\n\n\n\n\n\n\n\n\n\n\n\n\n\n\n\n\n\n\n\n\n\n\n\n\n\n\n\n\n\n\n\n\n\n\n\n\n\n\n\n\n\n";

/// Programs over two files of one module whose diagnostics carry notes that point into the OTHER file.
fn cross_file_program(k: u64) -> (MFile, MFile) {
    use crate::model::ast::*;
    let mut f = MFile::module("M");
    let mut g = MFile::module("M");
    let i32t = || MType::prim("int32");
    // padding, so that the same row / column means different text in the two files
    f.defs.push(st("PadF", vec![MField::new("x", i32t())]));
    g.defs.push(custom("PadG"));
    g.defs.push(en("PadE", Some(MType::prim("uint8")), vec![enumerator("A"), enumerator("B")]));
    match k {
        0 => {
            f.defs.push(st("Thing", vec![MField::new("a", MType::prim("bool"))]));
            g.defs.push(st("Thing", vec![]));
        }
        1 => {
            f.defs.push(custom("Thing"));
            g.defs.push(iface("Thing", vec![], vec![]));
        }
        2 => {
            f.defs.push(iface("A", vec![], vec![op("o", vec![], MRet::None)]));
            g.defs.push(iface("I", vec![MType::named("A")], vec![op("o", vec![MParam::new("p", i32t())], MRet::None)]));
        }
        3 => {
            f.defs.push(iface("A", vec![], vec![op("o", vec![], MRet::None)]));
            f.defs.push(iface("B", vec![MType::named("A")], vec![]));
            g.defs.push(iface("I", vec![MType::named("B")], vec![op("x", vec![], MRet::None), op("o", vec![], MRet::None)]));
        }
        4 => {
            f.defs.push(st("S", vec![MField::new("t", MType::named("T"))]));
            g.defs.push(st("T", vec![MField::new("s", MType::named("S"))]));
        }
        5 => {
            f.defs.push(st("S", vec![MField::new("t", MType::seq(MType::named("T")).opt()), MField::new("u", MType::named("T"))]));
            g.defs.push(st("T", vec![MField::new("e", MType::named("E"))]));
            g.defs.push(en("E", None, vec![MEnumerator { c: MCommon::new("V"), fields: Some(vec![MField::new("s", MType::named("S"))]), value: None }]));
        }
        6 => {
            let mut d = st("Old", vec![]);
            *d.common_mut() = d.common().clone().attr(MAttr::with("deprecated", vec![MArg::Str("gone".into())]));
            f.defs.push(d);
            g.defs.push(st("U", vec![MField::new("o", MType::named("Old")), MField::new("p", MType::seq(MType::named("Old")))]));
        }
        7 => {
            f.defs.push(alias("Al", i32t()));
            g.defs.push(alias("Al", MType::prim("string")));
            g.defs.push(st("Al", vec![]));
        }
        8 => {
            f.defs.push(iface("I", vec![MType::named("J")], vec![]));
            g.defs.push(iface("J", vec![MType::named("I")], vec![]));
        }
        9 => {
            f.defs.push(alias("A1", MType::named("A2")));
            g.defs.push(alias("A2", MType::named("A1")));
        }
        10 => {
            f.defs.push(en("E", None, vec![enumerator("A")]));
            g.defs.push(en("E", Some(MType::prim("uint8")), vec![enumerator("A")]));
            g.defs.push(st("UsesE", vec![MField::new("d", MType::dict(MType::named("E"), i32t()))]));
        }
        _ => {
            // three definitions of one name: two notes-bearing diagnostics, first definition in the other file
            f.defs.push(st("Thing", vec![]));
            g.defs.push(custom("Thing"));
            g.defs.push(alias("Thing", i32t()));
        }
    }
    (f, g)
}
const DIAG_LAYOUTS: [Sep; 7] = [Sep::Space, Sep::Newline, Sep::Tab, Sep::CrLf, Sep::MultiByteComment, Sep::BlankLinesIndent, Sep::MultiByteLines];

fn visual(chars: &[char], n: usize) -> usize {
    (0..n).map(|i| if chars.get(i) == Some(&'\t') { 4 } else { 1 }).sum()
}

/// extent (first token incl. prelude, last token) of top-level definition `di` of a rendered file
fn def_extent(r: &Rendered, di: usize) -> Option<(Loc, Loc)> {
    let defs: Vec<&Node> = r.tree.children.iter().filter(|c| !matches!(c.kind, "fileattr" | "module")).collect();
    let d = defs.get(di)?;
    fn min_first(n: &Node, m: &mut usize) {
        if let Some(p) = &n.pos {
            *m = (*m).min(p.first);
        }
        for c in &n.children {
            min_first(c, m);
        }
    }
    let mut first = usize::MAX;
    min_first(d, &mut first);
    let last = d.pos.as_ref()?.last;
    Some((r.tok_pos[first].0, r.tok_pos[last].1))
}


/// Codes whose message quotes the identifier of the element the diagnostic is about (established on the catalogue:
/// for every other code the quoted name is, or may be, another element - a deprecated type, the first definition).
const NAMES_ITS_PLACE: [&str; 13] = ["E007", "E008", "E009", "E011", "E012", "E013", "E016", "E019", "E020", "E035", "E036", "E037", "IncorrectDocComment"];

/// (code, start of the note's shape) of notes that quote the identifier of the element they point at
const NOTE_NAMES_ITS_PLACE: [(&str, &str); 7] = [
    ("E010", "'_'was previously defined"),
    ("E011", "'_'was previously defined"),
    ("E012", "The tag'_'is already being'_'"),
    ("E015", "struct'_'is declared compact"),
    ("E022", "the value was'_'here:"),
    ("IncorrectDocComment", "'_'is a struct"),
    ("IncorrectDocComment", "operation'_'returns a single"),
];

/// If the first line of `message` quotes identifiers and exactly one named element of the file carries one of them:
/// the extent (first token .. last token) of that element.
fn named_element_extent(r: &Rendered, message: &str) -> Option<(Loc, Loc)> {
    let first_line = message.lines().next().unwrap_or("");
    let mut names: Vec<&str> = vec![];
    let mut rest = first_line;
    while let Some(a) = rest.find('\'') {
        let after = &rest[a + 1..];
        let Some(b) = after.find('\'') else { break };
        let q = &after[..b];
        if !q.is_empty() && q.chars().all(|c| c.is_alphanumeric() || c == '_' || c == ':') {
            names.push(q.rsplit("::").next().unwrap_or(q));
        }
        rest = &after[b + 1..];
    }
    if names.is_empty() {
        return None;
    }
    fn collect<'a>(n: &'a Node, names: &[&str], out: &mut Vec<&'a Node>) {
        if matches!(n.kind, "field" | "param" | "ret" | "operation" | "enumerator" | "struct" | "interface" | "enum" | "custom" | "alias") && n.get("id").map_or(false, |id| names.contains(&id)) {
            out.push(n);
        }
        for c in &n.children {
            collect(c, names, out);
        }
    }
    let mut hits = vec![];
    collect(&r.tree, &names, &mut hits);
    if hits.len() != 1 {
        return None;
    }
    fn min_first(n: &Node, m: &mut usize) {
        if let Some(p) = &n.pos {
            *m = (*m).min(p.first);
        }
        for c in &n.children {
            min_first(c, m);
        }
    }
    let mut first = usize::MAX;
    min_first(hits[0], &mut first);
    let last = hits[0].pos.as_ref()?.last;
    Some((r.tok_pos[first].0, r.tok_pos[last].1))
}

impl Family for DiagnosticSpans {
    fn name(&self) -> String {
        if self.arity == 3 {
            return format!("diagnostic-spans-and-snippets/row-shifted: 4 sources with spans over several lines behind {} numbers of leading blank lines (the spans cross rows 9 -> 10 and 99 -> 100: the width of the line-number gutter changes inside the snippet)", LEADS.len());
        }
        if self.arity == 0 {
            return format!("diagnostic-spans-and-snippets/cross-file notes: {N_CROSS} programs over two files of one module whose diagnostics carry notes into the other file (redefinitions, redeclared inherited operations, containment / inheritance / alias cycles, deprecated uses) x both file orders x 7 layouts");
        }
        format!("diagnostic-spans-and-snippets/{} of {} diagnostic sources x 7 layouts (tabs, CRLF, multi-byte comments, one token per line, non-ASCII text on every line of multi-line spans)", ["", "singles", "ordered pairs"][self.arity], N_SOURCES)
    }
    fn len(&self) -> u64 {
        if self.arity == 0 {
            return N_CROSS * 2 * 7;
        }
        if self.arity == 3 {
            return 4 * LEADS.len() as u64;
        }
        (N_SOURCES as u64).pow(self.arity as u32) * 7
    }
    fn describe(&self, idx: u64) -> Value {
        let (p, layout, ks) = self.decode(idx);
        let r = render_program(&p, &layout);
        serde_json::json!({"sources": ks, "layout": layout.describe(), "file": r[0].text, "files": r.iter().map(|x| x.text.clone()).collect::<Vec<_>>()})
    }
    fn run(&self, idx: u64) -> CaseOut {
        let (p, layout, ks) = self.decode(idx);
        let rendered = render_program(&p, &layout);
        let mut out = CaseOut::new(case_hash(&rendered));
        out.validated = 1;
        out.nontrivial = true;
        let keep = rendered.clone();
        let violations = rules::check(&p);
        let c = match compile_rendered(rendered, None) {
            Ok(c) => c,
            Err((loc, _)) => {
                out.class = format!("panic@{loc}");
                return out; // crashes are C01's / C04's subject
            }
        };
        let Compiled { files, diags, raw_diags, .. } = c;
        let mut obligations = 0u64;
        let text0 = &keep[0].text;
        for (di, (d, raw)) in diags.iter().zip(raw_diags.into_iter()).enumerate() {
            let (Some(file), Some(sp)) = (&d.file, d.span) else { continue };
            let fi: usize = file.trim_start_matches("string-").parse().unwrap_or(0);
            let r = &keep[fi];
            let lines: Vec<&str> = r.text.lines().collect();
            let s = Loc { row: sp.sr, col: sp.sc };
            let t = Loc { row: sp.er, col: sp.ec };
            obligations += 1;
            let ctx = |what: &str| format!("diagnostic #{di} {} ({}) span {}:{}..{}:{}: {what}\n--- input (file {fi}) ---\n{}", d.code, d.message.lines().next().unwrap_or(""), s.row, s.col, t.row, t.col, r.text);
            if !le(s, t) || s.row < 1 || s.col < 1 || t.row > lines.len() + 1 {
                out.violate(format!("c09/diagnostic/{}/span-outside-file-or-reversed", d.code), ctx("span is reversed or outside the file"));
                continue;
            }
            // inside the offending element (known to the injector): rule violations carry their definition
            if d.level == "error" {
                let mine: Vec<&rules::Violation> = violations.iter().filter(|v| v.code == d.code && v.file == fi && v.def != usize::MAX).collect();
                if !mine.is_empty() && !violations.iter().any(|v| v.code == d.code && v.def == usize::MAX) {
                    obligations += 1;
                    let inside = mine.iter().any(|v| def_extent(r, v.def).map_or(false, |(a, b)| le(a, s) && le(t, b)));
                    if !inside {
                        out.violate(format!("c09/diagnostic/{}/span-outside-offending-element", d.code), ctx(&format!("the definitions violating this rule occupy {:?}", mine.iter().filter_map(|v| def_extent(r, v.def)).map(|(a, b)| format!("{}:{}..{}:{}", a.row, a.col, b.row, b.col)).collect::<Vec<_>>())));
                    }
                }
            }
            // a rule about an ATTRIBUTE is reported on an attribute with that directive (not on the element that carries
            // it, not on a neighbouring attribute)
            if d.level == "error" && matches!(d.code.as_str(), "E023" | "E024" | "E026" | "E027" | "E028") {
                let directives: Vec<&str> = violations.iter().filter(|v| v.code == d.code && v.file == fi).filter_map(|v| v.anchor.as_deref()).filter_map(|a| a.strip_prefix("attr:")).collect();
                if !directives.is_empty() && violations.iter().filter(|v| v.code == d.code && v.file == fi).all(|v| v.anchor.is_some()) {
                    // (attribute node, it is the first of its directive on its element)
                    fn attrs_of<'a>(n: &'a Node, out: &mut Vec<(&'a Node, bool)>) {
                        let mut seen: Vec<&str> = vec![];
                        for c in &n.children {
                            if matches!(c.kind, "attr" | "fileattr") {
                                let d = c.get("directive").unwrap_or("");
                                out.push((c, !seen.contains(&d)));
                                seen.push(d);
                            }
                        }
                        for c in &n.children {
                            attrs_of(c, out);
                        }
                    }
                    let mut all = vec![];
                    attrs_of(&r.tree, &mut all);
                    // (a repeated attribute: the REPEAT is at fault, the first use is what the note points at)
                    let repeats_only = d.code == "E026";
                    let on_one = all.iter().filter(|(a, first)| a.get("directive").map_or(false, |x| directives.contains(&x)) && !(repeats_only && *first)).filter_map(|(a, _)| a.pos.as_ref()).any(|p| le(r.tok_pos[p.first].0, s) && le(t, r.tok_pos[p.last].1));
                    obligations += 1;
                    if !on_one {
                        out.violate(format!("c09/diagnostic/{}/span-not-on-the-offending-attribute", d.code), ctx(&format!("the rule is violated by the attribute(s) {directives:?}: the span must lie on one of them")));
                    }
                }
            }
            // a tag out of range is reported on a tag's literal; a tag in a compact struct on a tagged field of a compact
            // struct (not on the struct, not on an untagged neighbour)
            if d.level == "error" && matches!(d.code.as_str(), "E021" | "E015") {
                fn collect<'a>(n: &'a Node, compact: bool, code: &str, out: &mut Vec<&'a Node>) {
                    let compact = if n.kind == "struct" { n.get("compact") == Some("true") } else { compact };
                    let hit = if code == "E021" { n.kind == "tagvalue" } else { n.kind == "field" && compact && n.get("tag").map_or(false, |t| t != "none") };
                    if hit {
                        out.push(n);
                    }
                    for c in &n.children {
                        collect(c, compact, code, out);
                    }
                }
                let mut places = vec![];
                collect(&r.tree, false, &d.code, &mut places);
                if !places.is_empty() {
                    obligations += 1;
                    let on_one = places.iter().filter_map(|n| n.pos.as_ref()).any(|p| le(r.tok_pos[p.first].0, s) && le(t, r.tok_pos[p.last].1));
                    if !on_one {
                        out.violate(format!("c09/diagnostic/{}/span-not-on-the-offending-{}", d.code, if d.code == "E021" { "tag-literal" } else { "tagged-field" }), ctx("the span must lie on one of the places where the rule can be violated in this file"));
                    }
                }
            }
            // the element the message names: for the codes listed in NAMES_ITS_PLACE the message quotes the identifier
            // of the member or definition at fault, and the span has to lie on that element (not on a neighbour)
            if let Some(extent) = named_element_extent(r, &d.message) {
                let inside = le(extent.0, s) && le(t, extent.1);
                if std::env::var_os("C09_ANCHOR_STATS").is_some() {
                    eprintln!("ANCHOR\t{}\t{}", d.code, inside);
                }
                if NAMES_ITS_PLACE.contains(&d.code.as_str()) {
                    obligations += 1;
                    if !inside {
                        out.violate(format!("c09/diagnostic/{}/span-not-on-the-element-the-message-names", d.code), ctx(&format!("the message names an element that occupies {}:{}..{}:{}", extent.0.row, extent.0.col, extent.1.row, extent.1.col)));
                    }
                }
            }
            // a lint about a doc comment points into doc comment lines
            if matches!(d.code.as_str(), "BrokenDocLink" | "MalformedDocComment" | "IncorrectDocComment") {
                obligations += 1;
                // (the row on which the span starts holds a '///' in front of the span; the layouts put blank lines, ordinary
                // comments and tokens between and before the lines of one doc comment, so further rows are not judged)
                let rows_ok = {
                    let line: Vec<char> = lines.get(s.row - 1).map(|l| l.chars().collect()).unwrap_or_default();
                    let slashes = (0..line.len().saturating_sub(2)).find(|i| line[*i] == '/' && line[i + 1] == '/' && line[i + 2] == '/');
                    slashes.map_or(false, |i| s.col > i)
                };
                if !rows_ok {
                    out.violate(format!("c09/diagnostic/{}/comment-lint-outside-doc-comment-lines", d.code), ctx("the row on which the span starts holds no '///' in front of it"));
                }
            }
            // the same for notes that point into this file: "'S' was previously defined here" names the element it points at
            for (nmsg, nsp) in &d.notes {
                let Some((nfile, nsp)) = nsp else { continue };
                let nfi: usize = nfile.trim_start_matches("string-").parse().unwrap_or(0);
                let Some(nr) = keep.get(nfi) else { continue };
                if let Some(extent) = named_element_extent(nr, nmsg) {
                    let (ns, nt) = (Loc { row: nsp.sr, col: nsp.sc }, Loc { row: nsp.er, col: nsp.ec });
                    let inside = le(extent.0, ns) && le(nt, extent.1);
                    let shape: String = nmsg.split('\'').enumerate().map(|(i, part)| if i % 2 == 1 { "_".to_string() } else { part.split_whitespace().take(3).collect::<Vec<_>>().join(" ") }).collect::<Vec<_>>().join("'");
                    if std::env::var_os("C09_ANCHOR_STATS").is_some() {
                        eprintln!("NOTEANCHOR\t{}\t{}\t{}", d.code, shape, inside);
                    }
                    if NOTE_NAMES_ITS_PLACE.iter().any(|(c, sh)| *c == d.code && shape.starts_with(sh)) {
                        obligations += 1;
                        if !inside {
                            out.violate(format!("c09/diagnostic/{}/note-span-not-on-the-element-the-note-names", d.code), ctx(&format!("note {nmsg:?} has the span {}:{}..{}:{} of file {nfi}, but the element it names occupies {}:{}..{}:{}", ns.row, ns.col, nt.row, nt.col, extent.0.row, extent.0.col, extent.1.row, extent.1.col)));
                        }
                    }
                }
            }
            // snippet
            let mut buf: Vec<u8> = vec![];
            let opts = SliceOptions { disable_color: true, ..Default::default() };
            let r2 = guarded(|| {
                let mut em = DiagnosticEmitter::new(&mut buf, &opts, &files);
                em.emit_diagnostics(vec![raw]).map_err(|e| e.to_string())
            });
            match r2 {
                Err((loc, msg)) => {
                    out.violate(format!("c09/diagnostic/{}/snippet-panic@{loc}", d.code), ctx(&format!("rendering the snippet panicked: {msg}")));
                    continue;
                }
                Ok(Err(e)) => {
                    out.violate(format!("c09/diagnostic/{}/snippet-error", d.code), ctx(&e));
                    continue;
                }
                Ok(Ok(())) => {}
            }
            let stream = String::from_utf8_lossy(&buf).to_string();
            // the location lines, in order: the diagnostic's own span, then every note that has a span
            let mut targets: Vec<(usize, Loc, Loc, String)> = vec![(fi, s, t, "diagnostic".to_string())];
            for (ni, (_, nsp)) in d.notes.iter().enumerate() {
                if let Some((nfile, nsp)) = nsp {
                    let nfi: usize = nfile.trim_start_matches("string-").parse().unwrap_or(0);
                    targets.push((nfi, Loc { row: nsp.sr, col: nsp.sc }, Loc { row: nsp.er, col: nsp.ec }, format!("note #{ni}")));
                }
            }
            let sl: Vec<&str> = stream.lines().collect();
            let location_lines: Vec<usize> = sl.iter().enumerate().filter(|(_, l)| l.starts_with(" --> ")).map(|(i, _)| i).collect();
            if location_lines.is_empty() {
                out.violate(format!("c09/diagnostic/{}/no-location-line", d.code), ctx(&stream));
                continue;
            }
            if location_lines.len() != targets.len() {
                out.violate(format!("c09/diagnostic/{}/location-lines-and-spans-differ-in-number", d.code), ctx(&format!("{} spans (diagnostic + notes) but {} location lines:\n{stream}", targets.len(), location_lines.len())));
                continue;
            }
            for ((tfi, s, t, what), li) in targets.into_iter().zip(location_lines.into_iter()) {
                let (s, t) = (s, t);
                let what_sig = if what == "diagnostic" { "snippet" } else { "note-snippet" };
                let Some(tr) = keep.get(tfi) else { continue };
                let lines: Vec<&str> = tr.text.lines().collect();
                if what != "diagnostic" && (!le(s, t) || s.row < 1 || s.col < 1 || t.row > lines.len() + 1) {
                    out.violate(format!("c09/diagnostic/{}/note-span-outside-file-or-reversed", d.code), ctx(&format!("{what}: span {}:{}..{}:{} of file {tfi}", s.row, s.col, t.row, t.col)));
                    continue;
                }
                // both ends lie on their lines: a column is at most one past the last character of its row
                obligations += 1;
                // (the carriage return of a CRLF ending is not a character of its row)
                let width = |row: usize| lines.get(row - 1).map_or(0, |l| l.chars().count());
                if s.col > width(s.row) + 1 || t.col > width(t.row) + 1 {
                    out.violate(
                        format!("c09/diagnostic/{}/{}-column-beyond-the-end-of-its-line", d.code, if what == "diagnostic" { "span" } else { "note-span" }),
                        ctx(&format!("{what}: span {}:{}..{}:{} of file {tfi}, but row {} has {} characters and row {} has {}", s.row, s.col, t.row, t.col, s.row, width(s.row), t.row, width(t.row))),
                    );
                    continue;
                }
                // the header names the file and the start of the span
                obligations += 1;
                let header = format!(" --> string-{tfi}:{}:{}", s.row, s.col);
                if sl[li].trim_end() != header {
                    out.violate(format!("c09/diagnostic/{}/{what_sig}-location-line", d.code), ctx(&format!("{what}: the location line must be {header:?} but is {:?}:\n{stream}", sl[li])));
                    continue;
                }
                // numbered lines and their highlight lines
                let mut row = s.row;
                let mut k = li + 2; // skip the location line and the first gutter line
                while row <= t.row && row <= lines.len() {
                    obligations += 1;
                    let Some(src_line) = sl.get(k) else {
                        out.violate(format!("c09/diagnostic/{}/{what_sig}-lines-missing", d.code), ctx(&format!("{what}: snippet ends before row {row}:\n{stream}")));
                        break;
                    };
                    let Some(hl_line) = sl.get(k + 1) else { break };
                    let Some((num, shown)) = src_line.split_once('|') else {
                        out.violate(format!("c09/diagnostic/{}/{what_sig}-format", d.code), ctx(&format!("{what}: unexpected snippet line {src_line:?}:\n{stream}")));
                        break;
                    };
                    // the bars of the frame line, the numbered line and its highlight line stand in one column
                    let bar = |l: &str| l.chars().position(|c| c == '|');
                    if bar(src_line) != bar(hl_line) || sl.get(li + 1).map_or(false, |f| bar(f) != bar(src_line)) {
                        out.violate(format!("c09/diagnostic/{}/{what_sig}-gutter-misaligned", d.code), ctx(&format!("{what}: row {row}: the '|' of the numbered line, of its highlight line and of the frame line are in different columns:\n{stream}")));
                        break;
                    }
                    if num.trim().parse::<usize>().ok() != Some(row) {
                        out.violate(format!("c09/diagnostic/{}/{what_sig}-line-number", d.code), ctx(&format!("{what}: snippet shows line number {:?} for row {row}:\n{stream}", num.trim())));
                        break;
                    }
                    // the text shown is that row of THAT file (tabs shown as 4 spaces)
                    let want = lines[row - 1].replace('\t', "    ");
                    if shown.strip_prefix(' ').unwrap_or(shown).trim_end() != want.trim_end() {
                        out.violate(format!("c09/diagnostic/{}/{what_sig}-shows-another-line", d.code), ctx(&format!("{what}: row {row} of file {tfi} is {:?} but the snippet shows {:?}:\n{stream}", want, shown)));
                        break;
                    }
                    let chars: Vec<char> = lines[row - 1].chars().collect();
                    let hs = if row == s.row { s.col - 1 } else { 0 };
                    let he = if row == t.row { t.col - 1 } else { chars.len() };
                    let hl = hl_line.split_once('|').map(|x| x.1).unwrap_or("");
                    let lead = hl.chars().take_while(|c| *c == ' ').count();
                    let mark: String = hl.chars().skip(lead).collect();
                    if he < hs {
                        out.violate(format!("c09/diagnostic/{}/span-columns-reversed-on-line", d.code), ctx(&format!("{what}: row {row}: columns {hs}..{he}")));
                        break;
                    }
                    if hs == he {
                        if !(mark == "/\\" && lead == visual(&chars, hs)) {
                            out.violate(format!("c09/diagnostic/{}/{what_sig}-pointer", d.code), ctx(&format!("{what}: row {row}: empty span at column {} must be shown by a pointer under it; highlight line {hl_line:?}:\n{stream}", hs + 1)));
                            break;
                        }
                    } else {
                        let exp_lead = 1 + visual(&chars, hs);
                        let exp_len = visual(&chars, he.min(chars.len())) - visual(&chars, hs.min(chars.len())) + he.saturating_sub(chars.len().max(hs));
                        if lead != exp_lead || mark.chars().any(|c| c != '-') || mark.chars().count() != exp_len {
                            out.violate(
                                format!("c09/diagnostic/{}/{what_sig}-underline", d.code),
                                ctx(&format!("{what}: row {row}: the underline must start {exp_lead} columns after the gutter and be {exp_len} long (tabs shown as 4 spaces), but the highlight line is {hl_line:?} (starts at {lead}, {} long):\n{stream}", mark.chars().count())),
                            );
                            break;
                        }
                    }
                    row += 1;
                    k += 2;
                }
                // nothing but the spanned lines is shown
                if let Some(next) = sl.get(k) {
                    if next.split_once('|').map_or(false, |(num, _)| num.trim().parse::<usize>().is_ok()) {
                        out.violate(format!("c09/diagnostic/{}/{what_sig}-shows-extra-line", d.code), ctx(&format!("{what}: the snippet shows a line after the last spanned row:\n{stream}")));
                    }
                }
            }
        }
        let _ = text0;
        let _ = ks;
        out.steps = obligations;
        out.class = format!("{}-diagnostics:{}-obligations", diags.len().min(8), (obligations / 4) * 4);
        let mut seen = std::collections::HashSet::new();
        out.violations.retain(|v| seen.insert(v.sig.clone()));
        out
    }
}
impl DiagnosticSpans {
    fn decode(&self, idx: u64) -> (crate::model::ast::Program, Layout, Vec<usize>) {
        if self.arity == 3 {
            // sources with multi-line spans: the wrapped tag messages (43, 44), the containment ring (37), the misplaced tags (33)
            let k = [43usize, 44, 37, 33][(idx % 4) as usize];
            let n = LEADS[(idx / 4) as usize];
            let mut f = MFile::module("M");
            f.defs.extend(diag_source(k, 0));
            let layout = Layout { lead: &NEWLINES[..n], ..Layout::uniform(if idx % 8 < 4 { Sep::Space } else { Sep::Newline }, Commas::None) };
            return (vec![f, crate::model::gen::lib_file()], layout, vec![k, n]);
        }
        let li = (idx % 7) as usize;
        let mut r = idx / 7;
        if self.arity == 0 {
            let (f, g) = cross_file_program(r / 2);
            let files = if r % 2 == 0 { vec![f, g] } else { vec![g, f] };
            return (files, Layout::uniform(DIAG_LAYOUTS[li], Commas::None), vec![(r / 2) as usize, (r % 2) as usize]);
        }
        let mut ks = vec![];
        for _ in 0..self.arity {
            ks.push((r % N_SOURCES as u64) as usize);
            r /= N_SOURCES as u64;
        }
        let mut f = MFile::module("M");
        for (i, k) in ks.iter().enumerate() {
            f.defs.extend(diag_source(*k, i));
        }
        (vec![f, crate::model::gen::lib_file()], Layout::uniform(DIAG_LAYOUTS[li], Commas::None), ks)
    }
}

// ------------------------------------------------------------------------------------------------------------
// Defects that the model programs cannot contain (they are syntactically valid and every file has a module): texts
// with ONE defect of the parsing phases, next to healthy files. "A diagnostic about a defect points into the text of
// the offending element": every such error names the file it is about and lies on the rows of the defect.

pub struct DefectsInRawText;
/// (label, text, first row, last row of the offending element) - rows are 1-based, counted after the preamble
const RAW_DEFECTS: [(&str, &str, usize, usize); 14] = [
    ("definitions without a module", "struct Q {}\nstruct R { a: int32 }\n", 1, 2),
    ("a definition without a module, behind comments", "// c\n/* d */\n\ncustom Q\n", 4, 4),
    ("module declared after the definition", "struct Q {}\nmodule M\n", 1, 2),
    ("missing closing brace", "module M\nstruct Q {\n  a: int32\n", 2, 4),
    ("a keyword where a name belongs", "module M\nstruct struct {}\n", 2, 2),
    ("a stray token between definitions", "module M\nstruct A {}\n)\nstruct B {}\n", 3, 3),
    ("an unterminated string in an attribute", "module M\n[deprecated(\"open)]\nstruct A {}\n", 2, 3),
    ("an unterminated block comment", "module M\nstruct A {}\n/* open\nstruct B {}\n", 3, 5),
    ("an unknown directive", "module M\n#frobnicate X\nstruct A {}\n", 2, 2),
    ("#if without #endif", "module M\n#if X\nstruct A {}\n", 2, 4),
    ("#endif without #if", "module M\nstruct A {}\n#endif\n", 3, 3),
    // (the block that was not opened leaves its #endif behind: a second error there)
    ("a malformed directive expression", "module M\n#if X &&\nstruct A {}\n#endif\n", 2, 4),
    ("an integer literal that is out of range", "module M\nenum E : uint8 { A = 99999999999999999999999999 }\n", 2, 2),
    ("a tag on a member that is not optional", "module M\nstruct S {\n  tag(1) a: int32\n}\n", 3, 3),
];
const RAW_PREAMBLES: [&str; 3] = ["", "\n\n", "// première ligne é✓\n\t\n"];
impl DefectsInRawText {
    fn texts(idx: u64) -> (Vec<String>, usize, usize, usize, &'static str) {
        let d = (idx % RAW_DEFECTS.len() as u64) as usize;
        let pre = RAW_PREAMBLES[((idx / RAW_DEFECTS.len() as u64) % 3) as usize];
        let arrangement = idx / (RAW_DEFECTS.len() as u64 * 3);
        let (label, text, lo, hi) = RAW_DEFECTS[d];
        let shift = pre.matches('\n').count();
        let bad = format!("{pre}{text}");
        let healthy = |k: usize| format!("module H{k}\nstruct Fine{k} {{ a: int32 }}\n");
        let (files, at) = match arrangement {
            0 => (vec![bad], 0),
            1 => (vec![healthy(1), bad], 1),
            2 => (vec![bad, healthy(1)], 0),
            _ => (vec![healthy(1), bad, healthy(2)], 1),
        };
        (files, at, lo + shift, hi + shift, label)
    }
}
impl Family for DefectsInRawText {
    fn name(&self) -> String {
        format!("defects-in-raw-text/{} texts with one defect of the parsing phases (no module, syntax errors, unterminated string / comment, directive errors, errors the parser raises itself) x 3 preambles x alone / behind / before / between healthy files: every error names the offending file and lies on the rows of the defect", RAW_DEFECTS.len())
    }
    fn len(&self) -> u64 {
        RAW_DEFECTS.len() as u64 * 3 * 4
    }
    fn describe(&self, idx: u64) -> Value {
        let (files, at, lo, hi, label) = Self::texts(idx);
        serde_json::json!({"defect": label, "files": files, "offending_file": at, "rows_of_the_defect": [lo, hi]})
    }
    fn run(&self, idx: u64) -> CaseOut {
        let (files, at, lo, hi, label) = Self::texts(idx);
        let mut out = CaseOut::new(hash_str(&format!("c09raw{files:?}")));
        out.validated = 1;
        out.nontrivial = true;
        let refs: Vec<&str> = files.iter().map(|s| s.as_str()).collect();
        let ctx = |m: &str| format!("{label}: {m}\n--- files ---\n{}", files.join("\n--- next file ---\n"));
        let (_, _, diags) = match compile_texts(&refs, None) {
            Ok(x) => x,
            Err((loc, msg)) => {
                out.violate(format!("c09/defects-in-raw-text/panic@{loc}"), ctx(&msg));
                return out;
            }
        };
        let errors: Vec<&DiagObs> = diags.iter().filter(|d| d.level == "error").collect();
        if errors.is_empty() {
            out.violate("c09/defects-in-raw-text/defect-not-reported", ctx("no error diagnostic"));
            return out;
        }
        let n_rows = files[at].lines().count();
        for d in &errors {
            out.steps += 1;
            let (Some(file), Some(sp)) = (&d.file, d.span) else {
                out.violate(format!("c09/defects-in-raw-text/{}/error-without-a-location", d.code), ctx(&format!("{} {:?} names no file and no position", d.code, d.message)));
                continue;
            };
            if *file != format!("string-{at}") {
                out.violate(format!("c09/defects-in-raw-text/{}/error-placed-in-another-file", d.code), ctx(&format!("{} {:?} is placed in {file}, the defect is in string-{at}", d.code, d.message)));
                continue;
            }
            // (an error about the END of the text may sit one row below the last line)
            if sp.sr < lo || sp.er > hi.max(n_rows) + 1 || sp.sr > hi + 1 || (sp.sr, sp.sc) > (sp.er, sp.ec) || sp.sc < 1 {
                out.violate(format!("c09/defects-in-raw-text/{}/error-outside-the-defect", d.code), ctx(&format!("{} {:?} spans {}:{}..{}:{}, the defect occupies rows {lo}..{hi}", d.code, d.message, sp.sr, sp.sc, sp.er, sp.ec)));
            }
        }
        out.class = format!("{}:{}", errors[0].code, errors.len().min(3));
        out
    }
}

pub fn families(tier: &str) -> Vec<Box<dyn Family>> {
    let mut v: Vec<Box<dyn Family>> = vec![Box::new(DiagnosticSpans { arity: 1 }), Box::new(DiagnosticSpans { arity: 2 }), Box::new(DiagnosticSpans { arity: 0 }), Box::new(DiagnosticSpans { arity: 3 })];
    v.push(Box::new(DefectsInRawText));
    v.push(Box::new(Positions { inner: Box::new(NonAsciiDocs) }));
    v.extend(crate::model::families::program_families(tier).into_iter().map(|f| Box::new(Positions { inner: f }) as Box<dyn Family>));
    v
}
