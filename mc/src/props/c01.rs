//! C01 — every input yields a verdict: no crash, abort or hang; cost grows gently with input size.
//!
//! All in-process families run in crash-isolated worker processes on the main thread (8 MiB stack, as the real
//! binary): a stack overflow / abort / hang of the subject is observed by the parent and becomes a verdict.

use super::PropMeta;
use crate::engine::*;
use crate::model::gen;
use crate::model::print::*;
use crate::model::run::render_program;
use crate::proc::{encode_reply, run, show_bytes, Gen, Install, Scenario, Script, Step};
use crate::util::*;
use serde_json::{json, Value};
use slicec::compilation_state::CompilationState;
use slicec::diagnostic_emitter::DiagnosticEmitter;
use slicec::slice_options::{DiagnosticFormat, SliceOptions};
use std::time::Duration;

pub fn meta(m: &mut PropMeta) {
    m.rule = "token soups: ALL sequences of up to 2 tokens (quick; thorough 3) over a 62-token alphabet (30 keywords, identifiers incl. escaped and keyword-spelled, well-formed and malformed integer literals, string literals incl. unterminated, doc / line / block comments incl. unterminated, all punctuation, lone '-', '/', backslash, '$', a non-ASCII character, a '#' directive) in each of 10 syntactic contexts, and up to 3 (thorough 4) tokens in the first two contexts; deviation-bounded mutation of 8 valid base programs that together use every construct: every single-token deletion, replacement by every alphabet token, insertion of every alphabet token at every gap, adjacent swap, and every single-character deletion / insertion / replacement from a 14-character hazard set (d = 1; thorough: two-character deviations on the two smallest bases); every type form (primitive classes, struct, enum, custom, interface, aliases, module and member names, undefined, sequences / dictionaries / results / optionals of each, nested) in every type position incl. interface base and enum underlying type; doc-comment soups and directive soups (all sequences of up to 3 items over the comment-lexer and directive alphabets, with mixed-width white space, CRLF, tabs); cost-growth families whose size is the only parameter (layered and fan-in DAGs, deep sequence nesting, deep parenthesised #if, deep #if nesting, alias chains, inheritance lattices, 1000 fields, 1000 definitions, an 8 KiB doc comment), sizes doubling up to 8 KiB, each instance timed alone; and at process level the option product (11 file-set shapes x -D x -A x -G x --dry-run x --diagnostic-format x --disable-color values incl. empty strings; quick: all option vectors with at most 2 non-default values). Oracle: the compilation, the level update and the emission of the diagnostics in both formats end normally: no panic, no stack overflow, no abort, no signal; exit status of the binary in {0,1,2}; <= 5 s for inputs <= 1 KiB, otherwise <= 20 s. distinct = distinct chunks of inputs; non-trivial = the input reaches the parser with a non-empty token stream (all but the empty soup).";
    m.explanation = "bounded-exhaustive input enumeration in crash-isolated workers; only termination with a verdict is judged";
    m.quick_bound = "soups <= 2 tokens x 10 contexts, <= 3 tokens x 2 contexts; 1-deviation mutations; growth families up to 8 KiB; option vectors with <= 2 deviations";
    m.thorough_bound = "soups <= 3 tokens x 10 contexts, <= 4 tokens x 2 contexts; 2-character deviations on two bases; complete option product";
    m.quick_cap_s = 240.0;
    m.thorough_cap_s = 1800.0;
}

/// One compilation + level update + emission in both formats. Returns (phase class, seconds) or a violation.
/// CPU time used by the calling thread so far (seconds): the cost of one compilation is measured with it, so that
/// a busy machine (16 workers, other processes) cannot turn a cheap case into a slow one.
fn thread_cpu_secs() -> f64 {
    let mut ts = libc::timespec { tv_sec: 0, tv_nsec: 0 };
    unsafe {
        libc::clock_gettime(libc::CLOCK_THREAD_CPUTIME_ID, &mut ts);
    }
    ts.tv_sec as f64 + ts.tv_nsec as f64 * 1e-9
}

pub fn verdict(texts: &[&str], opts: &SliceOptions) -> Result<(String, f64), (String, String)> {
    let t0 = thread_cpu_secs();
    let r = guarded(|| {
        let state = slicec::compile_from_strings(texts, Some(opts));
        let CompilationState { ast, diagnostics, files } = state;
        let mut classes = String::new();
        for fmt in [DiagnosticFormat::Human, DiagnosticFormat::Json] {
            // the emitter consumes the diagnostics: compile once, emit by re-deriving the list twice is not possible,
            // so the second format is emitted from a second compilation below
            let _ = fmt;
        }
        let diags = diagnostics.into_updated(&ast, &files, opts);
        let n_err = diags.iter().filter(|d| matches!(d.level(), slicec::diagnostics::DiagnosticLevel::Error)).count();
        let first = diags.first().map(|d| d.code().to_string()).unwrap_or_default();
        classes.push_str(&format!("{}e:{first}", n_err.min(3)));
        let mut buf: Vec<u8> = Vec::new();
        let o = SliceOptions { diagnostic_format: opts.diagnostic_format, disable_color: true, ..Default::default() };
        let mut em = DiagnosticEmitter::new(&mut buf, &o, &files);
        em.emit_diagnostics(diags).map_err(|e| e.to_string())?;
        Ok::<String, String>(classes)
    });
    let dt = thread_cpu_secs() - t0;
    match r {
        Err((loc, msg)) => Err((format!("panic@{loc}"), format!("panic at {loc}: {msg}"))),
        Ok(Err(e)) => Err(("emitter-error".into(), e)),
        Ok(Ok(c)) => Ok((c, dt)),
    }
}

/// Both emission formats (two compilations).
pub fn verdict_both(texts: &[&str], out: &mut CaseOut, fam: &str, describe: &dyn Fn() -> String) -> String {
    let total: usize = texts.iter().map(|t| t.len()).sum();
    // the statement's bound: 20 s for <= 8 KiB of input (every generated input is <= 8 KiB); CPU seconds
    // (the instrumented build of the memory-safety layer is several times slower: it judges memory accesses only)
    let limit = if std::env::var_os("MC_SANITIZED_WORKER").is_some() { f64::INFINITY } else { 20.0 };
    let mut class = String::new();
    for json in [false, true] {
        out.steps += 1;
        let opts = SliceOptions { diagnostic_format: if json { DiagnosticFormat::Json } else { DiagnosticFormat::Human }, ..Default::default() };
        match verdict(texts, &opts) {
            Err((sig, msg)) => {
                out.violate(format!("c01/{fam}/{sig}"), format!("{msg}\n--- input ---\n{}", describe()));
                return "crash".into();
            }
            Ok((c, dt)) => {
                if dt > limit {
                    out.violate(format!("c01/{fam}/too-slow"), format!("{total} bytes of input took {dt:.1} s of CPU time (bound {limit} s)\n--- input ---\n{}", truncate(&describe(), 2000)));
                }
                class = c;
            }
        }
    }
    class
}

// ---------------------------------------------------------------------------------------------------------------
// Token soups

pub fn token_alphabet() -> Vec<String> {
    let mut v: Vec<String> = crate::model::ast::KEYWORDS.iter().map(|s| s.to_string()).collect();
    for s in [
        "foo", "\\bar", "\\struct", "42", "0x1F", "0b101", "12abc", "0x", "\"s\"", "\"a\\\"b\\\\\"", "\"open", "/// doc {@link X}\n", "// c\n", "/* c */", "/* open", "(", ")", "[", "]", "[[", "]]", "{", "}", "<", ">", ",", ":", "::", "=", "?", "->", "-", "/",
        "\\", "$", "é", "\n#if X\n",
    ] {
        v.push(s.to_string());
    }
    v
}

const CONTEXTS: [(&str, &str); 10] = [
    ("", ""),
    ("module M ", ""),
    ("module M struct S { ", " }"),
    ("module M interface I { op(", ") }"),
    ("module M enum E { ", " }"),
    ("module M typealias A = ", ""),
    ("module M struct S { a: Sequence<", "> }"),
    ("module M [", "] struct S {}"),
    ("[[", "]] module M"),
    ("module M /// ", "\n struct S {}"),
];

pub struct TokenSoups {
    pub n: usize,
    pub contexts: std::ops::Range<usize>,
    alphabet: Vec<String>,
}
impl TokenSoups {
    pub fn new(n: usize, contexts: std::ops::Range<usize>) -> Self {
        TokenSoups { n, contexts, alphabet: token_alphabet() }
    }
    fn chunks_per_context(&self) -> u64 {
        // a chunk = a prefix of exactly n-1 tokens, extended by nothing and by every last token; plus one chunk with
        // all shorter prefixes (so that every length <= n is covered exactly once)
        (self.alphabet.len() as u64).pow(self.n as u32 - 1) + 1
    }
    fn prefix(&self, mut i: u64) -> Vec<&str> {
        let a = self.alphabet.len() as u64;
        let mut v = vec![];
        for _ in 0..self.n - 1 {
            v.push(self.alphabet[(i % a) as usize].as_str());
            i /= a;
        }
        v
    }
}
impl Family for TokenSoups {
    fn name(&self) -> String {
        format!("token-soups/all sequences of <= {} tokens over {} tokens in contexts {:?}", self.n, self.alphabet.len(), self.contexts)
    }
    fn len(&self) -> u64 {
        self.chunks_per_context() * self.contexts.len() as u64
    }
    fn hang_secs(&self) -> f64 {
        60.0
    }
    fn describe(&self, idx: u64) -> Value {
        let per = self.chunks_per_context();
        let ctx = self.contexts.start + (idx / per) as usize;
        let c = idx % per;
        json!({"context": format!("{}<soup>{}", CONTEXTS[ctx].0, CONTEXTS[ctx].1), "soup": if c == per - 1 { json!(format!("all sequences shorter than {}", self.n - 1)) } else { json!({"prefix": self.prefix(c), "then": "nothing, or any one token"}) }})
    }
    fn run(&self, idx: u64) -> CaseOut {
        let per = self.chunks_per_context();
        let ctx = self.contexts.start + (idx / per) as usize;
        let c = idx % per;
        let (pre, post) = CONTEXTS[ctx];
        let mut out = CaseOut::new(hash_str(&format!("soup{}{:?}{idx}", self.n, self.contexts)));
        out.steps = 0;
        out.nontrivial = true;
        let mut classes = std::collections::BTreeSet::new();
        let mut one = |soup: &[&str], out: &mut CaseOut| {
            let text = format!("{pre}{}{post}", soup.join(" "));
            let c = verdict_both(&[&text], out, "token-soups", &|| text.clone());
            classes.insert(c);
        };
        if c == per - 1 {
            let mut layer: Vec<Vec<&str>> = vec![vec![]];
            one(&[], &mut out);
            for _ in 0..self.n.saturating_sub(2) {
                let mut next = vec![];
                for s in &layer {
                    for t in &self.alphabet {
                        let mut x = s.clone();
                        x.push(t.as_str());
                        one(&x, &mut out);
                        next.push(x);
                    }
                }
                layer = next;
            }
        } else {
            let p = self.prefix(c);
            one(&p, &mut out);
            for t in &self.alphabet {
                let mut x = p.clone();
                x.push(t.as_str());
                one(&x, &mut out);
                if out.violations.len() > 6 {
                    break;
                }
            }
        }
        out.class = format!("ctx{ctx}:{}classes", classes.len().min(9));
        let mut seen = std::collections::HashSet::new();
        out.violations.retain(|v| seen.insert(v.sig.clone()));
        out
    }
}

// ---------------------------------------------------------------------------------------------------------------
// Mutations of valid programs

fn base_programs() -> Vec<Vec<String>> {
    // token streams of 8 base programs covering every construct
    let sets: [&[usize]; 8] = [&[1, 3, 24], &[4, 5], &[10, 12, 13], &[14, 15, 16], &[17, 19, 20, 21], &[22, 23, 25], &[26, 27, 28, 29, 30], &[31, 32, 33, 37, 39]];
    let mut v: Vec<Vec<String>> = sets
        .iter()
        .map(|ks| {
            let p = gen::sequence_program(ks, 0);
            let r = render_program(&p, &Layout::uniform(Sep::Space, Commas::Between));
            r[0].toks.iter().map(|t| t.text.clone()).collect()
        })
        .collect();
    // a ninth base whose every documentable element carries a doc comment that is reported WHILE PARSING (malformed
    // tags and links), so that a lint is on record for each of them when a later token no longer parses
    let bad = ["/// {@link\n", "/// @param\n", "/// {@link X", "/// @see\n", "/// {@foo S}\n", "/// @returns: {@link"];
    let mut k = 0;
    let mut doc = || {
        k += 1;
        bad[k % bad.len()].to_string()
    };
    let mut t: Vec<String> = vec!["module".into(), "Lints".into()];
    let mut push = |xs: &[&str], t: &mut Vec<String>| {
        for x in xs {
            if *x == "DOC" {
                t.push(doc());
            } else {
                t.push(x.to_string());
            }
        }
    };
    push(&["DOC", "struct", "S", "{", "DOC", "a", ":", "int32", "DOC", "b", ":", "Sequence", "<", "string", ">", "}"], &mut t);
    push(&["DOC", "enum", "E", "{", "DOC", "A", "(", "DOC", "f", ":", "int32", ",", "DOC", "g", ":", "S", ")", "DOC", "B", "}"], &mut t);
    push(&["DOC", "unchecked", "enum", "U", ":", "uint8", "{", "DOC", "P", "=", "1", "DOC", "Q", "}"], &mut t);
    push(&["DOC", "interface", "I", "{", "DOC", "op", "(", "p", ":", "int32", ")", "->", "(", "r", ":", "int32", ",", "q", ":", "bool", ")", "DOC", "idempotent", "op2", "(", ")", "->", "E", "}"], &mut t);
    push(&["DOC", "typealias", "T", "=", "Dictionary", "<", "int32", ",", "S", ">", "DOC", "custom", "C"], &mut t);
    v.push(t);
    v
}

fn join_toks(toks: &[String]) -> String {
    let mut s = String::new();
    for t in toks {
        s.push_str(t);
        if t.starts_with("///") || t.ends_with('\n') {
            s.push('\n');
        } else {
            s.push(' ');
        }
    }
    s
}

fn lib_text() -> String {
    render_program(&vec![gen::lib_file()], &Layout::uniform(Sep::Space, Commas::None))[0].text.clone()
}

pub struct TokenMutations {
    bases: Vec<Vec<String>>,
    alphabet: Vec<String>,
    lib: String,
}
impl TokenMutations {
    pub fn new() -> Self {
        TokenMutations { bases: base_programs(), alphabet: token_alphabet(), lib: lib_text() }
    }
    fn locate(&self, idx: u64) -> (usize, usize) {
        let mut i = idx;
        for (b, toks) in self.bases.iter().enumerate() {
            let n = toks.len() as u64 + 1;
            if i < n {
                return (b, i as usize);
            }
            i -= n;
        }
        unreachable!()
    }
}
impl Family for TokenMutations {
    fn name(&self) -> String {
        format!("token-mutations/9 base programs, one with a parse-time lint on every documentable element ({} tokens): every deletion, replacement and insertion of each of {} tokens at every position, adjacent swaps", self.bases.iter().map(|b| b.len()).sum::<usize>(), self.alphabet.len())
    }
    fn len(&self) -> u64 {
        self.bases.iter().map(|b| b.len() as u64 + 1).sum()
    }
    fn hang_secs(&self) -> f64 {
        60.0
    }
    fn describe(&self, idx: u64) -> Value {
        let (b, pos) = self.locate(idx);
        json!({"base_program": join_toks(&self.bases[b]), "position": pos, "mutations": "delete token, replace by each alphabet token, insert each alphabet token before it, swap with the next"})
    }
    fn run(&self, idx: u64) -> CaseOut {
        let (b, pos) = self.locate(idx);
        let base = &self.bases[b];
        let mut out = CaseOut::new(hash_str(&format!("tokmut{idx}")));
        out.steps = 0;
        out.nontrivial = true;
        let mut classes = std::collections::BTreeSet::new();
        let last_base = b + 1 == self.bases.len();
        let mut k = 0u64;
        let mut one = |toks: Vec<String>, out: &mut CaseOut| {
            let text = join_toks(&toks);
            // the mutated file first or last in the compilation (what a failed parse leaves behind depends on what comes
            // after it): alternating; the lint-rich base in both orders
            k += 1;
            if last_base || k % 2 == 0 {
                let c = verdict_both(&[&text, &self.lib], out, "token-mutations", &|| text.clone());
                classes.insert(c);
            }
            if last_base || k % 2 == 1 {
                let c = verdict_both(&[&self.lib, &text], out, "token-mutations", &|| format!("(second file of the compilation, after the library file)\n{text}"));
                classes.insert(c);
            }
        };
        if pos < base.len() {
            let mut t = base.clone();
            t.remove(pos);
            one(t, &mut out);
            if pos + 1 < base.len() {
                let mut t = base.clone();
                t.swap(pos, pos + 1);
                one(t, &mut out);
            }
            for a in &self.alphabet {
                let mut t = base.clone();
                t[pos] = a.clone();
                one(t, &mut out);
            }
        }
        for a in &self.alphabet {
            let mut t = base.clone();
            t.insert(pos, a.clone());
            one(t, &mut out);
            if out.violations.len() > 6 {
                break;
            }
        }
        out.class = format!("base{b}:{}classes", classes.len().min(9));
        let mut seen = std::collections::HashSet::new();
        out.violations.retain(|v| seen.insert(v.sig.clone()));
        out
    }
}

const HAZARDS: [char; 14] = ['"', '\\', '/', '*', '#', '[', ']', '{', '@', '\r', '\t', '\0', 'é', '\u{3000}'];

pub struct CharMutations {
    bases: Vec<String>,
    lib: String,
    pub two: bool,
}
impl CharMutations {
    pub fn new(two: bool) -> Self {
        let mut bases: Vec<String> = base_programs().into_iter().map(|b| join_toks(&b)).collect();
        // layout variants: line-oriented text matters for the character-level hazards
        for b in bases.iter_mut().skip(4) {
            *b = b.replace(" { ", " {\n    ").replace(" } ", "\n}\n");
        }
        if two {
            bases.sort_by_key(|b| b.len());
            bases.truncate(2);
        }
        CharMutations { bases, lib: lib_text(), two }
    }
    fn locate(&self, idx: u64) -> (usize, usize) {
        let mut i = idx;
        for (b, t) in self.bases.iter().enumerate() {
            let n = t.chars().count() as u64 + 1;
            if i < n {
                return (b, i as usize);
            }
            i -= n;
        }
        unreachable!()
    }
}
impl Family for CharMutations {
    fn name(&self) -> String {
        format!("char-mutations/{} base programs: every single-character deletion, and insertion / replacement by each of 14 hazard characters at every position{}", self.bases.len(), if self.two { ", combined with a second hazard insertion at every later position (2 deviations)" } else { "" })
    }
    fn len(&self) -> u64 {
        self.bases.iter().map(|b| b.chars().count() as u64 + 1).sum()
    }
    fn hang_secs(&self) -> f64 {
        120.0
    }
    fn describe(&self, idx: u64) -> Value {
        let (b, pos) = self.locate(idx);
        json!({"base_program": self.bases[b], "character_position": pos, "hazards": HAZARDS.iter().map(|c| format!("U+{:04X}", *c as u32)).collect::<Vec<_>>()})
    }
    fn run(&self, idx: u64) -> CaseOut {
        let (b, pos) = self.locate(idx);
        let chars: Vec<char> = self.bases[b].chars().collect();
        let mut out = CaseOut::new(hash_str(&format!("charmut{}{idx}", self.two)));
        out.steps = 0;
        out.nontrivial = true;
        let mut classes = std::collections::BTreeSet::new();
        let mut one = |c: &[char], out: &mut CaseOut| {
            let text: String = c.iter().collect();
            let cl = verdict_both(&[&text, &self.lib], out, "char-mutations", &|| text.clone());
            classes.insert(cl);
        };
        if pos < chars.len() {
            let mut c = chars.clone();
            c.remove(pos);
            one(&c, &mut out);
        }
        for h in HAZARDS {
            let mut c = chars.clone();
            c.insert(pos, h);
            one(&c, &mut out);
            if self.two {
                // second deviation: another hazard at every 3rd later position
                for p2 in (pos + 1..c.len()).step_by(3) {
                    for h2 in ['"', '\\', '*', '#', '\u{3000}'] {
                        let mut c2 = c.clone();
                        c2.insert(p2, h2);
                        one(&c2, &mut out);
                    }
                }
            }
            if pos < chars.len() {
                let mut c = chars.clone();
                c[pos] = h;
                one(&c, &mut out);
            }
            if out.violations.len() > 6 {
                break;
            }
        }
        out.class = format!("base{b}:{}classes", classes.len().min(9));
        let mut seen = std::collections::HashSet::new();
        out.violations.retain(|v| seen.insert(v.sig.clone()));
        out
    }
}

// ---------------------------------------------------------------------------------------------------------------
// Every type form in every type position

pub struct TypeForms {
    forms: Vec<String>,
}
impl TypeForms {
    pub fn new() -> Self {
        let leaves = ["int32", "string", "float64", "bool", "S", "E", "EU", "C", "I", "AS", "AI", "AQ", "M", "S::f", "E::A", "Nope", "::M::S", "M::S", "::Nope"];
        let mut forms: Vec<String> = leaves.iter().map(|s| s.to_string()).collect();
        for l in leaves {
            forms.push(format!("{l}?"));
            forms.push(format!("Sequence<{l}>"));
            forms.push(format!("Dictionary<{l}, int32>"));
            forms.push(format!("Dictionary<int32, {l}>"));
            forms.push(format!("Result<{l}, {l}?>"));
            forms.push(format!("Sequence<Sequence<{l}?>>?"));
            forms.push(format!("[cs::a] {l}"));
            forms.push(format!("Dictionary<Sequence<{l}>, Result<{l}, string>>"));
        }
        forms.push("Sequence<int32>??".into());
        forms.push("Sequence<>".into());
        forms.push("Dictionary<int32>".into());
        forms.push("Result<int32, int32, int32>".into());
        TypeForms { forms }
    }
}
const TYPE_POSITIONS: [&str; 14] = [
    "struct U { f: @ }",
    "interface U { o(p: @) }",
    "interface U { o(a: int32, p: stream @) }",
    "interface U { o() -> @ }",
    "interface U { o() -> stream @ }",
    "interface U { o() -> (x: int32, y: @) }",
    "typealias U = @",
    "struct U { f: Sequence<@> }",
    "struct U { f: Dictionary<@, @> }",
    "struct U { f: Result<@, @> }",
    "enum U { V(f: @) }",
    "interface U : @ {}",
    "interface U : I, @ { o() }",
    "enum U : @ { V }",
];
impl Family for TypeForms {
    fn name(&self) -> String {
        format!("type-forms/{} type forms x {} type positions (incl. interface base and enum underlying type)", self.forms.len(), TYPE_POSITIONS.len())
    }
    fn len(&self) -> u64 {
        (self.forms.len() * TYPE_POSITIONS.len()) as u64
    }
    fn describe(&self, idx: u64) -> Value {
        json!({"text": self.text(idx)})
    }
    fn run(&self, idx: u64) -> CaseOut {
        let text = self.text(idx);
        let mut out = CaseOut::new(hash_str(&text));
        out.steps = 0;
        out.nontrivial = true;
        out.class = verdict_both(&[&text], &mut out, "type-forms", &|| text.clone());
        out
    }
}
impl TypeForms {
    fn text(&self, idx: u64) -> String {
        let f = &self.forms[(idx as usize) / TYPE_POSITIONS.len()];
        let p = TYPE_POSITIONS[(idx as usize) % TYPE_POSITIONS.len()];
        format!("module M\nstruct S {{ f: int32 }}\nenum E {{ A(x: int32) }}\nenum EU : uint8 {{ B }}\ncustom C\ninterface I {{}}\ntypealias AS = S\ntypealias AI = int16\ntypealias AQ = Sequence<S>\n{}\n", p.replace('@', f))
    }
}

// ---------------------------------------------------------------------------------------------------------------
// Doc-comment and directive soups

pub struct Soups2 {
    pub n: usize,
}
const DOC_ITEMS: [&str; 22] = [
    "", " ", "text", " @param", " @param x", ": msg", " @returns", " @see", " @see X::Y", " @foo", " @", "{@link X}", "{@link", "{", "}", "{@param x}", "::", "\u{3000}x", "\t\ty", " \u{a0} z", "\r", "é{@link ::}",
];
const DIR_ITEMS: [&str; 26] = ["#define\u{a0}A", "#if A\u{3000}&& B", "#\u{2003}if A", "#undef A\u{b}", "#if A \u{85}", "#elif\u{a0}B", "#if A", "#if", "#if (", "#if !A && B", "#if A || (B", "#elif A", "#else", "#endif", "#define A", "#define", "#undef A", "#", "# if A", "#foo", "#if A // c", "#if A /* c */", "struct P {}", "  ", "#if A &", "#endif x"];
impl Family for Soups2 {
    fn name(&self) -> String {
        format!("comment-and-directive-soups/all sequences of <= {} items over 22 doc-comment fragments (as lines and within one line) and over 26 directive lines (incl. non-ASCII white space inside directives), LF and CRLF", self.n)
    }
    fn len(&self) -> u64 {
        // chunk = (kind, first item)
        (DOC_ITEMS.len() * 2 + DIR_ITEMS.len()) as u64
    }
    fn hang_secs(&self) -> f64 {
        120.0
    }
    fn describe(&self, idx: u64) -> Value {
        json!({"chunk": idx, "doc_items": DOC_ITEMS, "directive_items": DIR_ITEMS})
    }
    fn run(&self, idx: u64) -> CaseOut {
        let mut out = CaseOut::new(hash_str(&format!("soups2-{}-{idx}", self.n)));
        out.steps = 0;
        out.nontrivial = true;
        let (kind, first, items): (usize, usize, &[&str]) = if (idx as usize) < DOC_ITEMS.len() {
            (0, idx as usize, &DOC_ITEMS)
        } else if (idx as usize) < 2 * DOC_ITEMS.len() {
            (1, idx as usize - DOC_ITEMS.len(), &DOC_ITEMS)
        } else {
            (2, idx as usize - 2 * DOC_ITEMS.len(), &DIR_ITEMS)
        };
        let mut seqs: Vec<Vec<&str>> = vec![vec![items[first]]];
        let mut layer = seqs.clone();
        for _ in 1..self.n {
            let mut next = vec![];
            for s in &layer {
                for it in items {
                    let mut x = s.clone();
                    x.push(it);
                    next.push(x);
                }
            }
            seqs.extend(next.iter().cloned());
            layer = next;
        }
        let mut classes = std::collections::BTreeSet::new();
        for s in seqs {
            for crlf in [false, true] {
                let nl = if crlf { "\r\n" } else { "\n" };
                let text = match kind {
                    0 => format!("module M{nl}{}{nl}interface I {{{nl}  /// ok{nl}  op(a: int32) -> int32{nl}}}", s.iter().map(|l| format!("///{l}")).collect::<Vec<_>>().join(nl)),
                    1 => format!("module M{nl}///{}{nl}struct S {{}}{nl}", s.join("")),
                    _ => format!("module M{nl}{}{nl}struct Z {{}}", s.join(nl)),
                };
                // doc comments attach to the next definition: for kind 0 the comment documents interface I
                let c = verdict_both(&[&text], &mut out, "comment-and-directive-soups", &|| text.clone());
                classes.insert(c);
            }
            if out.violations.len() > 6 {
                break;
            }
        }
        out.class = format!("kind{kind}:{}classes", classes.len().min(9));
        let mut seen = std::collections::HashSet::new();
        out.violations.retain(|v| seen.insert(v.sig.clone()));
        out
    }
}



// ---------------------------------------------------------------------------------------------------------------
// Cost growth through the real binary with a generator (the request is built from the AST: another walk)

pub struct GrowthThroughBinary;
const GTB_SIZES: [usize; 6] = [4, 16, 32, 64, 128, 180];
impl Family for GrowthThroughBinary {
    fn name(&self) -> String {
        format!("cost-growth-through-the-binary/alias towers (with users) of {:?} levels compiled by the real binary WITH a generator (request encoding), each under the statement's bound", GTB_SIZES)
    }
    fn len(&self) -> u64 {
        GTB_SIZES.len() as u64 * 2
    }
    fn hang_secs(&self) -> f64 {
        90.0
    }
    fn describe(&self, idx: u64) -> Value {
        let fam = if idx % 2 == 0 { "alias-tower-with-users" } else { "alias-tower-of-dictionaries" };
        json!({"family": fam, "levels": GTB_SIZES[(idx / 2) as usize]})
    }
    fn run(&self, idx: u64) -> CaseOut {
        let fam = if idx % 2 == 0 { "alias-tower-with-users" } else { "alias-tower-of-dictionaries" };
        let size = GTB_SIZES[(idx / 2) as usize];
        let fi = GROWTH_FAMILIES.iter().position(|f| *f == fam).unwrap();
        let text = growth_instance(fi, size);
        let mut out = CaseOut::new(hash_str(&format!("gtb{idx}")));
        out.nontrivial = true;
        let mut sc = Scenario::default();
        sc.tree.push(("t.slice".into(), crate::proc::Node::File(text.clone().into_bytes())));
        sc.gens.push(Gen { name: "gen".into(), install: Install::Script(Script(vec![Step::ReadAll, Step::Stdout(encode_reply(&[], &[])), Step::Exit(0)])) });
        sc.argv = vec!["t.slice".into(), "-G".into(), "{gen0}".into()];
        let obs = run(&sc, Duration::from_secs(20));
        let desc = || format!("{fam}, {size} levels, {} bytes of input\nexit {:?} signal {:?} timed_out {}\nstderr {}", text.len(), obs.exit_code, obs.signal, obs.timed_out, truncate(&show_bytes(&obs.stderr), 400));
        if obs.timed_out {
            out.violate(format!("c01/cost-growth-through-the-binary/{fam}/no-verdict-within-20s"), desc());
        } else if let Some(loc) = obs.panic_location() {
            out.violate(format!("c01/cost-growth-through-the-binary/{fam}/panic@{loc}"), desc());
        } else if obs.signal.is_some() || obs.exit_code != Some(0) {
            out.violate(format!("c01/cost-growth-through-the-binary/{fam}/valid-program-not-compiled"), desc());
        }
        out.class = format!("{fam}:exit{:?}", obs.exit_code);
        out
    }
}


// ---------------------------------------------------------------------------------------------------------------
// The cases of other checks, through the real binary with a generator. The request builder lives in the binary and
// runs only for programs the validators accept: what it takes for granted (values fit, modules exist, attributes are
// known) is exactly what the rule-boundary cases of C04 vary.

pub struct FilesThroughBinary {
    pub inner: Box<dyn Family>,
    pub stride: u64,
}
impl Family for FilesThroughBinary {
    fn name(&self) -> String {
        format!("cases-through-the-binary/compiled by the real binary with a capturing generator (request encoding), verdict only{}: {}", if self.stride > 1 { format!(", every {}th case", self.stride) } else { String::new() }, self.inner.name())
    }
    fn len(&self) -> u64 {
        (self.inner.len() + self.stride - 1) / self.stride
    }
    fn hang_secs(&self) -> f64 {
        60.0
    }
    fn describe(&self, idx: u64) -> Value {
        self.inner.describe(idx * self.stride)
    }
    fn run(&self, idx: u64) -> CaseOut {
        let d = self.inner.describe(idx * self.stride);
        let mut out = CaseOut::new(hash_str(&format!("ftb/{}/{idx}", self.inner.name())));
        let files: Vec<String> = d["files"].as_array().map(|a| a.iter().filter_map(|x| x.as_str().map(|s| s.to_string())).collect()).unwrap_or_default();
        if files.is_empty() {
            out.class = "no-files".into();
            return out;
        }
        out.nontrivial = true;
        let mut sc = Scenario::default();
        for (i, f) in files.iter().enumerate() {
            sc.tree.push((format!("f{i}.slice"), crate::proc::Node::File(f.clone().into_bytes())));
            sc.argv.push(format!("f{i}.slice"));
        }
        sc.gens.push(Gen { name: "gen".into(), install: Install::Script(Script(vec![Step::ReadAll, Step::Stdout(encode_reply(&[], &[])), Step::Exit(0)])) });
        sc.argv.push("-G".into());
        sc.argv.push("{gen0}".into());
        let obs = run(&sc, Duration::from_secs(20));
        let fam = self.inner.name().split('/').next().unwrap_or("").to_string();
        let desc = || format!("files: {files:?}\nexit {:?} signal {:?} timed_out {}\nstderr {}", obs.exit_code, obs.signal, obs.timed_out, truncate(&show_bytes(&obs.stderr), 600));
        if obs.timed_out {
            out.violate(format!("c01/cases-through-the-binary/{fam}/no-verdict-within-20s"), desc());
        } else if let Some(loc) = obs.panic_location() {
            out.violate(format!("c01/cases-through-the-binary/{fam}/panic@{loc}"), desc());
        } else if let Some(sig) = obs.signal {
            out.violate(format!("c01/cases-through-the-binary/{fam}/signal-{sig}"), desc());
        } else if !matches!(obs.exit_code, Some(0) | Some(1)) {
            out.violate(format!("c01/cases-through-the-binary/{fam}/exit-status-{:?}", obs.exit_code), desc());
        }
        out.class = format!("{fam}:exit{:?}", obs.exit_code);
        out
    }
}


// ---------------------------------------------------------------------------------------------------------------
// A file that is refused as a whole (it has definitions but no module declaration) next to healthy files: whatever
// the refused file defined must not live on in what the other files are resolved against - least of all a
// definition named like a primitive type.

pub struct RefusedFiles;
const RF_NAMES: [&str; 21] = [
    "\\bool", "\\int8", "\\uint8", "\\int16", "\\uint16", "\\int32", "\\uint32", "\\varint32", "\\varuint32", "\\int64", "\\uint64", "\\varint62", "\\varuint62", "\\float32", "\\float64", "\\string", "\\AnyClass",
    "S", "M", "U", "\\Sequence",
];
const RF_KINDS: [&str; 7] = ["struct {N} {}", "compact struct {N} { x: {N} }", "enum {N} { A }", "unchecked enum {N} : uint8 {}", "typealias {N} = Sequence<{N}>", "custom {N}", "interface {N} { op() }"];
const RF_SHAPES: [&str; 4] = ["{D}\n", "{D}\nstruct Other { a: {N} }\n", "{D}\nmodule M\n", "[[allow(All)]]\n{D}\n"];
const RF_USERS: [&str; 7] = [
    "module M\nstruct U { a: int32, b: string?, c: Sequence<uint8> }\n",
    "module M\nstruct U { a: S }\nstruct S {}\n",
    "module M\ninterface I { op(a: varuint62, b: Dictionary<string, bool>) -> Result<float64, AnyClass?> }\n",
    "module M\nenum E : uint8 { A = 1 }\ntypealias T = Sequence<int64>\nstruct U { t: T, e: E }\n",
    "module M::N\ncustom C\nstruct U { tag(1) a: int16?, c: C }\n",
    "module M\n/// See {@link int32} and {@link S}.\nstruct U { a: float32 }\n",
    "struct AlsoRefused { a: int32 }\n",
];
impl RefusedFiles {
    fn texts(&self, idx: u64) -> Vec<String> {
        let mut i = idx as usize;
        let order = i % 3;
        i /= 3;
        let user = RF_USERS[i % RF_USERS.len()];
        i /= RF_USERS.len();
        let shape = RF_SHAPES[i % RF_SHAPES.len()];
        i /= RF_SHAPES.len();
        let kind = RF_KINDS[i % RF_KINDS.len()];
        i /= RF_KINDS.len();
        let name = RF_NAMES[i];
        let refused = shape.replace("{D}", kind).replace("{N}", name);
        match order {
            0 => vec![refused, user.to_string()],
            1 => vec![user.to_string(), refused],
            _ => vec![RF_USERS[0].replace("module M", "module First"), refused, user.to_string()],
        }
    }
}
impl Family for RefusedFiles {
    fn name(&self) -> String {
        format!("refused-files/a file without a module declaration holding {} kinds of definition under {} names (every primitive type name escaped, names of the other file) in {} shapes x {} other files x 3 arrangements", RF_KINDS.len(), RF_NAMES.len(), RF_SHAPES.len(), RF_USERS.len())
    }
    fn len(&self) -> u64 {
        (RF_NAMES.len() * RF_KINDS.len() * RF_SHAPES.len() * RF_USERS.len() * 3) as u64
    }
    fn describe(&self, idx: u64) -> Value {
        json!({"files": self.texts(idx)})
    }
    fn run(&self, idx: u64) -> CaseOut {
        let texts = self.texts(idx);
        let mut out = CaseOut::new(hash_str(&texts.join("\u{1}")));
        out.nontrivial = true;
        let refs: Vec<&str> = texts.iter().map(|s| s.as_str()).collect();
        out.class = verdict_both(&refs, &mut out, "refused-files", &|| texts.join("\n--- next file ---\n"));
        out
    }
}

// ---------------------------------------------------------------------------------------------------------------
// Where the output goes: the diagnostics and the summary are written at the very end, to streams the compiler does
// not control - a reader that has gone away, a full device, a closed descriptor.

pub struct OutputStreams;
const OS_STREAMS: [&str; 4] = ["pipe", "full", "broken", "closed"];
const OS_PROGRAMS: [(&str, &str); 5] = [
    ("clean", "module M\nstruct S { a: int32 }\n"),
    ("warnings", "module M\n[deprecated] struct D {}\nstruct U { d: D }\n/// @param nope: x\ninterface I { op() }\n"),
    ("syntax-error", "module M\nstruct {\n"),
    ("many-errors", "module M\nstruct S { a: X1, b: X2, c: X3, d: X4, e: X5, f: X6, g: X7, h: X8 }\n"),
    ("missing-file", ""),
];
const OS_GENS: [&str; 4] = ["no generator", "a generator replying with a warning", "a generator that fails with text on stderr", "two generators"];
impl OutputStreams {
    fn scenario(&self, idx: u64) -> (Scenario, String) {
        let mut i = idx as usize;
        let so = OS_STREAMS[i % 4];
        i /= 4;
        let se = OS_STREAMS[i % 4];
        i /= 4;
        let json = i % 2 == 1;
        i /= 2;
        let g = i % OS_GENS.len();
        i /= OS_GENS.len();
        let (pname, text) = OS_PROGRAMS[i];
        let mut sc = Scenario::default();
        if pname == "missing-file" {
            sc.argv.push("missing.slice".into());
        } else {
            sc.tree.push(("t.slice".into(), crate::proc::Node::File(text.as_bytes().to_vec())));
            sc.argv.push("t.slice".into());
        }
        let warn = Gen { name: "warns".into(), install: Install::Script(Script(vec![Step::ReadAll, Step::Stdout(encode_reply(&[crate::proc::rfile("out.txt", "x")], &[crate::proc::RDiag { level: 1, message: "a warning from the generator".into(), source: None }])), Step::Exit(0)])) };
        let fails = Gen { name: "fails".into(), install: Install::Script(Script(vec![Step::ReadAll, Step::Stderr(b"it went wrong\n".to_vec()), Step::Exit(3)])) };
        match g {
            0 => {}
            1 => sc.gens.push(warn),
            2 => sc.gens.push(fails),
            _ => {
                sc.gens.push(warn);
                sc.gens.push(fails);
            }
        }
        for k in 0..sc.gens.len() {
            sc.argv.push("-G".into());
            sc.argv.push(format!("{{gen{k}}}"));
        }
        if json {
            sc.argv.extend(["--diagnostic-format".to_string(), "json".into()]);
        }
        sc.env.push(("MC_STDOUT".into(), so.into()));
        sc.env.push(("MC_STDERR".into(), se.into()));
        let d = format!("program {pname}, {}, format {}, stdout -> {so}, stderr -> {se}", OS_GENS[g], if json { "json" } else { "human" });
        (sc, d)
    }
}
impl Family for OutputStreams {
    fn name(&self) -> String {
        format!("output-streams/{} programs x {} generator set-ups x 2 formats x stdout and stderr each leading to {:?} (captured, /dev/full, a pipe nobody reads, closed)", OS_PROGRAMS.len(), OS_GENS.len(), OS_STREAMS)
    }
    fn len(&self) -> u64 {
        (OS_PROGRAMS.len() * OS_GENS.len() * 2 * 16) as u64
    }
    fn hang_secs(&self) -> f64 {
        60.0
    }
    fn describe(&self, idx: u64) -> Value {
        let (sc, d) = self.scenario(idx);
        json!({"scenario": d, "argv": sc.argv})
    }
    fn run(&self, idx: u64) -> CaseOut {
        let (sc, d) = self.scenario(idx);
        let mut out = CaseOut::new(hash_str(&format!("c01os{idx}")));
        out.nontrivial = !d.contains("stdout -> pipe, stderr -> pipe");
        let obs = run(&sc, Duration::from_secs(20));
        let desc = || format!("{d}\nargv {:?}\nexit {:?} signal {:?} timed_out {}\nstdout {}\nstderr {}", obs.argv, obs.exit_code, obs.signal, obs.timed_out, truncate(&show_bytes(&obs.stdout), 300), truncate(&show_bytes(&obs.stderr), 600));
        if obs.timed_out {
            out.violate("c01/output-streams/hang", desc());
        } else if let Some(loc) = obs.panic_location() {
            out.violate(format!("c01/output-streams/panic@{loc}"), desc());
        } else if let Some(sig) = obs.signal {
            out.violate(format!("c01/output-streams/signal-{sig}"), desc());
        } else if !matches!(obs.exit_code, Some(0) | Some(1) | Some(2)) {
            out.violate(format!("c01/output-streams/exit-status-{:?}", obs.exit_code), desc());
        }
        out.class = format!("exit{:?}", obs.exit_code);
        out
    }
}

// ---------------------------------------------------------------------------------------------------------------
// Dense containment cycles: complete graphs of structs and enums. The cycle detector reports one cycle per distinct
// SET of types and finds them by walking every simple path, so its cost is factorial in the number of types that
// all contain each other (measured: 9 types 1.3 s, 10 types 14 s, 11 types - 954 bytes - about 140 s).

pub struct DenseCycles;
const DC_TIMED_IN_PROCESS: [usize; 7] = [3, 4, 5, 6, 7, 8, 9];
const DC_THROUGH_BINARY: [usize; 1] = [11];
impl DenseCycles {
    fn text(n: usize, enums: bool) -> String {
        let mut s = String::from("module G\n");
        for i in 0..n {
            if enums && i % 3 == 1 {
                s.push_str(&format!("enum N{i} {{ {} }}\n", (0..n).filter(|j| *j != i).map(|j| format!("V{j}(f{j}: N{j})")).collect::<Vec<_>>().join(" ")));
            } else {
                s.push_str(&format!("struct N{i} {{ {} }}\n", (0..n).filter(|j| *j != i).map(|j| format!("f{j}: N{j}")).collect::<Vec<_>>().join(" ")));
            }
        }
        s
    }
}
impl Family for DenseCycles {
    fn name(&self) -> String {
        format!("dense-cycles/complete containment graphs (every type has a field of every other type; all structs, and every third an enum) on {DC_TIMED_IN_PROCESS:?} types in-process and on {DC_THROUGH_BINARY:?} types through the binary with a 20 s watchdog")
    }
    fn len(&self) -> u64 {
        ((DC_TIMED_IN_PROCESS.len() + DC_THROUGH_BINARY.len()) * 2) as u64
    }
    fn hang_secs(&self) -> f64 {
        90.0
    }
    fn describe(&self, idx: u64) -> Value {
        let k = (idx / 2) as usize;
        let n = if k < DC_THROUGH_BINARY.len() { DC_THROUGH_BINARY[k] } else { DC_TIMED_IN_PROCESS[k - DC_THROUGH_BINARY.len()] };
        json!({"types": n, "files": [Self::text(n, idx % 2 == 1)]})
    }
    fn run(&self, idx: u64) -> CaseOut {
        let k = (idx / 2) as usize;
        let enums = idx % 2 == 1;
        let mut out = CaseOut::new(hash_str(&format!("c01dc{idx}")));
        out.nontrivial = true;
        if k >= DC_THROUGH_BINARY.len() {
            let n = DC_TIMED_IN_PROCESS[k - DC_THROUGH_BINARY.len()];
            let text = Self::text(n, enums);
            out.class = verdict_both(&[&text], &mut out, &format!("dense-cycles/complete-graph-on-{n}-types"), &|| text.clone());
            return out;
        }
        // (the slow cases come first, so that they start at once, each in a worker of its own)
        let n = DC_THROUGH_BINARY[k];
        let text = Self::text(n, enums);
        let mut sc = Scenario::default();
        sc.tree.push(("t.slice".into(), crate::proc::Node::File(text.clone().into_bytes())));
        sc.argv = vec!["t.slice".into()];
        // (no second attempt after the watchdog: two orders of magnitude separate this input from the bound)
        let scratch = crate::proc::Scratch::new();
        let obs = crate::proc::run_in(&scratch, &sc, Duration::from_secs(20));
        let desc = || format!("a complete containment graph on {n} types, {} bytes of input\nexit {:?} signal {:?} timed_out {} after {:.1} s\nstderr {}\n--- input ---\n{text}", text.len(), obs.exit_code, obs.signal, obs.timed_out, obs.wall.as_secs_f64(), truncate(&show_bytes(&obs.stderr), 300));
        if obs.timed_out {
            out.violate(format!("c01/dense-cycles/complete-graph-on-{n}-types/no-verdict-within-20s"), desc());
        } else if let Some(loc) = obs.panic_location() {
            out.violate(format!("c01/dense-cycles/complete-graph-on-{n}-types/panic@{loc}"), desc());
        } else if obs.signal.is_some() || obs.exit_code != Some(1) {
            out.violate(format!("c01/dense-cycles/complete-graph-on-{n}-types/cycles-not-reported"), desc());
        }
        out.class = format!("{n}:exit{:?}:timed_out={}", obs.exit_code, obs.timed_out);
        out
    }
}

// ---------------------------------------------------------------------------------------------------------------
// Nesting far beyond the 8 KiB of the growth families: the phases that walk nested constructs recursively (the
// evaluation of a parenthesised #if condition, the visitors and patchers on nested type expressions) have no depth
// limit. Through the real binary (its main thread has the stack a user gets).

pub struct DeepNesting;
/// (shape, levels, true = far beyond what the stack holds: the open finding)
const DN_CASES: [(&str, usize, bool); 6] = [
    // (measured with the 8 MiB stack of the main thread: the first overflows between 40 000 and 90 000 levels, the
    // second - in the request builder, which runs even without a generator - between 15 000 and 20 000, the third
    // between 10 000 and 20 000)
    ("parenthesised-condition", 400_000, true),
    ("nested-sequences", 160_000, true),
    ("nested-conditionals", 200_000, true),
    ("parenthesised-condition", 5_000, false),
    ("nested-sequences", 5_000, false),
    ("nested-conditionals", 5_000, false),
];
impl DeepNesting {
    fn text(shape: &str, n: usize) -> String {
        match shape {
            "parenthesised-condition" => format!("module M\n#if {}A{}\nstruct S {{}}\n#endif\n", "(".repeat(n), ")".repeat(n)),
            "nested-sequences" => format!("module M\nstruct S {{ a: {}int32{} }}\n", "Sequence<".repeat(n), ">".repeat(n)),
            _ => format!("module M\n{}struct S {{}}\n{}", "#if A\n".repeat(n), "#endif\n".repeat(n)),
        }
    }
}
impl Family for DeepNesting {
    fn name(&self) -> String {
        "deep-nesting/parenthesised #if conditions, nested sequences and nested #if blocks (with the symbol defined) of 5 000 levels (10 .. 65 KiB: must end with a verdict) and of 400 000 / 160 000 / 200 000 levels (0.8 .. 2.5 MiB, ten times what the stack holds: the open finding), through the real binary".into()
    }
    fn len(&self) -> u64 {
        DN_CASES.len() as u64
    }
    fn hang_secs(&self) -> f64 {
        90.0
    }
    fn describe(&self, idx: u64) -> Value {
        let (shape, n, _) = DN_CASES[idx as usize];
        json!({"shape": shape, "levels": n, "bytes": Self::text(shape, n).len()})
    }
    fn run(&self, idx: u64) -> CaseOut {
        let (shape, n, beyond) = DN_CASES[idx as usize];
        // (the depths that must compile were measured against the usual 8 MiB stack of the main thread; where the
        // platform hands out less, they shrink in proportion - the statement names no platform)
        let n = if beyond {
            n
        } else {
            let mut lim = libc::rlimit { rlim_cur: 0, rlim_max: 0 };
            let ok = unsafe { libc::getrlimit(libc::RLIMIT_STACK, &mut lim) } == 0;
            if ok && lim.rlim_cur != libc::RLIM_INFINITY && lim.rlim_cur < (8 << 20) {
                ((n as u64 * lim.rlim_cur as u64 / (8 << 20)) as usize).max(50)
            } else {
                n
            }
        };
        let text = Self::text(shape, n);
        let mut out = CaseOut::new(hash_str(&format!("c01dn{idx}")));
        out.nontrivial = true;
        let mut sc = Scenario::default();
        sc.tree.push(("t.slice".into(), crate::proc::Node::File(text.clone().into_bytes())));
        sc.argv = vec!["t.slice".into(), "-D".into(), "A".into()];
        let obs = run(&sc, Duration::from_secs(20));
        let desc = || format!("{shape}, {n} levels, {} bytes of input\nexit {:?} signal {:?} timed_out {}\nstderr {}", text.len(), obs.exit_code, obs.signal, obs.timed_out, truncate(&show_bytes(&obs.stderr), 300));
        let overflow = obs.signal == Some(libc::SIGABRT) || obs.signal == Some(libc::SIGSEGV) || String::from_utf8_lossy(&obs.stderr).contains("stack overflow");
        if beyond {
            // one signature per shape, whatever the depth: the entry of known_findings.json names exactly this
            // (nothing else is judged at this size: the time bound of the statement ends at 8 KiB, and on a platform
            // that hands out a larger stack the input is simply compiled)
            if overflow {
                out.violate(format!("c01/deep-nesting/{shape}/stack-overflow-beyond-100KiB"), desc());
            } else if let Some(loc) = obs.panic_location() {
                out.violate(format!("c01/deep-nesting/{shape}-of-{n}-levels/panic@{loc}"), desc());
            }
        } else if obs.timed_out {
            out.violate(format!("c01/deep-nesting/{shape}-of-{n}-levels/no-verdict-within-20s"), desc());
        } else if overflow {
            out.violate(format!("c01/deep-nesting/{shape}-of-{n}-levels/stack-overflow"), desc());
        } else if let Some(loc) = obs.panic_location() {
            out.violate(format!("c01/deep-nesting/{shape}-of-{n}-levels/panic@{loc}"), desc());
        } else if obs.signal.is_some() || obs.exit_code != Some(0) {
            out.violate(format!("c01/deep-nesting/{shape}-of-{n}-levels/valid-program-not-compiled"), desc());
        }
        out.class = format!("{shape}:{n}:exit{:?}:signal{:?}", obs.exit_code, obs.signal);
        out
    }
}

// ---------------------------------------------------------------------------------------------------------------
// The pipe protocol at sizes beyond a pipe buffer: the request is written by a thread while the generator's output is
// collected, so no order in which a generator reads and writes may leave both sides waiting for each other.

pub struct PipeProtocol;
const PP_BEHAVIOURS: [&str; 6] = ["reads everything, then replies", "replies (200 KB) BEFORE it reads anything", "replies and exits without reading", "closes its stdin, then replies", "reads 10 bytes, replies (200 KB), reads the rest", "writes 200 KB to stderr before it reads"];
impl PipeProtocol {
    fn scenario(idx: u64) -> (Scenario, String) {
        if idx >= 24 {
            // a reply that names an EMPTY file where something that is not a regular file already is (a named pipe nobody
            // reads, a link to a device that never ends): nothing to compare, nothing to write - and nothing to wait for
            let mut sc = Scenario::default();
            sc.tree.push(("t.slice".into(), crate::proc::Node::File(b"module M\nstruct S { a: int32 }\n".to_vec())));
            sc.tree.push(("out".into(), crate::proc::Node::Dir));
            sc.tree.push(("out/special.txt".into(), if idx == 24 { crate::proc::Node::Fifo } else { crate::proc::Node::Symlink("/dev/zero".into()) }));
            let reply = encode_reply(&[crate::proc::rfile("special.txt", ""), crate::proc::rfile("plain.txt", "x\n")], &[]);
            sc.gens.push(Gen { name: "gen".into(), install: Install::Script(Script(vec![Step::ReadAll, Step::Stdout(reply), Step::Exit(0)])) });
            sc.argv = vec!["t.slice".into(), "-G".into(), "{gen0}".into(), "-O".into(), "out".into()];
            return (sc, format!("a reply naming an empty file where {} already is", if idx == 24 { "a named pipe" } else { "a link to /dev/zero" }));
        }
        let b = (idx % 6) as usize;
        let big_request = (idx / 6) % 2 == 1;
        let two = idx / 12 == 1;
        let mut sc = Scenario::default();
        sc.tree.push(("t.slice".into(), crate::proc::Node::File(b"module M\nstruct S { a: int32 }\n".to_vec())));
        let big_reply = encode_reply(&[crate::proc::rfile("big.txt", &"generated line\n".repeat(14_000))], &[]);
        let small_reply = encode_reply(&[crate::proc::rfile("small.txt", "x\n")], &[]);
        let steps = match b {
            0 => vec![Step::ReadAll, Step::Stdout(small_reply.clone()), Step::Exit(0)],
            1 => vec![Step::Stdout(big_reply.clone()), Step::ReadAll, Step::Exit(0)],
            2 => vec![Step::Stdout(small_reply.clone()), Step::Exit(0)],
            3 => vec![Step::CloseStdin, Step::Stdout(small_reply.clone()), Step::Exit(0)],
            4 => vec![Step::Read(10), Step::Stdout(big_reply.clone()), Step::ReadAll, Step::Exit(0)],
            _ => vec![Step::Stderr("a long complaint\n".repeat(12_000).into_bytes()), Step::ReadAll, Step::Stdout(small_reply.clone()), Step::Exit(0)],
        };
        sc.gens.push(Gen { name: "gen".into(), install: Install::Script(Script(steps)) });
        // (the arguments of a generator are part of what it is sent: a long argument makes a large request)
        let spec = if big_request { format!("{{gen0}},blob={}", "b".repeat(100_000)) } else { "{gen0}".to_string() };
        sc.argv = vec!["t.slice".into(), "-G".into(), spec];
        if two {
            sc.gens.push(Gen { name: "second".into(), install: Install::Script(Script(vec![Step::ReadAll, Step::Stdout(small_reply), Step::Exit(0)])) });
            sc.argv.extend(["-G".to_string(), "{gen1}".to_string()]);
        }
        (sc, format!("generator that {}; request {}; {}", PP_BEHAVIOURS[b], if big_request { "of 100 KB (a long argument)" } else { "small" }, if two { "a healthy second generator behind it" } else { "alone" }))
    }
}
impl Family for PipeProtocol {
    fn name(&self) -> String {
        format!("pipe-protocol/{} generator behaviours (order of reading and of writing 200 KB) x request small / 100 KB x alone / before a second generator: slicec ends within 20 s with exit status 0 or 1", PP_BEHAVIOURS.len())
    }
    fn len(&self) -> u64 {
        26
    }
    fn hang_secs(&self) -> f64 {
        90.0
    }
    fn describe(&self, idx: u64) -> Value {
        json!({"scenario": Self::scenario(idx).1})
    }
    fn run(&self, idx: u64) -> CaseOut {
        let (sc, what) = Self::scenario(idx);
        let mut out = CaseOut::new(hash_str(&format!("c01pp{idx}")));
        out.nontrivial = true;
        let obs = run(&sc, Duration::from_secs(20));
        let desc = || format!("{what}\nexit {:?} signal {:?} timed_out {}\nstderr {}", obs.exit_code, obs.signal, obs.timed_out, truncate(&show_bytes(&obs.stderr), 400));
        if obs.timed_out {
            out.violate("c01/pipe-protocol/no-verdict-within-20s", desc());
        } else if let Some(loc) = obs.panic_location() {
            out.violate(format!("c01/pipe-protocol/panic@{loc}"), desc());
        } else if obs.signal.is_some() || !matches!(obs.exit_code, Some(0) | Some(1)) {
            out.violate("c01/pipe-protocol/exit-status", desc());
        }
        out.class = format!("b{}:exit{:?}", idx % 6, obs.exit_code);
        out
    }
}

// ---------------------------------------------------------------------------------------------------------------
// Cycles whose members also break (or skirt) other rules, next to every kind of user: validators that walk through
// types (key rules, compactness, ...) rely on the cycle check having run and having seen THESE members too.

pub struct CyclesWithUsers;
const CW_KINDS: [&str; 4] = ["struct", "compact struct", "enum", "compact enum"];
const CW_DECOR: [&str; 9] = ["f: {T}", "f: {T}?", "tag(1) f: {T}", "tag(1) f: {T}?", "f: Sequence<{T}>", "f: Dictionary<{T}, int32>", "f: Dictionary<int32, {T}>", "tag(2) f: Result<{T}, {T}>", "[deprecated] f: {T}"];
const CW_USERS: [&str; 8] = [
    "",
    "struct U { d: Dictionary<N0, string> }",
    "struct U { d: Dictionary<string, N0> s: Sequence<N0?> }",
    "typealias A = Dictionary<N0, N0>\nstruct U { a: A? }",
    "compact struct U { n: N0 }\nstruct V { d: Dictionary<U, bool> }",
    "interface I { op(k: Dictionary<N0, bool>) -> Result<N0, N0> }",
    "enum E { X(tag(1) k: Dictionary<N0, int32>?) }",
    "unchecked enum E : N0 { X }",
];
impl Family for CyclesWithUsers {
    fn name(&self) -> String {
        format!("cycles-with-users/1- and 2-node containment cycles x {} kinds x {} member forms (tagged, optional, wrapped, deprecated) x {} users of the cyclic type (dictionary key, compact container, alias, operation, enumerator field, underlying type) x 1-2 files", CW_KINDS.len(), CW_DECOR.len(), CW_USERS.len())
    }
    fn len(&self) -> u64 {
        (2 * CW_KINDS.len() * CW_KINDS.len() * CW_DECOR.len() * CW_USERS.len() * 2) as u64
    }
    fn describe(&self, idx: u64) -> Value {
        json!({"files": Self::texts(idx)})
    }
    fn run(&self, idx: u64) -> CaseOut {
        let texts = Self::texts(idx);
        let mut out = CaseOut::new(hash_str(&texts.join("\u{0}")));
        out.steps = 0;
        out.nontrivial = true;
        let refs: Vec<&str> = texts.iter().map(|s| s.as_str()).collect();
        out.class = verdict_both(&refs, &mut out, "cycles-with-users", &|| texts.join("\n--- next file ---\n"));
        out
    }
    fn crash_sig(&self, _idx: u64, how: &str) -> String {
        format!("c01/cycles-with-users/{how}")
    }
}
impl CyclesWithUsers {
    fn texts(idx: u64) -> Vec<String> {
        let d = decode_index(idx, &[2, CW_KINDS.len() as u64, CW_KINDS.len() as u64, CW_DECOR.len() as u64, CW_USERS.len() as u64, 2]);
        let (two_nodes, k0, k1, decor, user, two_files) = (d[0] == 1, d[1] as usize, d[2] as usize, d[3] as usize, d[4] as usize, d[5] == 1);
        let def = |kind: &str, name: &str, target: &str| -> String {
            let m = CW_DECOR[decor].replace("{T}", target);
            if kind.ends_with("enum") {
                format!("{kind} {name} {{ V({m}) W }}")
            } else {
                format!("{kind} {name} {{ {m} }}")
            }
        };
        let mut first = String::from("module G\n");
        let mut second = String::from("module G\n");
        if two_nodes {
            first.push_str(&def(CW_KINDS[k0], "N0", "N1"));
            first.push('\n');
            second.push_str(&def(CW_KINDS[k1], "N1", "N0"));
            second.push('\n');
        } else {
            first.push_str(&def(CW_KINDS[k0], "N0", "N0"));
            first.push('\n');
            // (k1 then varies the kind of a bystander that merely contains N0)
            second.push_str(&format!("{} B {{ {} }}\n", CW_KINDS[k1], if CW_KINDS[k1].ends_with("enum") { "V(b: N0) W".to_string() } else { "b: N0".to_string() }));
        }
        second.push_str(CW_USERS[user]);
        second.push('\n');
        if two_files {
            vec![first, second]
        } else {
            vec![format!("{first}{}", second.strip_prefix("module G\n").unwrap())]
        }
    }
}

// ---------------------------------------------------------------------------------------------------------------
// Every kind of white space (and a few look-alikes) at every position of texts that exercise all three lexers

pub struct WhitespaceKinds;
/// the 25 characters with the Unicode White_Space property, and look-alikes that do not have it
const WS_CHARS: [char; 30] = [
    '\u{9}', '\u{a}', '\u{b}', '\u{c}', '\u{d}', '\u{20}', '\u{85}', '\u{a0}', '\u{1680}', '\u{2000}', '\u{2001}', '\u{2002}', '\u{2003}', '\u{2004}', '\u{2005}', '\u{2006}', '\u{2007}', '\u{2008}', '\u{2009}', '\u{200a}', '\u{2028}',
    '\u{2029}', '\u{202f}', '\u{205f}', '\u{3000}', '\u{200b}', '\u{feff}', '\u{180e}', '\u{1c}', '\u{0}',
];
const WS_BASES: [&str; 6] = [
    "module M\nstruct S { a: int32, tag(1) b: Sequence<string>? }\n",
    "module M\n#define A\n#if A && !(B || C)\nstruct P {}\n#elif B\n#else\n#endif\n#undef A\n",
    "module M\n/// Overview {@link S} text.\n/// @param a: the a\n///   more\n/// @returns: r\n/// @see S\ninterface I { op(a: int32) -> int32 }\nstruct S {}\n",
    "[[allow(All)]]\nmodule M\n[cs::attr(\"a b\", c)] [deprecated(\"x\")] enum E : uint8 { A = 1, B }\n",
    "module M::N\ninterface I : J { idempotent op(stream a: int32) -> (x: bool, y: Dictionary<string, int32>) }\ninterface J {}\n",
    "module M\ntypealias T = Result<int32, string>\ncustom C\nunchecked enum U { V(f: T) }\ncompact struct K { k: varint62 }\n",
];
impl Family for WhitespaceKinds {
    fn name(&self) -> String {
        format!("whitespace-kinds/each of {} white-space characters and look-alikes inserted at, and substituted for, every character of {} texts (Slice source, directives, doc comments, attributes)", WS_CHARS.len(), WS_BASES.len())
    }
    fn len(&self) -> u64 {
        (WS_CHARS.len() * WS_BASES.len()) as u64
    }
    fn describe(&self, idx: u64) -> Value {
        json!({"character": format!("U+{:04X}", WS_CHARS[(idx as usize) % WS_CHARS.len()] as u32), "base_text": WS_BASES[(idx as usize) / WS_CHARS.len()], "positions": "every character position: inserted before it, and substituted for it"})
    }
    fn run(&self, idx: u64) -> CaseOut {
        let c = WS_CHARS[(idx as usize) % WS_CHARS.len()];
        let base: Vec<char> = WS_BASES[(idx as usize) / WS_CHARS.len()].chars().collect();
        let mut out = CaseOut::new(hash_str(&format!("wskinds{idx}")));
        out.steps = 0;
        out.nontrivial = true;
        let mut classes = std::collections::BTreeSet::new();
        for pos in 0..=base.len() {
            for substitute in [false, true] {
                if substitute && pos == base.len() {
                    continue;
                }
                let mut t: Vec<char> = base.clone();
                if substitute {
                    t[pos] = c;
                } else {
                    t.insert(pos, c);
                }
                let text: String = t.into_iter().collect();
                classes.insert(verdict_both(&[&text], &mut out, "whitespace-kinds", &|| format!("U+{:04X} {} position {pos} of:\n{text}", c as u32, if substitute { "substituted at" } else { "inserted at" })));
            }
            if out.violations.len() > 4 {
                break;
            }
        }
        out.class = format!("{}classes", classes.len().min(9));
        let mut seen = std::collections::HashSet::new();
        out.violations.retain(|v| seen.insert(v.sig.clone()));
        out
    }
}

// ---------------------------------------------------------------------------------------------------------------
// Cost growth

pub const GROWTH_FAMILIES: [&str; 21] = [
    "layered-dag-width-2", "layered-dag-width-3", "fan-in-dag", "deep-sequence-nesting", "deep-parenthesised-if", "deep-if-nesting", "long-alias-chain", "inheritance-lattice-width-2", "many-fields", "many-definitions", "long-doc-comment", "layered-dag-with-back-edge",
    "deep-dictionary-value-nesting", "alias-tower-of-results", "alias-tower-with-users", "alias-tower-of-dictionaries",
    // a cycle that has nothing to do with the dense part, met BEFORE it, after it, and in the middle of it: what the
    // cycle detector remembers (or counts) while it reports the cycle must not change the cost of the rest
    "self-cycle-then-layered-dag", "layered-dag-then-self-cycle", "enum-cycle-inside-fan-in-dag",
    // dictionary keys: compact structs whose fields share their (compact struct) types, all valid and with a field
    // type at the bottom that no key may have
    "compact-key-tower", "invalid-compact-key-tower",
];

pub fn growth_instance(fam: usize, size: usize) -> String {
    let mut s = String::from("module G\n");
    match GROWTH_FAMILIES[fam] {
        "layered-dag-width-2" => {
            for i in 0..size {
                s.push_str(&format!("struct S{i} {{ a: S{} b: S{} }}\n", i + 1, i + 1));
            }
            s.push_str(&format!("struct S{size} {{}}\n"));
        }
        "layered-dag-width-3" => {
            for i in 0..size {
                for w in 0..3 {
                    s.push_str(&format!("struct L{i}w{w} {{ a: L{}w0 b: L{}w1 c: L{}w2? }}\n", i + 1, i + 1, i + 1));
                }
            }
            for w in 0..3 {
                s.push_str(&format!("struct L{size}w{w} {{}}\n"));
            }
        }
        "fan-in-dag" => {
            for i in 0..size {
                let fields: Vec<String> = (i + 1..size).map(|j| format!("f{j}: F{j}")).collect();
                s.push_str(&format!("struct F{i} {{ {} }}\n", fields.join(" ")));
            }
        }
        "deep-sequence-nesting" => {
            s.push_str(&format!("struct D {{ a: {}int32{} }}\n", "Sequence<".repeat(size), ">".repeat(size)));
        }
        "deep-dictionary-value-nesting" => {
            s.push_str(&format!("typealias D = {}string{}\n", "Dictionary<int32, ".repeat(size), ">".repeat(size)));
        }
        "deep-parenthesised-if" => {
            s.push_str(&format!("#if {}A{}\nstruct P {{}}\n#endif\n", "(".repeat(size), ")".repeat(size)));
        }
        "deep-if-nesting" => {
            for _ in 0..size {
                s.push_str("#if !A\n");
            }
            s.push_str("struct P {}\n");
            for _ in 0..size {
                s.push_str("#endif\n");
            }
        }
        "long-alias-chain" => {
            for i in 0..size {
                s.push_str(&format!("typealias A{i} = A{}\n", i + 1));
            }
            s.push_str(&format!("typealias A{size} = int32\nstruct U {{ a: A0 b: Sequence<A0> }}\n"));
        }
        // towers of aliases of two-armed anonymous types: every level shares the level below on both arms
        "alias-tower-of-results" => {
            s.push_str("typealias T0 = Sequence<int32>\n");
            for i in 1..=size {
                s.push_str(&format!("typealias T{i} = Result<T{}, T{}>\n", i - 1, i - 1));
            }
        }
        "alias-tower-with-users" => {
            s.push_str("typealias T0 = Sequence<int32>\n");
            for i in 1..=size {
                s.push_str(&format!("typealias T{i} = Result<T{}, T{}>\n", i - 1, i - 1));
            }
            s.push_str(&format!("struct S {{ f: T{size} g: Sequence<T{size}?> }}\ninterface I {{ op(a: T{size}) -> (x: T{size}, y: bool) }}\nenum E {{ A(x: T{size}) }}\n"));
        }
        "alias-tower-of-dictionaries" => {
            s.push_str("typealias T0 = string\n");
            for i in 1..=size {
                s.push_str(&format!("typealias T{i} = Dictionary<int32, Dictionary<string, Result<T{}, Sequence<T{}>>>>\n", i - 1, i - 1));
            }
            s.push_str(&format!("struct S {{ f: T{size} }}\n"));
        }
        "inheritance-lattice-width-2" => {
            s.push_str("interface I0a { o0a() }\ninterface I0b { o0b() }\n");
            for i in 1..=size {
                s.push_str(&format!("interface I{i}a : I{}a, I{}b {{ o{i}a() }}\ninterface I{i}b : I{}a, I{}b {{ o{i}b() }}\n", i - 1, i - 1, i - 1, i - 1));
            }
        }
        "many-fields" => {
            let fields: Vec<String> = (0..size).map(|i| format!("f{i}: int32")).collect();
            s.push_str(&format!("struct Big {{ {} }}\n", fields.join(" ")));
        }
        "many-definitions" => {
            for i in 0..size {
                s.push_str(&format!("struct D{i} {{}}\n"));
            }
        }
        "long-doc-comment" => {
            for i in 0..size {
                s.push_str(&format!("/// line {i} {{@link X{i}}}\n"));
            }
            s.push_str("struct Doc {}\n");
        }
        "layered-dag-with-back-edge" => {
            for i in 0..size {
                s.push_str(&format!("struct C{i} {{ a: C{} b: C{}? }}\n", i + 1, i + 1));
            }
            s.push_str(&format!("struct C{size} {{ back: Sequence<C0> }}\n"));
        }
        "self-cycle-then-layered-dag" | "layered-dag-then-self-cycle" => {
            let first = GROWTH_FAMILIES[fam] == "self-cycle-then-layered-dag";
            if first {
                s.push_str("struct Loop { next: Loop }\n");
            }
            for i in 0..size {
                s.push_str(&format!("struct S{i} {{ a: S{} b: S{} }}\n", i + 1, i + 1));
            }
            s.push_str(&format!("struct S{size} {{}}\n"));
            if !first {
                s.push_str("struct Loop { next: Loop }\n");
            }
        }
        "compact-key-tower" | "invalid-compact-key-tower" => {
            let bottom = if GROWTH_FAMILIES[fam] == "compact-key-tower" { "int32" } else { "float64" };
            s.push_str(&format!("compact struct K0 {{ a: {bottom} }}\n"));
            for i in 1..=size {
                s.push_str(&format!("compact struct K{i} {{ a: K{} b: K{} }}\n", i - 1, i - 1));
            }
            s.push_str(&format!("struct U {{ d: Dictionary<K{size}, bool> e: Sequence<Dictionary<K{size}, K{size}>> }}\n"));
        }
        "enum-cycle-inside-fan-in-dag" => {
            for i in 0..size {
                if i == size / 2 {
                    s.push_str("enum Ring { A(r: Other?) B }\nstruct Other { back: Sequence<Ring> }\n");
                }
                let fields: Vec<String> = (i + 1..size).map(|j| format!("f{j}: F{j}")).collect();
                s.push_str(&format!("struct F{i} {{ {} }}\n", fields.join(" ")));
            }
        }
        _ => unreachable!(),
    }
    s
}

pub struct Growth {
    instances: Vec<(usize, usize)>,
}
impl Growth {
    pub fn new(include_cyclic_dense: bool, max_size_cyclic: usize) -> Self {
        let mut instances = vec![];
        for fam in 0..GROWTH_FAMILIES.len() {
            let cyclic = GROWTH_FAMILIES[fam] == "layered-dag-with-back-edge";
            if cyclic && !include_cyclic_dense {
                continue;
            }
            let mut size = 2;
            loop {
                if growth_instance(fam, size).len() > 8192 {
                    break;
                }
                if cyclic && size > max_size_cyclic {
                    break;
                }
                instances.push((fam, size));
                size *= 2;
            }
            // the largest size that still fits in 8 KiB
            let (mut lo, mut hi) = (size / 2, size);
            while lo + 1 < hi {
                let mid = (lo + hi) / 2;
                if growth_instance(fam, mid).len() <= 8192 {
                    lo = mid;
                } else {
                    hi = mid;
                }
            }
            if !cyclic && instances.last() != Some(&(fam, lo)) {
                instances.push((fam, lo));
            }
        }
        Growth { instances }
    }
}
impl Family for Growth {
    fn name(&self) -> String {
        format!("cost-growth/{} families, sizes doubling up to 8 KiB, each instance timed alone ({} instances)", self.instances.iter().map(|i| i.0).collect::<std::collections::BTreeSet<_>>().len(), self.instances.len())
    }
    fn len(&self) -> u64 {
        self.instances.len() as u64
    }
    fn hang_secs(&self) -> f64 {
        45.0
    }
    fn crash_sig(&self, idx: u64, how: &str) -> String {
        let (fam, _) = self.instances[idx as usize];
        format!("c01/cost-growth/{}/{}", GROWTH_FAMILIES[fam], how.replace("hang", "no-verdict-within-45s"))
    }
    fn describe(&self, idx: u64) -> Value {
        let (fam, size) = self.instances[idx as usize];
        let t = growth_instance(fam, size);
        json!({"family": GROWTH_FAMILIES[fam], "size": size, "bytes": t.len(), "text_head": truncate(&t, 300)})
    }
    fn run(&self, idx: u64) -> CaseOut {
        let (fam, size) = self.instances[idx as usize];
        let text = growth_instance(fam, size);
        let mut out = CaseOut::new(hash_str(&text));
        out.steps = 0;
        out.nontrivial = true;
        let name = format!("cost-growth/{}", GROWTH_FAMILIES[fam]);
        out.class = format!("{}:{}", GROWTH_FAMILIES[fam], verdict_both(&[&text], &mut out, &name, &|| format!("family {} size {size} ({} bytes)\n{}", GROWTH_FAMILIES[fam], text.len(), truncate(&text, 400))));
        out
    }
}

// ---------------------------------------------------------------------------------------------------------------
// Process level: option product

const FILESETS: usize = 13;
const OPT_D: [Option<&[&str]>; 5] = [None, Some(&[""]), Some(&["A"]), Some(&["é"]), Some(&["A", "A", "B"])];
const OPT_A: [Option<&str>; 5] = [None, Some("All"), Some("deprecated"), Some(""), Some("bogus")];
const OPT_G: [Option<&str>; 6] = [None, Some(""), Some(","), Some("="), Some("{gen0},k=v"), Some("{work}/missing-generator")];
const OPT_FMT: [Option<&str>; 6] = [None, Some("human"), Some("json"), Some("JSON"), Some(""), Some("bogus")];

pub struct BinaryOptions {
    vectors: Vec<[usize; 6]>,
}
impl BinaryOptions {
    pub fn new(max_deviations: usize) -> Self {
        let radices = [5usize, 5, 6, 2, 6, 2];
        let mut vectors = vec![];
        let total: usize = radices.iter().product();
        for mut i in 0..total {
            let mut v = [0usize; 6];
            for (k, r) in radices.iter().enumerate() {
                v[k] = i % r;
                i /= r;
            }
            if v.iter().filter(|x| **x != 0).count() <= max_deviations {
                vectors.push(v);
            }
        }
        BinaryOptions { vectors }
    }
}
impl Family for BinaryOptions {
    fn name(&self) -> String {
        format!("binary-options/13 file-set shapes (incl. empty, comment-only, attribute-only and module-only files given as references) x {} option vectors over -D, -A, -G, --dry-run, --diagnostic-format, --disable-color (incl. empty strings)", self.vectors.len())
    }
    fn len(&self) -> u64 {
        (self.vectors.len() * FILESETS) as u64
    }
    fn hang_secs(&self) -> f64 {
        60.0
    }
    fn describe(&self, idx: u64) -> Value {
        let sc = self.scenario(idx);
        json!({"argv": sc.argv, "files": sc.tree.iter().map(|(n, _)| n.clone()).collect::<Vec<_>>()})
    }
    fn run(&self, idx: u64) -> CaseOut {
        let sc = self.scenario(idx);
        let mut out = CaseOut::new(hash_str(&format!("c01bin{:?}{idx}", self.vectors.len())));
        out.nontrivial = true;
        let obs = run(&sc, Duration::from_secs(20));
        let desc = || format!("argv {:?}\nexit {:?} signal {:?} timed_out {}\nstderr {}", obs.argv, obs.exit_code, obs.signal, obs.timed_out, show_bytes(&obs.stderr));
        if obs.timed_out {
            out.violate("c01/binary-options/hang", desc());
        } else if let Some(loc) = obs.panic_location() {
            out.violate(format!("c01/binary-options/panic@{loc}"), desc());
        } else if obs.signal.is_some() {
            out.violate("c01/binary-options/killed-by-signal", desc());
        } else if !matches!(obs.exit_code, Some(0) | Some(1) | Some(2)) {
            out.violate("c01/binary-options/exit-status", desc());
        }
        out.class = format!("exit{:?}", obs.exit_code);
        out
    }
}
impl BinaryOptions {
    fn scenario(&self, idx: u64) -> Scenario {
        let fs = (idx as usize) % FILESETS;
        let v = self.vectors[(idx as usize) / FILESETS];
        let mut sc = Scenario::default();
        let file = |n: &str, t: &str| (n.to_string(), crate::proc::Node::File(t.as_bytes().to_vec()));
        let valid = "module M\nstruct S { a: int32 }\n";
        let mut argv: Vec<String> = vec![];
        match fs {
            0 => {}
            1 => {
                sc.tree.push(file("a.slice", ""));
                argv.push("a.slice".into());
            }
            2 => {
                sc.tree.push(file("a.slice", "module M\n"));
                argv.push("a.slice".into());
            }
            3 => {
                sc.tree.push(file("a.slice", valid));
                argv.push("a.slice".into());
            }
            4 => {
                sc.tree.push(file("a.slice", "module M\n[deprecated] struct D {}\nstruct U { d: D }\n"));
                argv.push("a.slice".into());
            }
            5 => {
                sc.tree.push(file("a.slice", "module M\nstruct {\n"));
                argv.push("a.slice".into());
            }
            6 => {
                sc.tree.push(("adir".into(), crate::proc::Node::Dir));
                argv.push("adir".into());
            }
            7 => argv.push("missing.slice".into()),
            8 => {
                sc.tree.push(file("notes.txt", valid));
                argv.push("notes.txt".into());
            }
            9 => {
                sc.tree.push(file("a.slice", valid));
                sc.tree.push(file("b.slice", "module N\nstruct T { s: M::S }\n#if X\nstruct OnlyWithX {}\n#endif\n"));
                if idx % 2 == 0 {
                    argv.extend(["a.slice".to_string(), "-R".into(), "b.slice".into()]);
                } else {
                    argv.extend(["b.slice".to_string(), "a.slice".into()]);
                }
            }
            10 => {
                sc.tree.push(file("a.slice", valid));
                argv.extend(["a.slice".to_string(), "./a.slice".into(), "-R".into(), "a.slice".into()]);
            }
            11 => {
                // files that hold nothing (an empty one, one with comments only) given as REFERENCES: they have no
                // module, and the request that is built for the generators has no place for them
                sc.tree.push(file("a.slice", valid));
                sc.tree.push(file("empty.slice", ""));
                sc.tree.push(file("comment.slice", "// nothing here\n\n/* nor here */\n"));
                argv.extend(["a.slice".to_string(), "-R".into(), "empty.slice".into(), "-R".into(), "comment.slice".into()]);
            }
            _ => {
                // ... and below a reference directory, next to a file that only declares a module
                sc.tree.push(file("a.slice", valid));
                sc.tree.push(file("refs/empty.slice", ""));
                sc.tree.push(file("refs/only-module.slice", "[[cs::x]]\nmodule OnlyModule\n"));
                sc.tree.push(file("refs/attributes-only.slice", "[[cs::y(\"z\")]]\n"));
                argv.extend(["a.slice".to_string(), "-R".into(), "refs".into()]);
            }
        }
        if let Some(ds) = OPT_D[v[0]] {
            for d in ds {
                argv.push("-D".into());
                argv.push(d.to_string());
            }
        }
        if let Some(a) = OPT_A[v[1]] {
            argv.push("-A".into());
            argv.push(a.to_string());
        }
        if let Some(g) = OPT_G[v[2]] {
            argv.push("-G".into());
            argv.push(g.to_string());
            sc.gens.push(Gen { name: "gen".into(), install: Install::Script(Script(vec![Step::ReadAll, Step::Stdout(encode_reply(&[], &[])), Step::Exit(0)])) });
        }
        if v[3] == 1 {
            argv.push("--dry-run".into());
        }
        if let Some(f) = OPT_FMT[v[4]] {
            argv.push("--diagnostic-format".into());
            argv.push(f.to_string());
        }
        if v[5] == 1 {
            argv.push("--disable-color".into());
        }
        sc.argv = argv;
        sc
    }
}


/// Arrangements of the inputs into files: directory trees with symbolic links that form cycles of every small
/// shape (to itself, to the parent, to an ancestor with a second way in, two directories pointing at each other,
/// two loops side by side), links that cannot be resolved (self-referential, a chain longer than the OS follows),
/// given as sources and as reference directories.  Only "ends with a verdict within the bound" is judged.
pub struct FileArrangements;
const ARR_TREES: usize = 9;
const ARR_ARGS: usize = 8;
impl FileArrangements {
    fn scenario(idx: u64) -> Scenario {
        use crate::proc::Node;
        let t = (idx as usize) / ARR_ARGS;
        let a = (idx as usize) % ARR_ARGS;
        let mut sc = Scenario::default();
        let file = |n: &str, t: &str| (n.to_string(), Node::File(t.as_bytes().to_vec()));
        let link = |n: &str, t: &str| (n.to_string(), Node::Symlink(t.to_string()));
        sc.tree.push(file("a.slice", "module M\nstruct S { a: int32 }\n"));
        sc.tree.push(("sub".into(), Node::Dir));
        sc.tree.push(file("sub/c.slice", "module M\nstruct C { s: S }\n"));
        match t {
            0 => {}
            1 => sc.tree.push(link("sub/loop", ".")),
            2 => sc.tree.push(link("sub/loop", "..")),
            3 => {
                sc.tree.push(link("sub/loop", ".."));
                sc.tree.push(link("dl", "sub"));
            }
            4 => {
                sc.tree.push(("other".into(), Node::Dir));
                sc.tree.push(file("other/d.slice", "module M\nstruct D {}\n"));
                sc.tree.push(link("sub/to_other", "../other"));
                sc.tree.push(link("other/to_sub", "../sub"));
            }
            5 => {
                sc.tree.push(link("sub/l1", "."));
                sc.tree.push(link("sub/l2", "."));
            }
            6 => {
                sc.tree.push(link("sub/self", "self"));
                sc.tree.push(link("sub/self.slice", "self.slice"));
            }
            7 => {
                // a chain of links longer than the OS is willing to follow
                for i in 0..45 {
                    sc.tree.push(link(&format!("sub/l{i}.slice"), &format!("l{}.slice", i + 1)));
                }
                sc.tree.push(file("sub/l45.slice", "module M\nstruct L {}\n"));
            }
            _ => {
                sc.tree.push(link("sub/up1", ".."));
                sc.tree.push(link("sub/up2", ".."));
                sc.tree.push(link("top", "."));
            }
        }
        let argv: Vec<&str> = match a {
            0 => vec!["a.slice", "-R", "."],
            1 => vec!["a.slice", "-R", "sub"],
            2 => vec!["-R", ".", "-R", "sub"],
            3 => vec!["a.slice", "sub/c.slice", "-R", ".", "--diagnostic-format", "json"],
            4 => vec!["a.slice", "-R", "sub/loop"],
            5 => vec!["sub/loop/a.slice", "-R", "dl"],
            6 => vec!["a.slice", "sub/self.slice", "sub/l0.slice"],
            _ => vec!["a.slice", "-R", "sub/self", "-R", "sub/l0.slice", "-R", "top"],
        };
        sc.argv = argv.into_iter().map(|s| s.to_string()).collect();
        sc
    }
}
impl Family for FileArrangements {
    fn name(&self) -> String {
        format!("file-arrangements/{ARR_TREES} directory trees with symbolic-link cycles and unresolvable links x {ARR_ARGS} argument lists (sources, reference directories) through the real binary")
    }
    fn len(&self) -> u64 {
        (ARR_TREES * ARR_ARGS) as u64
    }
    fn hang_secs(&self) -> f64 {
        60.0
    }
    fn workers(&self) -> Option<usize> {
        Some(8)
    }
    fn describe(&self, idx: u64) -> Value {
        let sc = Self::scenario(idx);
        json!({"argv": sc.argv, "tree": sc.tree.iter().map(|(n, k)| match k { crate::proc::Node::Symlink(t) => format!("{n} -> {t}"), crate::proc::Node::Dir => format!("{n}/"), crate::proc::Node::Fifo => format!("{n} (named pipe)"), _ => n.clone() }).collect::<Vec<_>>()})
    }
    fn run(&self, idx: u64) -> CaseOut {
        let sc = Self::scenario(idx);
        let mut out = CaseOut::new(hash_str(&format!("c01arr{idx}")));
        out.nontrivial = true;
        // the statement's bound: 20 s for <= 8 KiB of input
        let obs = run(&sc, Duration::from_secs(20));
        let desc = || format!("tree {:?}\nargv {:?}\nexit {:?} signal {:?} timed_out {}\nstderr {}", self.describe(idx)["tree"], obs.argv, obs.exit_code, obs.signal, obs.timed_out, truncate(&show_bytes(&obs.stderr), 600));
        if obs.timed_out {
            out.violate("c01/file-arrangements/no-verdict-within-20s", desc());
        } else if let Some(loc) = obs.panic_location() {
            out.violate(format!("c01/file-arrangements/panic@{loc}"), desc());
        } else if obs.signal.is_some() {
            out.violate("c01/file-arrangements/killed-by-signal", desc());
        } else if !matches!(obs.exit_code, Some(0) | Some(1) | Some(2)) {
            out.violate("c01/file-arrangements/exit-status", desc());
        }
        out.class = format!("exit{:?}", obs.exit_code);
        out
    }
}


/// The cycle families of C05 (containment, alias and inheritance graphs), run here for the verdict only: whatever
/// C05's oracle says about the diagnostics, the compilation must end without a crash, an abort or a hang.
pub struct VerdictOnly {
    inner: Box<dyn Family>,
}
impl Family for VerdictOnly {
    fn name(&self) -> String {
        format!("cycle-graphs-verdict-only/{}", self.inner.name())
    }
    fn len(&self) -> u64 {
        self.inner.len()
    }
    fn describe(&self, idx: u64) -> Value {
        self.inner.describe(idx)
    }
    fn hang_secs(&self) -> f64 {
        self.inner.hang_secs().max(60.0)
    }
    fn crash_sig(&self, _idx: u64, how: &str) -> String {
        format!("c01/cycle-graphs/{}/{how}", self.inner.name().split('/').next().unwrap_or(""))
    }
    fn run(&self, idx: u64) -> CaseOut {
        let mut o = self.inner.run(idx);
        o.violations.retain(|v| v.sig.contains("panic@"));
        for v in &mut o.violations {
            v.sig = format!("c01/cycle-graphs/{}", v.sig.split('/').skip(1).collect::<Vec<_>>().join("/"));
        }
        o.validated = 0;
        o
    }
}

pub fn families(tier: &str) -> Vec<Box<dyn Family>> {
    let quick = tier == "quick";
    let mut v: Vec<Box<dyn Family>> = vec![
        Box::new(Growth::new(!quick, 16)),
        Box::new(TypeForms::new()),
        Box::new(Soups2 { n: if quick { 2 } else { 3 } }),
        Box::new(WhitespaceKinds),
        Box::new(BinaryOptions::new(if quick { 2 } else { 6 })),
        Box::new(FileArrangements),
        Box::new(GrowthThroughBinary),
        Box::new(OutputStreams),
        Box::new(RefusedFiles),
        Box::new(DenseCycles),
        Box::new(DeepNesting),
        Box::new(PipeProtocol),
        Box::new(CyclesWithUsers),
        Box::new(TokenSoups::new(if quick { 2 } else { 3 }, 0..10)),
        Box::new(TokenMutations::new()),
        Box::new(CharMutations::new(false)),
        Box::new(TokenSoups::new(if quick { 3 } else { 4 }, 0..2)),
    ];
    if !quick {
        v.push(Box::new(CharMutations::new(true)));
    }
    // memory-safety layer: the same cases in workers built with AddressSanitizer (a crash that depends on what freed
    // memory happens to hold becomes a crash on every run). quick: the mutations of the lint-rich base program
    if quick {
        let tm = TokenMutations::new();
        let last = tm.bases.last().unwrap().len() as u64 + 1;
        v.push(Box::new(Sanitized::tail(Box::new(tm), last)));
    } else {
        v.push(Box::new(Sanitized::all(Box::new(TokenMutations::new()))));
        v.push(Box::new(Sanitized::all(Box::new(CharMutations::new(false)))));
        v.push(Box::new(Sanitized::all(Box::new(TokenSoups::new(2, 0..10)))));
        v.push(Box::new(Sanitized::all(Box::new(Soups2 { n: 2 }))));
        v.push(Box::new(Sanitized::all(Box::new(TypeForms::new()))));
        v.push(Box::new(Sanitized::all(Box::new(WhitespaceKinds))));
        v.push(Box::new(Sanitized::all(Box::new(RefusedFiles))));
        // ... and the instrumented BINARY (the sibling of the instrumented harness): directory walks, the request
        // builder on the enum-boundary cases and on comments with links
        v.push(Box::new(Sanitized::all(Box::new(FileArrangements))));
        v.push(Box::new(Sanitized::all(Box::new(FilesThroughBinary { inner: super::c04::families("quick").remove(3), stride: 1 }))));
        v.push(Box::new(Sanitized::all(Box::new(FilesThroughBinary { inner: super::c16::families("quick").remove(1), stride: 1 }))));
    }
    // C04's rule-boundary cases (and, thorough, C02's programs and C16's comments) through the binary with a generator
    for (i, f) in super::c04::families("quick").into_iter().enumerate() {
        // quick: names, literals, enum boundaries, dictionary keys in full, about 1000 evenly spaced cases of each
        // larger family; thorough: up to 8000 of each
        let n = f.len();
        let stride = if quick && matches!(i, 0 | 2 | 3 | 4) { 1 } else { (n / if quick { 1000 } else { 8000 }).max(1) };
        v.push(Box::new(FilesThroughBinary { inner: f, stride }));
    }
    for (i, f) in super::c16::families("quick").into_iter().enumerate() {
        // doc comments are part of the request: quick = the malformed catalogue and the link targets
        if !quick || i < 2 {
            v.push(Box::new(FilesThroughBinary { inner: f, stride: if i < 2 { 1 } else { 4 } }));
        }
    }
    if !quick {
        for f in super::c02::families("quick") {
            v.push(Box::new(FilesThroughBinary { inner: f, stride: 4 }));
        }
    }
    // C05's graph families: quick = aliases (also with two-armed wrappers), inheritance, the 10-node graphs and all
    // 2-node containment graphs
    for (i, f) in super::c05::families(tier).into_iter().enumerate() {
        if !quick || matches!(i, 0 | 1 | 2 | 3 | 4 | 9) {
            v.push(Box::new(VerdictOnly { inner: f }));
        }
    }
    v
}
