//! C10 — Slice encoding round-trips and matches the wire format (exhaustive value sweeps on the real
//! Encoder/Decoder against the bit-level reference in refcodec.rs).

use crate::engine::*;
use crate::refcodec::*;
use crate::util::*;
use serde_json::{json, Value};
use slice_codec::buffer::slice::{SliceInputSource, SliceOutputTarget};
use slice_codec::buffer::vec::VecOutputTarget;
use slice_codec::buffer::InputSource;
use slice_codec::decoder::Decoder;
use slice_codec::encoder::Encoder;

/// Full check of one (type, value): bytes == reference (whole output), round trip, consumed == written,
/// exactly-sized slice target works, refused values leave the output unchanged.
pub fn check_value(ty: &Ty, v: &V, out: &mut CaseOut, fam: &str) {
    out.steps += 1;
    let r = guarded(|| check_value_inner(ty, v));
    match r {
        Ok(Ok(())) => {}
        Ok(Err((what, msg))) => out.violate(format!("{fam}/{}/{what}", ty_name(ty)), format!("type {ty:?}, value {}: {msg}", truncate(&format!("{v:?}"), 200))),
        Err((loc, msg)) => out.violate(format!("{fam}/{}/panic@{loc}", ty_name(ty)), format!("type {ty:?}, value {}: panic at {loc}: {msg}", truncate(&format!("{v:?}"), 200))),
    }
}

pub fn ty_name(ty: &Ty) -> String {
    format!("{ty:?}").replace(' ', "")
}

fn check_value_inner(ty: &Ty, v: &V) -> Result<(), (&'static str, String)> {
    const PREFIX: [u8; 3] = [0xC3, 0x5A, 0x01];
    // 1. growable target, with a prefix already in it
    let mut buf: Vec<u8> = PREFIX.to_vec();
    let res = {
        let mut enc = Encoder::new(VecOutputTarget::from(&mut buf));
        real_encode(ty, v, &mut enc)
    };
    let (expected, map_entries) = match ty {
        Ty::HMap(k, val) => {
            let V::Map(es) = v else { unreachable!() };
            match ref_encode_map_entries(k, val, es) {
                Some((p, e)) => (Some(p), Some(e)),
                None => (None, None),
            }
        }
        _ => (ref_encode(ty, v), None),
    };
    let Some(expected) = expected else {
        // the value is outside the encodable range: it must be refused and nothing written
        if res.is_ok() {
            return Err(("accepted-out-of-range", format!("encoder accepted a value outside the encodable range and wrote {:02x?}", &buf[3..])));
        }
        if buf != PREFIX {
            return Err(("refused-but-wrote", format!("encoder refused the value but the output changed to {:02x?}", buf)));
        }
        return Ok(());
    };
    if let Err(e) = res {
        return Err(("refused-valid", format!("encoder refused an encodable value: {e}")));
    }
    if buf[..3] != PREFIX {
        return Err(("clobbered-prefix", format!("bytes before the encoding were modified: {:02x?}", &buf[..3])));
    }
    let bytes = buf[3..].to_vec();
    match &map_entries {
        None => {
            if bytes != expected {
                return Err(("wire-bytes", format!("encoder wrote {:02x?} but the wire format says {:02x?}", truncate_bytes(&bytes), truncate_bytes(&expected))));
            }
        }
        Some(entries) => {
            // unordered dictionary: size prefix, then the entries in any order
            if !bytes.starts_with(&expected) {
                return Err(("wire-bytes", format!("dictionary size prefix: wrote {:02x?}, expected to start with {:02x?}", truncate_bytes(&bytes), expected)));
            }
            let mut rest = &bytes[expected.len()..];
            let mut remaining: Vec<&Vec<u8>> = entries.iter().collect();
            while !rest.is_empty() {
                let Some(i) = remaining.iter().position(|e| rest.starts_with(e)) else {
                    return Err(("wire-bytes", format!("dictionary entries: wrote {:02x?}, which is not a permutation of the expected entries {:02x?}", truncate_bytes(&bytes), entries)));
                };
                rest = &rest[remaining[i].len()..];
                remaining.remove(i);
            }
            if !remaining.is_empty() {
                return Err(("wire-bytes", "dictionary entries missing from the output".to_string()));
            }
        }
    }
    // 2. decode: original value, consumed exactly the bytes written (with trailing sentinel bytes present)
    // (tails of 2, 9 and 17 bytes: a decoder may take another path when 8 or 16 bytes are left in the buffer)
    for tail_len in [2usize, 9, 17] {
        let mut with_tail = bytes.clone();
        with_tail.extend((0..tail_len).map(|k| 0x99 - k as u8));
        match real_decode(ty, &with_tail) {
            Ok((dv, consumed)) => {
                if &dv != v {
                    return Err(("round-trip-value", format!("decoded {} from {:02x?} followed by {tail_len} more bytes", truncate(&format!("{dv:?}"), 200), truncate_bytes(&bytes))));
                }
                if consumed != bytes.len() {
                    return Err(("round-trip-consumed", format!("decoder consumed {consumed} bytes of a {}-byte encoding followed by {tail_len} more bytes", bytes.len())));
                }
            }
            Err(e) => return Err(("round-trip-error", format!("decoding the encoder's output {:02x?} (followed by {tail_len} more bytes) failed: {:?}", truncate_bytes(&bytes), e.rendered))),
        }
    }
    // exact buffer: remaining() == 0 afterwards
    {
        let mut d: Decoder<SliceInputSource> = Decoder::from(&bytes[..]);
        let _ = real_decode_discard(ty, &mut d);
        if d.remaining() != 0 {
            return Err(("round-trip-consumed", format!("{} bytes left after decoding an exact buffer", d.remaining())));
        }
    }
    // 3. exactly-sized slice target; one byte too small must fail cleanly
    if bytes.len() <= 1 << 16 {
        let mut exact = vec![0u8; bytes.len()];
        let r = {
            let mut enc = Encoder::new(SliceOutputTarget::from(&mut exact[..]));
            real_encode(ty, v, &mut enc)
        };
        if let Err(e) = r {
            return Err(("exact-slice", format!("encoding into an exactly-sized slice failed: {e}")));
        }
        if map_entries.is_none() && exact != bytes {
            return Err(("exact-slice", format!("slice target holds {:02x?}, vec target {:02x?}", truncate_bytes(&exact), truncate_bytes(&bytes))));
        }
        if !bytes.is_empty() {
            let mut small = vec![0u8; bytes.len() - 1];
            let r = {
                let mut enc = Encoder::new(SliceOutputTarget::from(&mut small[..]));
                real_encode(ty, v, &mut enc)
            };
            if r.is_ok() {
                return Err(("small-slice", "encoding into a slice one byte too small succeeded".to_string()));
            }
        }
    }
    Ok(())
}

fn real_decode_discard(ty: &Ty, d: &mut Decoder<SliceInputSource>) -> bool {
    // re-decode through the typed bridge on the decoder we hold, to observe remaining()
    let n = d.remaining();
    let bytes = d.peek_byte_slice_exact(n).map(|s| s.to_vec()).unwrap_or_default();
    match real_decode(ty, &bytes) {
        Ok((_, consumed)) => {
            let _ = d.read_byte_slice_exact(consumed);
            true
        }
        Err(_) => false,
    }
}

fn truncate_bytes(b: &[u8]) -> Vec<u8> {
    b.iter().take(48).cloned().collect()
}

// ---------------------------------------------------------------------------------------------------------

/// All values of bool, u8, i8, u16, i16.
pub struct SmallExhaustive;
const SMALL: [(Ty, u64, i128); 5] = [(Ty::Bool, 2, 0), (Ty::U8, 256, 0), (Ty::I8, 256, -128), (Ty::U16, 65536, 0), (Ty::I16, 65536, -32768)];
const CHUNK: u64 = 64;
impl SmallExhaustive {
    fn locate(&self, idx: u64) -> (Ty, i128, i128) {
        let mut i = idx;
        for (ty, n, base) in SMALL.iter() {
            let chunks = (n + CHUNK - 1) / CHUNK;
            if i < chunks {
                let lo = *base + (i * CHUNK) as i128;
                let hi = (*base + *n as i128).min(lo + CHUNK as i128);
                return (ty.clone(), lo, hi);
            }
            i -= chunks;
        }
        unreachable!()
    }
}
impl Family for SmallExhaustive {
    fn name(&self) -> String {
        "all-values/bool,u8,i8,u16,i16".into()
    }
    fn len(&self) -> u64 {
        SMALL.iter().map(|(_, n, _)| (n + CHUNK - 1) / CHUNK).sum()
    }
    fn describe(&self, idx: u64) -> Value {
        let (ty, lo, hi) = self.locate(idx);
        json!({"type": format!("{ty:?}"), "values": format!("{lo}..{hi}")})
    }
    fn run(&self, idx: u64) -> CaseOut {
        let (ty, lo, hi) = self.locate(idx);
        let mut out = CaseOut::new(hash_str(&format!("small{ty:?}{lo}")));
        out.steps = 0;
        out.validated = 1;
        out.nontrivial = !matches!(ty, Ty::Bool | Ty::U8 | Ty::I8) || lo < 0;
        out.class = ty_name(&ty);
        for i in lo..hi {
            let v = if ty == Ty::Bool { V::Bool(i == 1) } else { V::Int(i) };
            check_value(&ty, &v, &mut out, "c10/small");
        }
        out
    }
}

/// 32/64-bit integers and floats at boundaries.
pub struct WideBoundaries {
    cases: Vec<(Ty, V)>,
}
pub fn boundary_ints() -> Vec<i128> {
    let mut v = vec![];
    for n in 0..=64u32 {
        let p = 1i128 << n;
        for d in -64i128..=64 {
            v.push(p + d);
            v.push(-p + d);
        }
    }
    v.sort();
    v.dedup();
    v
}
impl WideBoundaries {
    pub fn new(f64_bits: u32) -> Self {
        let mut cases = vec![];
        for ty in [Ty::U32, Ty::I32, Ty::U64, Ty::I64] {
            let (lo, hi) = int_range(&ty).unwrap();
            for i in boundary_ints() {
                if i >= lo && i <= hi {
                    cases.push((ty.clone(), V::Int(i)));
                }
            }
        }
        // f32: every sign/exponent with <= 2 mantissa bits set
        for sign in 0..2u32 {
            for exp in 0..256u32 {
                let mut mants = vec![0u32, 0x7fffff];
                for a in 0..23 {
                    mants.push(1 << a);
                    for b in 0..a {
                        mants.push((1 << a) | (1 << b));
                    }
                }
                for m in mants {
                    cases.push((Ty::F32, V::F32((sign << 31) | (exp << 23) | m)));
                }
            }
        }
        for sign in 0..2u64 {
            for exp in 0..2048u64 {
                let mut mants = vec![0u64, (1 << 52) - 1];
                for a in 0..52 {
                    mants.push(1 << a);
                    if f64_bits >= 2 {
                        for b in 0..a {
                            mants.push((1 << a) | (1 << b));
                        }
                    }
                }
                for m in mants {
                    cases.push((Ty::F64, V::F64((sign << 63) | (exp << 52) | m)));
                }
            }
        }
        WideBoundaries { cases }
    }
}
impl Family for WideBoundaries {
    fn name(&self) -> String {
        "boundaries/u32,i32,u64,i64(+-64 around every power of two),f32,f64(all exponents, sparse mantissas, NaN payloads, subnormals)".into()
    }
    fn len(&self) -> u64 {
        ((self.cases.len() as u64) + 255) / 256
    }
    fn describe(&self, idx: u64) -> Value {
        let c = &self.cases[(idx * 256) as usize];
        json!({"first_of_256": {"type": format!("{:?}", c.0), "value": format!("{:?}", c.1)}})
    }
    fn run(&self, idx: u64) -> CaseOut {
        let lo = (idx * 256) as usize;
        let hi = (lo + 256).min(self.cases.len());
        let mut out = CaseOut::new(hash_str(&format!("wide{idx}")));
        out.steps = 0;
        out.validated = 1;
        out.nontrivial = true;
        out.class = ty_name(&self.cases[lo].0);
        for (ty, v) in &self.cases[lo..hi] {
            check_value(ty, v, &mut out, "c10/wide");
        }
        out
    }
}

/// Variable-width integers: windows around powers of two / limits for every source type, all decode widths.
pub struct VarWindows {
    cases: Vec<(Ty, i128)>,
}
impl VarWindows {
    pub fn new() -> Self {
        let b = boundary_ints();
        let mut cases = vec![];
        for bits in [8u8, 16, 32, 64] {
            let (lo, hi) = (-(1i128 << (bits - 1)), (1i128 << (bits - 1)) - 1);
            for i in &b {
                if *i >= lo && *i <= hi {
                    cases.push((Ty::VarInt(bits), *i));
                }
            }
            let hi_u = (1i128 << bits) - 1;
            for i in &b {
                if *i >= 0 && *i <= hi_u {
                    cases.push((Ty::VarUInt(bits), *i));
                    if bits == 64 {
                        cases.push((Ty::Size, *i));
                    }
                }
            }
        }
        VarWindows { cases }
    }
}
/// One var value: encode check + decode into every width (accept iff in the target's range).
fn check_var(ty: &Ty, i: i128, out: &mut CaseOut) {
    check_value(ty, &V::Int(i), out, "c10/var");
    let signed = matches!(ty, Ty::VarInt(_));
    if let Some(bytes) = ref_var(i, signed) {
        let widths: &[u8] = if signed { &[8, 16, 32, 64] } else { &[8, 16, 32, 64, 0] };
        for w in widths {
            let t = if signed { Ty::VarInt(*w) } else { Ty::VarUInt(*w) };
            let bits = if *w == 0 { 64 } else { *w as u32 };
            let fits = if signed { i >= -(1i128 << (bits - 1)) && i < (1i128 << (bits - 1)) } else { i < (1i128 << bits) };
            out.steps += 1;
            match guarded(|| real_decode(&t, &bytes)) {
                Ok(Ok((V::Int(d), c))) => {
                    if !fits {
                        out.violate(format!("c10/var/{}/decode-accepted-out-of-range", ty_name(&t)), format!("decoding {bytes:02x?} (value {i}) as {t:?} returned {d}"));
                    } else if d != i || c != bytes.len() {
                        out.violate(format!("c10/var/{}/decode-value", ty_name(&t)), format!("decoding {bytes:02x?} (value {i}) as {t:?} returned {d}, consumed {c}"));
                    }
                }
                Ok(Ok(_)) => unreachable!(),
                Ok(Err(e)) => {
                    if fits {
                        out.violate(format!("c10/var/{}/decode-refused", ty_name(&t)), format!("decoding {bytes:02x?} (value {i}) as {t:?} failed: {:?}", e.rendered));
                    }
                    // the refusal has to be renderable (this is the only place where the range errors of the 16- and
                    // 32-bit targets arise: they need a 4- or 8-byte encoding)
                    match &e.rendered {
                        Err(p) => out.violate(format!("c10/var/{}/error-not-renderable", ty_name(&t)), format!("decoding {bytes:02x?} as {t:?}: rendering the returned error panicked: {p}")),
                        Ok(m) if m.trim().is_empty() => out.violate(format!("c10/var/{}/error-renders-empty", ty_name(&t)), format!("decoding {bytes:02x?} as {t:?}")),
                        Ok(_) => {}
                    }
                }
                Err((loc, msg)) => out.violate(format!("c10/var/{}/panic@{loc}", ty_name(&t)), format!("decoding {bytes:02x?} as {t:?}: panic {msg}")),
            }
        }
    }
}
impl Family for VarWindows {
    fn name(&self) -> String {
        "varint,varuint,size/+-64 around every power of two up to 2^64 and every range limit, every source width, every decode width".into()
    }
    fn len(&self) -> u64 {
        ((self.cases.len() as u64) + 127) / 128
    }
    fn describe(&self, idx: u64) -> Value {
        let c = &self.cases[(idx * 128) as usize];
        json!({"first_of_128": {"type": format!("{:?}", c.0), "value": c.1.to_string()}})
    }
    fn run(&self, idx: u64) -> CaseOut {
        let lo = (idx * 128) as usize;
        let hi = (lo + 128).min(self.cases.len());
        let mut out = CaseOut::new(hash_str(&format!("varw{idx}")));
        out.steps = 0;
        out.validated = 1;
        out.nontrivial = true;
        out.class = ty_name(&self.cases[lo].0);
        for (ty, i) in &self.cases[lo..hi] {
            check_var(ty, *i, &mut out);
        }
        out
    }
}

/// Every variable-width value of magnitude < 2^bits (signed: -2^bits .. 2^bits, unsigned 0..2^bits).
pub struct VarExhaustive {
    pub bits: u32,
}
const VCHUNK: i128 = 1 << 12;
impl Family for VarExhaustive {
    fn name(&self) -> String {
        format!("varint64,varuint64/every value of magnitude < 2^{}", self.bits)
    }
    fn len(&self) -> u64 {
        // signed: 2^(bits+1) values, unsigned: 2^bits values
        (((1i128 << (self.bits + 1)) + (1i128 << self.bits)) / VCHUNK) as u64
    }
    fn describe(&self, idx: u64) -> Value {
        let (signed, lo) = self.locate(idx);
        json!({"type": if signed {"varint (i64 source)"} else {"varuint (u64 source)"}, "values": format!("{}..{}", lo, lo + VCHUNK)})
    }
    fn run(&self, idx: u64) -> CaseOut {
        let (signed, lo) = self.locate(idx);
        let mut out = CaseOut::new(hash_str(&format!("varx{signed}{lo}")));
        out.steps = 0;
        out.validated = 1;
        out.nontrivial = lo < 0 || lo >= 64;
        out.class = format!("{}-bytes", ref_var(lo, signed).map(|b| b.len()).unwrap_or(0));
        // tight loop: encode with the real encoder into a reused buffer, compare with the reference, decode
        let mut buf: Vec<u8> = Vec::with_capacity(16);
        for i in lo..lo + VCHUNK {
            out.steps += 1;
            buf.clear();
            let r = guarded(|| {
                let mut enc = Encoder::new(VecOutputTarget::from(&mut buf));
                let ok = if signed { enc.encode_varint(i as i64).is_ok() } else { enc.encode_varuint(i as u64).is_ok() };
                ok
            });
            let exp = ref_var(i, signed).unwrap();
            match r {
                Ok(true) if buf == exp => {
                    let mut d: Decoder<SliceInputSource> = Decoder::from(&buf[..]);
                    let back: Result<i128, _> = if signed { d.decode_varint::<i64>().map(|x| x as i128) } else { d.decode_varuint::<u64>().map(|x| x as i128) };
                    match back {
                        Ok(b) if b == i && d.remaining() == 0 => {}
                        other => out.violate("c10/varx/round-trip", format!("value {i} signed={signed}: bytes {buf:02x?} decoded to {other:?} with {} bytes left", d.remaining())),
                    }
                }
                Ok(ok) => out.violate("c10/varx/wire-bytes", format!("value {i} signed={signed}: encoder ok={ok} wrote {buf:02x?}, wire format says {exp:02x?}")),
                Err((loc, msg)) => out.violate(format!("c10/varx/panic@{loc}"), format!("value {i}: {msg}")),
            }
            if out.violations.len() > 3 {
                break;
            }
        }
        out
    }
}
impl VarExhaustive {
    fn locate(&self, idx: u64) -> (bool, i128) {
        let signed_chunks = ((1i128 << (self.bits + 1)) / VCHUNK) as u64;
        if idx < signed_chunks {
            (true, -(1i128 << self.bits) + idx as i128 * VCHUNK)
        } else {
            (false, (idx - signed_chunks) as i128 * VCHUNK)
        }
    }
}

/// Every f32 bit pattern (thorough).
pub struct AllF32;
impl Family for AllF32 {
    fn name(&self) -> String {
        "f32/every bit pattern".into()
    }
    fn len(&self) -> u64 {
        1 << 16
    }
    fn describe(&self, idx: u64) -> Value {
        json!({"bit_patterns": format!("{:#010x}..={:#010x}", idx << 16, (idx << 16) | 0xffff)})
    }
    fn run(&self, idx: u64) -> CaseOut {
        let mut out = CaseOut::new(hash_str(&format!("f32-{idx}")));
        out.steps = 0;
        out.validated = 1;
        out.nontrivial = true;
        out.class = format!("exp-bucket-{}", (idx >> 7) & 0xff);
        let mut buf: Vec<u8> = Vec::with_capacity(8);
        for low in 0..(1u32 << 16) {
            let bits = ((idx as u32) << 16) | low;
            out.steps += 1;
            buf.clear();
            let ok = {
                let mut enc = Encoder::new(VecOutputTarget::from(&mut buf));
                enc.encode(f32::from_bits(bits)).is_ok()
            };
            if !ok || buf != bits.to_le_bytes() {
                out.violate("c10/f32/wire-bytes", format!("f32 bits {bits:#010x}: ok={ok}, wrote {buf:02x?}"));
                break;
            }
            let mut d: Decoder<SliceInputSource> = Decoder::from(&buf[..]);
            match d.decode::<f32>() {
                Ok(f) if f.to_bits() == bits && d.remaining() == 0 => {}
                other => {
                    out.violate("c10/f32/round-trip", format!("f32 bits {bits:#010x} decoded to {:?}", other.map(|f| f.to_bits())));
                    break;
                }
            }
        }
        out
    }
}

/// Strings: every Unicode scalar value as a one-character string (chunks of 256 code points), all strings of
/// length <= 3 over one representative per UTF-8 width + NUL, and byte lengths at the size-prefix thresholds.
pub struct Strings {
    small: Vec<String>,
}
impl Strings {
    pub fn new() -> Self {
        let alpha = ['a', '\0', 'é', '€', '😀', '\u{3000}'];
        let mut small = vec![String::new()];
        let mut layer = vec![String::new()];
        for _ in 0..3 {
            let mut next = vec![];
            for s in &layer {
                for c in alpha {
                    let mut t = s.clone();
                    t.push(c);
                    next.push(t);
                }
            }
            small.extend(next.iter().cloned());
            layer = next;
        }
        for n in [62usize, 63, 64, 65, 16382, 16383, 16384, 16385, 70000] {
            small.push("x".repeat(n));
            small.push("é".repeat(n / 2) + if n % 2 == 1 { "y" } else { "" });
        }
        // multi-byte characters across every power-of-two offset (a decoder that works in chunks): 0..3 ASCII characters
        // in front shift the characters over the boundary
        for base in [64usize, 256, 1024, 4096, 8192, 65536] {
            for k in 0..=3usize {
                for c in ["é", "€", "😀"] {
                    small.push("a".repeat(k) + &c.repeat((base + 16) / c.len() + 1));
                }
            }
        }
        Strings { small }
    }
}
const SCALAR_CHUNKS: u64 = 0x110000 / 256;
impl Family for Strings {
    fn name(&self) -> String {
        "strings/every unicode scalar as 1-char string; all strings len<=3 over {a,NUL,é,€,😀,U+3000}; size-prefix thresholds; runs of 2-, 3- and 4-byte characters shifted by 0..3 bytes across every power-of-two offset up to 64 KiB".into()
    }
    fn len(&self) -> u64 {
        SCALAR_CHUNKS + self.small.len() as u64
    }
    fn describe(&self, idx: u64) -> Value {
        if idx < SCALAR_CHUNKS {
            json!({"one_char_strings_for_scalars": format!("U+{:04X}..U+{:04X}", idx * 256, idx * 256 + 255)})
        } else {
            json!({"string": truncate(&self.small[(idx - SCALAR_CHUNKS) as usize], 40)})
        }
    }
    fn run(&self, idx: u64) -> CaseOut {
        let mut out = CaseOut::new(hash_str(&format!("str{idx}")));
        out.steps = 0;
        out.validated = 1;
        if idx < SCALAR_CHUNKS {
            out.nontrivial = idx > 0;
            out.class = format!("utf8-width-{}", char::from_u32((idx * 256) as u32).map(|c| c.len_utf8()).unwrap_or(0));
            for cp in idx * 256..idx * 256 + 256 {
                if let Some(c) = char::from_u32(cp as u32) {
                    check_value(&Ty::Str, &V::Str(c.to_string()), &mut out, "c10/str");
                }
            }
        } else {
            let s = &self.small[(idx - SCALAR_CHUNKS) as usize];
            out.nontrivial = !s.is_empty();
            out.class = format!("prefix-{}-bytes", ref_var(s.len() as i128, false).unwrap().len());
            check_value(&Ty::Str, &V::Str(s.clone()), &mut out, "c10/str");
        }
        out
    }
}

/// Sequences and dictionaries: all shapes with a bounded number of leaves.
pub struct Collections {
    cases: Vec<(Ty, V)>,
}
fn leaf_values(ty: &Ty) -> Vec<V> {
    match ty {
        Ty::U8 => vec![V::Int(0), V::Int(255)],
        Ty::U16 => vec![V::Int(1), V::Int(65535)],
        Ty::Bool => vec![V::Bool(false), V::Bool(true)],
        Ty::I32 => vec![V::Int(-1), V::Int(65536)],
        Ty::Str => vec![V::Str(String::new()), V::Str("é".into())],
        _ => unreachable!(),
    }
}
/// All values of `ty` using at most `budget` leaves (an empty collection counts as one leaf).
fn values(ty: &Ty, budget: usize) -> Vec<(V, usize)> {
    if budget == 0 {
        return vec![];
    }
    match ty {
        Ty::Seq(t) => {
            let mut out = vec![(V::Seq(vec![]), 1)];
            // sequences of n >= 1 elements
            let elems = values(t, budget);
            let mut layer: Vec<(Vec<V>, usize)> = vec![(vec![], 0)];
            loop {
                let mut next = vec![];
                for (items, used) in &layer {
                    for (e, c) in &elems {
                        if used + c <= budget {
                            let mut it = items.clone();
                            it.push(e.clone());
                            next.push((it, used + c));
                        }
                    }
                }
                if next.is_empty() {
                    break;
                }
                for (items, used) in &next {
                    out.push((V::Seq(items.clone()), *used));
                }
                layer = next;
            }
            out
        }
        Ty::HMap(k, v) | Ty::BMap(k, v) => {
            let mut out = vec![(V::Map(vec![]), 1)];
            let keys = values(k, budget);
            let vals = values(v, budget);
            // maps as sorted entry lists with distinct, increasing keys
            let mut layer: Vec<(Vec<(V, V)>, usize)> = vec![(vec![], 0)];
            loop {
                let mut next = vec![];
                for (entries, used) in &layer {
                    for (kk, kc) in &keys {
                        if let Some((last, _)) = entries.last() {
                            if kk <= last {
                                continue;
                            }
                        }
                        for (vv, vc) in &vals {
                            if used + kc + vc <= budget {
                                let mut e = entries.clone();
                                e.push((kk.clone(), vv.clone()));
                                next.push((e, used + kc + vc));
                            }
                        }
                    }
                }
                if next.is_empty() {
                    break;
                }
                for (e, used) in &next {
                    out.push((V::Map(e.clone()), *used));
                }
                layer = next;
            }
            out
        }
        leaf => leaf_values(leaf).into_iter().map(|v| (v, 1)).collect(),
    }
}
pub fn collection_types() -> Vec<Ty> {
    vec![
        seq(Ty::U8),
        seq(Ty::Bool),
        seq(Ty::I32),
        seq(Ty::Str),
        seq(seq(Ty::U8)),
        seq(seq(Ty::Str)),
        seq(seq(seq(Ty::U8))),
        seq(bmap(Ty::U8, Ty::U8)),
        hmap(Ty::U8, Ty::U8),
        hmap(Ty::Str, Ty::Str),
        hmap(Ty::I32, Ty::Bool),
        hmap(Ty::U8, seq(Ty::U8)),
        bmap(Ty::U8, Ty::U8),
        bmap(Ty::Str, seq(Ty::U8)),
        bmap(Ty::I32, Ty::Str),
        bmap(Ty::U8, bmap(Ty::U8, Ty::U8)),
    ]
}
impl Collections {
    pub fn new(budget: usize) -> Self {
        let mut cases = vec![];
        for ty in collection_types() {
            for (v, _) in values(&ty, budget) {
                cases.push((ty.clone(), v));
            }
        }
        // long sequences at the size-prefix thresholds
        for n in [63usize, 64, 16383, 16384] {
            cases.push((seq(Ty::U8), V::Seq((0..n).map(|i| V::Int((i % 251) as i128)).collect())));
            cases.push((seq(Ty::Bool), V::Seq((0..n).map(|i| V::Bool(i % 3 == 0)).collect())));
        }
        cases.push((hmap(Ty::U8, Ty::U8), V::Map((0..=255).map(|i| (V::Int(i), V::Int(255 - i))).collect())));
        cases.push((bmap(Ty::U8, Ty::U8), V::Map((0..=255).map(|i| (V::Int(i), V::Int(255 - i))).collect())));
        Collections { cases }
    }
}
impl Collections {
    pub fn all_cases(&self) -> &Vec<(Ty, V)> {
        &self.cases
    }
}
impl Family for Collections {
    fn name(&self) -> String {
        "collections/all shapes with a bounded number of leaves, nesting <= 3, 16 concrete Vec/HashMap/BTreeMap types".into()
    }
    fn len(&self) -> u64 {
        self.cases.len() as u64
    }
    fn describe(&self, idx: u64) -> Value {
        let (ty, v) = &self.cases[idx as usize];
        json!({"type": format!("{ty:?}"), "value": truncate(&format!("{v:?}"), 300)})
    }
    fn run(&self, idx: u64) -> CaseOut {
        let (ty, v) = &self.cases[idx as usize];
        let mut out = CaseOut::new(hash_str(&format!("{ty:?}{v:?}")));
        out.steps = 0;
        out.validated = 1;
        out.nontrivial = !matches!(v, V::Seq(s) if s.is_empty()) && !matches!(v, V::Map(m) if m.is_empty());
        out.class = ty_name(ty);
        check_value(ty, v, &mut out, "c10/coll");
        out
    }
}


/// Every way a value can be handed to the encoder gives the same bytes: by value and by reference for the
/// primitives, `&str` and `&String`, `&[T]` and `&Vec<T>`, `encode_size(n)` and `encode_varuint(n as u64)`; the
/// by-reference bytes are the ones the other families compare with the wire-format reference.
pub struct EntryPoints;
fn enc_with(f: impl FnOnce(&mut Encoder<VecOutputTarget>) -> slice_codec::Result<()>) -> Result<Vec<u8>, String> {
    let mut buf: Vec<u8> = vec![0x77];
    {
        let mut e = Encoder::from(&mut buf);
        f(&mut e).map_err(|e| e.to_string())?;
    }
    Ok(buf)
}
impl Family for EntryPoints {
    fn name(&self) -> String {
        "entry-points/by value vs by reference for every primitive at its boundary values, &str vs &String, &[T] vs &Vec<T>, encode_size vs encode_varuint".into()
    }
    fn len(&self) -> u64 {
        5
    }
    fn describe(&self, idx: u64) -> Value {
        {
            let groups = ["integers", "floats and bool", "strings", "sequences and sizes", "array-backed and oversized slice targets"];
            json!({"group": groups[idx as usize]})
        }
    }
    fn run(&self, idx: u64) -> CaseOut {
        let mut out = CaseOut::new(hash_str(&format!("c10entry{idx}")));
        out.validated = 1;
        out.nontrivial = true;
        out.steps = 0;
        let mut same = |what: &str, a: Result<Vec<u8>, String>, b: Result<Vec<u8>, String>, out: &mut CaseOut| {
            out.steps += 1;
            if a != b {
                out.violate(format!("c10/entry-points/{}", what.split(' ').next().unwrap_or("")), format!("{what}: {:?} vs {:?}", a, b));
            }
        };
        macro_rules! ints {
            ($t:ty) => {{
                let mut vals: Vec<$t> = vec![0 as $t, 1 as $t, <$t>::MAX, <$t>::MIN, <$t>::MAX / 2, (<$t>::MAX / 2).wrapping_add(1)];
                for k in 0..(std::mem::size_of::<$t>() * 8) {
                    vals.push((1 as $t).wrapping_shl(k as u32));
                    vals.push((1 as $t).wrapping_shl(k as u32).wrapping_sub(1));
                }
                for v in vals {
                    same(&format!("{} {v} by value / by reference", stringify!($t)), enc_with(|e| e.encode(v)), enc_with(|e| e.encode(&v)), &mut out);
                }
            }};
        }
        match idx {
            0 => {
                ints!(u8);
                ints!(i8);
                ints!(u16);
                ints!(i16);
                ints!(u32);
                ints!(i32);
                ints!(u64);
                ints!(i64);
            }
            1 => {
                for b in [false, true] {
                    same(&format!("bool {b} by value / by reference"), enc_with(|e| e.encode(b)), enc_with(|e| e.encode(&b)), &mut out);
                }
                for bits in [0u32, 1, 0x8000_0000, 0x7f80_0000, 0xff80_0000, 0x7fc0_0001, 0x3f80_0000, 0x0080_0000, 0x007f_ffff, u32::MAX] {
                    let v = f32::from_bits(bits);
                    same(&format!("f32 bits {bits:#x} by value / by reference"), enc_with(|e| e.encode(v)), enc_with(|e| e.encode(&v)), &mut out);
                    let w = f64::from_bits(((bits as u64) << 32) | bits as u64);
                    same(&format!("f64 bits {:#x} by value / by reference", w.to_bits()), enc_with(|e| e.encode(w)), enc_with(|e| e.encode(&w)), &mut out);
                }
            }
            2 => {
                let mut strings: Vec<String> = vec![String::new(), "a".into(), "é".into(), "€😀".into(), "\u{0}".into(), "x".repeat(63), "x".repeat(64), "é".repeat(8191), "x".repeat(16384)];
                strings.push("a\u{3000}b".into());
                for st in &strings {
                    same(&format!("string of {} bytes as &str / &String", st.len()), enc_with(|e| e.encode(st.as_str())), enc_with(|e| e.encode(st)), &mut out);
                }
            }
            4 => {
                // the constructors for slice targets: from an array, from a slice, Encoder::from on both; a slice larger
                // than the value keeps its tail
                use slice_codec::buffer::slice::SliceOutputTarget;
                macro_rules! arr {
                    ($n:literal, $v:expr) => {{
                        let reference = enc_with(|e| e.encode($v)).map(|b| b[1..].to_vec());
                        let mut a = [0xEEu8; $n];
                        let r1 = {
                            let mut e = Encoder::from(&mut a);
                            e.encode($v).map_err(|e| e.to_string())
                        };
                        same(&format!("array[{}] through Encoder::from(&mut array)", $n), r1.map(|_| a.to_vec()), reference.clone(), &mut out);
                        let mut b = [0xEEu8; $n];
                        let r2 = {
                            let mut e = Encoder::new(SliceOutputTarget::from(&mut b));
                            e.encode($v).map_err(|e| e.to_string())
                        };
                        same(&format!("array[{}] through SliceOutputTarget::from(&mut array)", $n), r2.map(|_| b.to_vec()), reference.clone(), &mut out);
                        let mut c = vec![0xEEu8; $n + 4];
                        let r3 = {
                            let mut e = Encoder::from(&mut c[..]);
                            e.encode($v).map_err(|e| e.to_string())
                        };
                        same(&format!("slice of {} + 4 bytes through Encoder::from(&mut slice): the tail stays untouched", $n), r3.map(|_| c.clone()), reference.map(|mut r| { r.extend([0xEE; 4]); r }), &mut out);
                    }};
                }
                arr!(1, 0x5Au8);
                arr!(2, 0x0102u16);
                arr!(4, -2i32);
                arr!(8, 0x0102030405060708u64);
                arr!(9, "8 bytes!");
                arr!(3, &[7u8, 9][..]);
            }
            _ => {
                for n in [0usize, 1, 2, 63, 64, 65, 300, 16383, 16384] {
                    let v: Vec<u8> = (0..n).map(|i| (i % 251) as u8).collect();
                    same(&format!("bytes x{n} as &[u8] / &Vec<u8>"), enc_with(|e| e.encode(v.as_slice())), enc_with(|e| e.encode(&v)), &mut out);
                    let w: Vec<i32> = (0..n.min(70)).map(|i| i as i32 * -7).collect();
                    same(&format!("i32 x{} as &[i32] / &Vec<i32>", w.len()), enc_with(|e| e.encode(w.as_slice())), enc_with(|e| e.encode(&w)), &mut out);
                    let ss: Vec<String> = (0..n.min(70)).map(|i| "s".repeat(i % 5)).collect();
                    same(&format!("strings x{} as &[String] / &Vec<String>", ss.len()), enc_with(|e| e.encode(ss.as_slice())), enc_with(|e| e.encode(&ss)), &mut out);
                    same(&format!("size {n} through encode_size / encode_varuint"), enc_with(|e| e.encode_size(n)), enc_with(|e| e.encode_varuint(n as u64)), &mut out);
                }
            }
        }
        out.class = format!("group{idx}");
        out
    }
}

pub fn families(tier: &str) -> Vec<Box<dyn Family>> {
    let quick = tier == "quick";
    let mut f: Vec<Box<dyn Family>> = vec![
        Box::new(SmallExhaustive),
        Box::new(EntryPoints),
        Box::new(VarWindows::new()),
        Box::new(WideBoundaries::new(if quick { 1 } else { 2 })),
        Box::new(Strings::new()),
        Box::new(Collections::new(if quick { 5 } else { 6 })),
        Box::new(VarExhaustive { bits: if quick { 22 } else { 30 } }),
    ];
    if !quick {
        f.push(Box::new(AllF32));
    }
    f
}
