//! C15 — results are reproducible and do not depend on the order of the inputs.

use super::c08::decode_request;
use super::PropMeta;
use crate::engine::*;
use crate::model::run::*;
use crate::model::tree::Node;
use crate::proc::{encode_reply, run, show_bytes, split_request, Gen, Install, Scenario, Script, Step};
use crate::util::*;
use serde_json::{json, Value};
use std::collections::BTreeMap;
use std::time::Duration;

pub fn meta(m: &mut PropMeta) {
    m.rule = "a pool of 32 file texts spread over nested and sibling modules (cross-file type references, alias chains, inheritance, deprecated uses, doc links that resolve only when another file is present, a redefinition across files, a containment cycle across files and two types outside it that lead into it, a dictionary key struct, and a definition named like a nested module of another file); EVERY subset of 2..4 files (quick) / 2..5 files (thorough) x ALL permutations of the subset, compiled in-process; every compilation is executed twice (fresh hash seeds) and must give identical diagnostics and ASTs; across the permutations of one subset: accepted-or-rejected is constant and, when accepted, every file's observed AST and the multiset of warnings (code, message, file, span) are constant. Process level: 3-file programs x every source/reference assignment x all 6 orders through the real binary with a capturing generator: exit status constant, warning multiset constant, and the decoded request content of every file constant (only the split and order change); every scenario repeated under hash seeds VERIF_HASH_SEED = 0..3 (quick) / 0..31 (thorough) via an LD_PRELOAD getrandom shim: stderr, stdout and the captured request must be byte-identical. non-trivial = the subset's files refer to each other; distinct = distinct (subset, order).";
    m.explanation = "exhaustive subsets x permutations x source/reference assignments; differential oracle (no expected value needed); controlled hash seeds";
    m.thorough_cap_s = 1800.0;
    m.quick_bound = "all subsets of 2..4 of 32 files x all permutations; 4 hash seeds";
    m.thorough_bound = "all subsets of 2..5 of 32 files x all permutations; 32 hash seeds";
    m.assumptions.push("the hash-seed space cannot be enumerated: seeds are a controlled, replayable sample; the permutation / assignment part is exhaustive");
}

const POOL: [&str; 32] = [
    "module A\nstruct S0 { x: int32 }\nenum E0 : uint8 { X }\n",
    "module A\nstruct S1 { s: S0, e: E0? }\n",
    "module A::B\nstruct T { s: S0, u: A::S1 }\n",
    "module A::B\ntypealias AL = [cs::l] Sequence<T>\nstruct V { a: AL, b: Dictionary<string, AL?> }\n",
    "module Z\ninterface I { op(s: A::S0) -> A::B::T }\n",
    "module Z\ninterface J : I { op2() }\n[deprecated(\"gone\")] struct Old {}\n",
    "module Z\nstruct UsesOld { o: Old, p: Sequence<Old?> }\n",
    "module A\nstruct S0 {}\n",
    "module A\n/// See {@link B::T} and {@link Nope}.\ncustom C\n",
    "module A\nstruct B { q: int32 }\n",
    "module Q\nstruct U { x: A::B }\n",
    "module A\nstruct R1 { r: Sequence<R2> }\n",
    "module A\nstruct R2 { r: R1? }\n",
    "module A\ncompact struct K { k: int32 }\nstruct D { d: Dictionary<K, S0> }\n",
    "module A::B\nstruct Lone { q: int32 }\n",
    "module A::B::C\ntypealias Deep = T\nstruct W { t: Deep, s: S0, z: ::Z::Old? }\n",
    // a member whose scoped name (A::B::Lone) is also that of a definition in a nested module of another file (#14)
    "module A\nstruct B { Lone: int32 }\n",
    // preprocessor symbols must stay inside their file
    "#define FLAG\nmodule P\nstruct PD {}\n",
    "module P\n#if FLAG\nstruct PX { x: int32 }\n#endif\nstruct PU { y: int32 }\n",
    "module P\nstruct PV { v: PX? }\n",
    "module Q\nstruct UL { l: A::B::Lone }\n",
    // an inheritance loop of interfaces without operations, and an interface of another file that derives from it
    "module Z\ninterface CA : CB {}\ninterface CB : CA {}\n",
    "module Z\ninterface CX : CA {}\n",
    // members (field, operation, enumerator) whose scoped names are those of definitions of other kinds (custom type,
    // type alias, enum) in nested modules of other files
    "module A\nstruct B2 { X: int32 }\ninterface B3 { Y() }\nenum B4 { W }\n",
    "module A::B2\ncustom X\n",
    "module A::B3\ntypealias Y = int32\n",
    "module A::B4\nenum W { Q }\n",
    // every compilation of this family is given -D GIVEN: a file that undefines it, and a file that tests it
    "#undef GIVEN\n#define OTHER\nmodule P2\nstruct PE {}\n",
    "module P2\n#if GIVEN\nstruct PF { x: int32 }\n#endif\n#if OTHER\nstruct PH {}\n#endif\nstruct PG { f: PF }\n",
    // types OUTSIDE the containment cycle R1 <-> R2 (#11, #12) that lead into it: a struct and an enum
    "module A\nstruct RU { u: R1, v: Sequence<R2?> }\n",
    "module A\nenum RE { V(x: R2), W }\n",
    // a file that declares a module (with an attribute) and nothing else: it has content of its own all the same
    "[[cs::only(\"marker\")]]\n[cs::namespace(\"Marker\")] module A::Marker\n",
];

/// A second, small pool for the permutation family: every kind of MEMBER (parameter, return member, enumerator field,
/// field, operation) whose scoped name is also that of a definition in a nested module of another file - and, for each,
/// a third file that USES the colliding name (without a user both orders are accepted and nothing can differ).
const POOL_MEMBERS: [&str; 14] = [
    "module A\ninterface B5 { op(P: int32) -> (R: int32, Q: bool) }\nenum B6 { W(F: int32) }\n",
    "module A::B5::op\nstruct P {}\nstruct R {}\n",
    "module Q\nstruct UP { p: A::B5::op::P, r: A::B5::op::R }\n",
    "module A::B6::W\ncustom F\n",
    "module Q\nstruct UF { f: A::B6::W::F }\n",
    "module A\nstruct B2 { X: int32 }\n",
    "module A::B2\ncustom X\n",
    "module Q\nstruct UX { x: A::B2::X }\n",
    "module A\ninterface B3 { Y() }\n",
    "module A::B3\ntypealias Y = int32\n",
    "module Q\nstruct UY { y: A::B3::Y }\n",
    // a deprecated type used from two files that declare the SAME module (and from a nested one): every use is
    // reported, whichever file comes first
    "module Z\n[deprecated(\"gone\")] struct Old2 {}\ninterface OldI2 {}\n",
    "module Z\nstruct UA { o: Old2, p: Sequence<Old2?> }\n",
    "module Z\nstruct UB { o: Old2 }\ninterface IB { op(x: Old2) -> Old2 }\n",
];

/// files whose presence together makes a definition collide with a nested module of another file
fn has_module_definition_collision(subset: &[usize]) -> bool {
    subset.contains(&9) && (subset.contains(&2) || subset.contains(&3) || subset.contains(&14) || subset.contains(&15))
}

fn subsets(n: usize, k: usize) -> Vec<Vec<usize>> {
    fn rec(start: usize, n: usize, k: usize, cur: &mut Vec<usize>, out: &mut Vec<Vec<usize>>) {
        if cur.len() == k {
            out.push(cur.clone());
            return;
        }
        for i in start..n {
            cur.push(i);
            rec(i + 1, n, k, cur, out);
            cur.pop();
        }
    }
    let mut out = vec![];
    rec(0, n, k, &mut vec![], &mut out);
    out
}

fn permutations(items: &[usize]) -> Vec<Vec<usize>> {
    if items.len() <= 1 {
        return vec![items.to_vec()];
    }
    let mut out = vec![];
    for i in 0..items.len() {
        let mut rest = items.to_vec();
        let x = rest.remove(i);
        for mut p in permutations(&rest) {
            p.insert(0, x);
            out.push(p);
        }
    }
    out
}

#[derive(Clone, PartialEq, Debug)]
struct Outcome {
    accepted: bool,
    /// per pool file: observed AST (spans included)
    trees: BTreeMap<usize, Node>,
    /// sorted warnings with the file index translated to the pool index
    warnings: Vec<(String, String, Option<usize>, Option<crate::model::tree::Sp>)>,
    error_codes: Vec<String>,
    /// everything in report order (for the same-order repetition check)
    all: Vec<(String, String, String, Option<usize>, Option<crate::model::tree::Sp>)>,
}

fn compile_order(order: &[usize]) -> Result<Outcome, (String, String)> {
    compile_order_of(&POOL, order)
}

fn compile_order_of(pool: &[&str], order: &[usize]) -> Result<Outcome, (String, String)> {
    let texts: Vec<&str> = order.iter().map(|i| pool[*i]).collect();
    // every compilation is given the symbol GIVEN on the command line (pool files #27 and #28 undefine / test it)
    let mut options = slicec::slice_options::SliceOptions::default();
    options.defined_symbols = vec!["GIVEN".to_string()];
    let (_ast_kept_alive, files, diags) = compile_texts(&texts, Some(&options))?; // the files point into the AST
    let map_file = |f: &Option<String>| f.as_ref().and_then(|f| f.trim_start_matches("string-").parse::<usize>().ok()).map(|i| order[i]);
    let accepted = !diags.iter().any(|d| d.level == "error");
    let mut trees = BTreeMap::new();
    if accepted {
        for (i, f) in files.iter().enumerate() {
            if let Ok(t) = guarded(|| crate::model::observe::file(f)) {
                trees.insert(order[i], t);
            }
        }
    }
    let mut warnings: Vec<_> = diags.iter().filter(|d| d.level == "warning").map(|d| (d.code.clone(), d.message.clone(), map_file(&d.file), d.span)).collect();
    warnings.sort_by(|a, b| format!("{a:?}").cmp(&format!("{b:?}")));
    let mut error_codes: Vec<String> = diags.iter().filter(|d| d.level == "error").map(|d| d.code.clone()).collect();
    error_codes.sort();
    let all = diags.iter().map(|d| (d.code.clone(), d.level.clone(), d.message.clone(), map_file(&d.file), d.span)).collect();
    Ok(Outcome { accepted, trees, warnings, error_codes, all })
}

pub struct Permutations {
    subsets: Vec<Vec<usize>>,
    pool: &'static [&'static str],
}
impl Permutations {
    pub fn new(max: usize) -> Self {
        let mut s = vec![];
        for k in 2..=max {
            s.extend(subsets(POOL.len(), k));
        }
        Permutations { subsets: s, pool: &POOL }
    }
    pub fn member_collisions() -> Self {
        let mut s = vec![];
        for k in 2..=4 {
            s.extend(subsets(POOL_MEMBERS.len(), k));
        }
        Permutations { subsets: s, pool: &POOL_MEMBERS }
    }
}
impl Family for Permutations {
    fn name(&self) -> String {
        if self.pool.len() == POOL_MEMBERS.len() {
            return format!("permutations-member-collisions/{} subsets (2..4 files) of a 14-file pool in which a parameter, a return member, an enumerator field, a field and an operation are named like definitions in nested modules of other files, each with a file that uses the colliding name x all permutations, each compiled twice", self.subsets.len());
        }
        format!("permutations/{} subsets of the 32-file pool x all permutations, each compiled twice", self.subsets.len())
    }
    fn len(&self) -> u64 {
        self.subsets.len() as u64
    }
    fn describe(&self, idx: u64) -> Value {
        let s = &self.subsets[idx as usize];
        json!({"files": s.iter().map(|i| self.pool[*i]).collect::<Vec<_>>(), "pool_indices": s, "orders": permutations(s).len()})
    }
    fn run(&self, idx: u64) -> CaseOut {
        let subset = &self.subsets[idx as usize];
        let mut out = CaseOut::new(hash_str(&format!("c15perm{}{subset:?}", self.pool.len())));
        out.steps = 0;
        out.validated = 1;
        let second_pool = self.pool.len() == POOL_MEMBERS.len();
        let pool = self.pool;
        let feature = if second_pool {
            "member-named-like-definition-in-nested-module-of-another-file"
        } else if subset.contains(&16) && subset.contains(&14) {
            "member-named-like-definition-in-nested-module-of-another-file"
        } else if has_module_definition_collision(subset) {
            "definition-named-like-nested-module-of-another-file"
        } else if subset.contains(&23) && (subset.contains(&24) || subset.contains(&25) || subset.contains(&26)) {
            "member-named-like-definition-in-nested-module-of-another-file"
        } else if subset.contains(&21) && subset.contains(&22) {
            "inheritance-loop-in-another-file"
        } else if (subset.contains(&17) && (subset.contains(&18) || subset.contains(&19))) || (subset.contains(&27) && subset.contains(&28)) {
            "preprocessor-symbol-defined-in-another-file"
        } else {
            "no-module-definition-collision"
        };
        let show = |o: &[usize]| o.iter().map(|i| format!("--- file (pool #{i}) ---\n{}", pool[*i])).collect::<Vec<_>>().join("");
        let mut first: Option<(Vec<usize>, Outcome)> = None;
        for order in permutations(subset) {
            out.steps += 2;
            let (a, b) = match (compile_order_of(pool, &order), compile_order_of(pool, &order)) {
                (Ok(a), Ok(b)) => (a, b),
                (Err((loc, msg)), _) | (_, Err((loc, msg))) => {
                    out.violate(format!("c15/permutations/panic@{loc}"), format!("panic at {loc}: {msg}\n{}", show(&order)));
                    continue;
                }
            };
            if a != b {
                out.violate("c15/permutations/two-compilations-of-the-same-input-differ", format!("compiling the same files in the same order twice gave different results: {:?} vs {:?}\n{}", a.all, b.all, show(&order)));
            }
            match &first {
                None => first = Some((order.clone(), a)),
                Some((o0, f)) => {
                    if f.accepted != a.accepted {
                        out.violate(
                            format!("c15/permutations/acceptance-depends-on-order/{feature}"),
                            format!("order {o0:?} is {} (errors {:?}) but order {order:?} is {} (errors {:?})\n{}", if f.accepted { "accepted" } else { "rejected" }, f.error_codes, if a.accepted { "accepted" } else { "rejected" }, a.error_codes, show(&order)),
                        );
                    } else if a.accepted {
                        if f.warnings != a.warnings {
                            out.violate(format!("c15/permutations/warnings-depend-on-order/{feature}"), format!("order {o0:?}: {:?}\norder {order:?}: {:?}\n{}", f.warnings, a.warnings, show(&order)));
                        }
                        for (k, t) in &a.trees {
                            if f.trees.get(k) != Some(t) {
                                let d = f.trees.get(k).and_then(|x| crate::model::tree::diff(x, t));
                                out.violate(format!("c15/permutations/compiled-content-depends-on-order/{feature}"), format!("pool file #{k} compiles to a different AST in order {order:?} than in {o0:?}: {:?}\n{}", d.map(|d| (d.path_named, d.expected, d.observed)), show(&order)));
                            }
                        }
                    }
                }
            }
        }
        if let Some((_, f)) = &first {
            out.class = format!("{}:{}w:{}", if f.accepted { "accepted" } else { "rejected" }, f.warnings.len(), f.error_codes.first().cloned().unwrap_or_default());
            out.nontrivial = f.accepted || !f.error_codes.iter().all(|c| c == "E033");
        }
        let mut seen = std::collections::HashSet::new();
        out.violations.retain(|v| seen.insert(v.sig.clone()));
        out
    }
}

// ---------------------------------------------------------------------------------------------------------------

fn shim_path() -> String {
    std::env::var("VERIF_HASH_SHIM").unwrap_or_else(|_| format!("{}/.build/libhashseed.so", std::env::var("VERIF_ROOT").unwrap_or_else(|_| "/verif".to_string())))
}

/// Programs of the process-level family: clean, warnings (deprecated uses, broken links), and rejected ones (a
/// redefinition across files, a containment cycle across files and two types outside it that lead into it, an unresolved reference), so that "accepted or
/// rejected" has both answers; two four-file programs.
fn programs(tier: &str) -> Vec<Vec<usize>> {
    let mut v: Vec<Vec<usize>> = vec![vec![0, 31, 1], vec![0, 1, 2], vec![5, 6, 4], vec![0, 2, 8], vec![0, 13, 1], vec![0, 7, 1], vec![11, 12, 0], vec![29, 11, 12], vec![9, 2, 10], vec![1, 2, 3], vec![0, 1, 2, 15], vec![4, 5, 6, 0]];
    if tier != "quick" {
        for s in subsets(POOL.len(), 3) {
            if !v.contains(&s) {
                v.push(s);
            }
        }
    }
    v
}

struct BinObs {
    exit: Option<i32>,
    stderr: Vec<u8>,
    stdout: Vec<u8>,
    request: Option<Vec<u8>>,
    /// everything the generator read: the request followed by its own arguments
    stdin: Option<Vec<u8>>,
    crashed: bool,
}

/// The capturing generator is configured with several arguments: they are part of what it receives.
fn capture_args() -> Vec<(String, String)> {
    [("namespace", "Demo"), ("visibility", "internal"), ("nullable", "enable"), ("style", "new"), ("k5", "")].iter().map(|(k, v)| (k.to_string(), v.to_string())).collect()
}

fn run_binary(files: &[(usize, bool)], seed: Option<u32>) -> BinObs {
    run_binary_with(files, seed, &[])
}

/// All files in the directory `refs`, given as `-R ./refs`; the first one also as the source `refs/f<i>.slice`.
fn run_binary_dir(files: &[(usize, bool)], seed: Option<u32>) -> BinObs {
    let mut sc = Scenario::default();
    let mut argv = vec![];
    for (k, (i, _)) in files.iter().enumerate() {
        // (every file lies in refs/; the first one is ALSO named as a source, under another spelling of its path than
        // the one the directory walk arrives at: it is one file, compiled once, as a source)
        sc.tree.push((format!("refs/f{i}.slice"), crate::proc::Node::File(POOL[*i].as_bytes().to_vec())));
        if k == 0 {
            argv.push(format!("refs/f{i}.slice"));
        }
    }
    argv.extend(["-R".to_string(), "./refs".to_string(), "-D".to_string(), "GIVEN".to_string()]);
    sc.gens.push(Gen { name: "capture".into(), install: Install::Script(Script(vec![Step::ReadAll, Step::Stdout(encode_reply(&[], &[])), Step::Exit(0)])) });
    argv.push("-G".into());
    argv.push(crate::proc::gen_spec("{relgen0}", &capture_args()));
    sc.argv = argv;
    if let Some(s) = seed {
        sc.env.push(("LD_PRELOAD".into(), shim_path()));
        sc.env.push(("VERIF_HASH_SEED".into(), s.to_string()));
    }
    let o = run(&sc, Duration::from_secs(20));
    let stdin = o.gens.get(0).and_then(|g| g.stdin.clone());
    let request = stdin.as_ref().and_then(|s| split_request(s, &capture_args()).map(|r| r.to_vec()));
    BinObs { exit: o.exit_code, crashed: o.timed_out || o.signal.is_some() || o.panic_location().is_some(), stderr: o.stderr, stdout: o.stdout, request, stdin }
}

fn run_binary_with(files: &[(usize, bool)], seed: Option<u32>, extra: &[&str]) -> BinObs {
    let mut sc = Scenario::default();
    let mut argv = vec![];
    for (i, src) in files {
        let name = format!("f{i}.slice");
        sc.tree.push((name.clone(), crate::proc::Node::File(POOL[*i].as_bytes().to_vec())));
        if *src {
            argv.push(name);
        } else {
            argv.push("-R".into());
            argv.push(name);
        }
    }
    sc.gens.push(Gen { name: "capture".into(), install: Install::Script(Script(vec![Step::ReadAll, Step::Stdout(encode_reply(&[], &[])), Step::Exit(0)])) });
    argv.push("-G".into());
    argv.push(crate::proc::gen_spec("{relgen0}", &capture_args()));
    argv.extend(extra.iter().map(|s| s.to_string()));
    sc.argv = argv;
    if let Some(s) = seed {
        sc.env.push(("LD_PRELOAD".into(), shim_path()));
        sc.env.push(("VERIF_HASH_SEED".into(), s.to_string()));
    }
    let o = run(&sc, Duration::from_secs(20));
    let stdin = o.gens.get(0).and_then(|g| g.stdin.clone());
    let request = stdin.as_ref().and_then(|s| split_request(s, &capture_args()).map(|r| r.to_vec()));
    BinObs { exit: o.exit_code, crashed: o.timed_out || o.signal.is_some() || o.panic_location().is_some(), stderr: o.stderr, stdout: o.stdout, request, stdin }
}

pub struct Assignments {
    pub seeds: u32,
    /// seeds used for the programs beyond the first eleven (thorough tier: every 3-subset of the pool)
    pub seeds_rest: u32,
    progs: Vec<Vec<usize>>,
    /// (program, order, source mask) for every case
    cases: Vec<(usize, Vec<usize>, u64)>,
}
impl Assignments {
    pub fn new(tier: &str) -> Self {
        let progs = programs(tier);
        let mut cases = vec![];
        for (pi, p) in progs.iter().enumerate() {
            let n = p.len();
            let idxs: Vec<usize> = (0..n).collect();
            for order in permutations(&idxs) {
                for mask in 1..(1u64 << n) {
                    cases.push((pi, order.clone(), mask));
                }
            }
        }
        Assignments { seeds: if tier == "quick" { 4 } else { 32 }, seeds_rest: 2, progs, cases }
    }
}
impl Family for Assignments {
    fn name(&self) -> String {
        format!("binary-assignments-and-seeds/{} programs of 3-4 files (clean, warnings, rejected) x every source/reference assignment with >= 1 source x all orders through the real binary, each under {} hash seeds (first eleven programs; {} for the rest)", self.progs.len(), self.seeds, self.seeds_rest)
    }
    fn len(&self) -> u64 {
        self.cases.len() as u64
    }
    fn hang_secs(&self) -> f64 {
        120.0
    }
    fn describe(&self, idx: u64) -> Value {
        let (p, o, a) = &self.cases[idx as usize];
        json!({"pool_files": self.progs[*p], "sources_mask": format!("{a:#b}"), "order": o, "seeds": if *p < 12 { self.seeds } else { self.seeds_rest }})
    }
    fn run(&self, idx: u64) -> CaseOut {
        let (p, order, assign) = self.cases[idx as usize].clone();
        let prog = &self.progs[p];
        let seeds = if p < 12 { self.seeds } else { self.seeds_rest };
        let files: Vec<(usize, bool)> = order.iter().map(|k| (prog[*k], (assign >> k) & 1 == 1)).collect();
        let mut out = CaseOut::new(hash_str(&format!("c15bin{idx}")));
        out.steps = 0;
        out.validated = 1;
        out.nontrivial = true;
        let desc = || format!("files (pool index, is source) in command-line order: {files:?}");
        if !std::path::Path::new(&shim_path()).exists() {
            out.violate("c15/binary/machinery-shim-missing", format!("{} does not exist (run setup.sh)", shim_path()));
            return out;
        }
        // reference run of this scenario and of the canonical scenario (all sources, pool order)
        let base = run_binary(&files, Some(0));
        out.steps += 1;
        if base.crashed {
            out.violate("c15/binary/crash-or-hang", desc());
            return out;
        }
        for seed in 1..seeds {
            let o = run_binary(&files, Some(seed));
            out.steps += 1;
            if o.stderr != base.stderr || o.stdout != base.stdout || o.exit != base.exit {
                out.violate("c15/binary/diagnostics-depend-on-hash-seed", format!("seed 0: exit {:?} stderr {}\nseed {seed}: exit {:?} stderr {}\n{}", base.exit, show_bytes(&base.stderr), o.exit, show_bytes(&o.stderr), desc()));
                break;
            }
            if o.request != base.request || o.stdin != base.stdin {
                out.violate("c15/binary/request-depends-on-hash-seed", format!("what the generator receives (the request and its five arguments) differs between hash seeds 0 and {seed}\n{}", desc()));
                break;
            }
        }
        // "the same inputs and OPTIONS": a second option vector (JSON diagnostics, a suppression, a symbol) for the
        // first eleven programs
        if p < 12 {
            let extra = ["--diagnostic-format", "json", "-A", "Deprecated", "-D", "X", "-D", "GIVEN"];
            let b2 = run_binary_with(&files, Some(0), &extra);
            out.steps += 1;
            for seed in 1..seeds.min(3) {
                let o = run_binary_with(&files, Some(seed), &extra);
                out.steps += 1;
                if o.stderr != b2.stderr || o.stdout != b2.stdout || o.exit != b2.exit || o.stdin != b2.stdin {
                    out.violate("c15/binary/result-depends-on-hash-seed-with-options", format!("with {extra:?}: seed 0: exit {:?} stderr {}\nseed {seed}: exit {:?} stderr {}\n{}", b2.exit, show_bytes(&b2.stderr), o.exit, show_bytes(&o.stderr), desc()));
                    break;
                }
            }
            if (b2.exit == Some(0)) != (base.exit == Some(0)) {
                out.violate("c15/binary/acceptance-depends-on-unrelated-options", format!("with {extra:?} the exit status is {:?}, without {:?}\n{}", b2.exit, base.exit, desc()));
            }
        }
        // the files found below a reference DIRECTORY: whatever order the compiler takes them in, it is the same in
        // every run (the first file stays a source, the others are put into refs/)
        let mut dir_exit: Option<Option<i32>> = None;
        if p < 12 && files.len() >= 3 {
            let d0 = run_binary_dir(&files, Some(0));
            dir_exit = Some(d0.exit);
            out.steps += 1;
            for seed in 1..seeds.min(4) {
                let o = run_binary_dir(&files, Some(seed));
                out.steps += 1;
                if o.stderr != d0.stderr || o.stdout != d0.stdout || o.exit != d0.exit || o.stdin != d0.stdin {
                    out.violate("c15/binary/result-depends-on-hash-seed-with-a-reference-directory", format!("first file as a source, the others below '-R refs': seed 0: exit {:?} stderr {}\nseed {seed}: exit {:?} stderr {}; generator input identical: {}\n{}", d0.exit, show_bytes(&d0.stderr), o.exit, show_bytes(&o.stderr), o.stdin == d0.stdin, desc()));
                    break;
                }
            }
        }
        // same seed twice: byte-identical
        let again = run_binary(&files, Some(0));
        out.steps += 1;
        if again.stderr != base.stderr || again.stdout != base.stdout || again.request != base.request || again.stdin != base.stdin || again.exit != base.exit {
            out.violate("c15/binary/two-runs-of-the-same-input-differ", desc());
        }
        // against the canonical arrangement: all three as sources in pool order
        let canon_files: Vec<(usize, bool)> = prog.iter().map(|k| (*k, true)).collect();
        let canon = run_binary(&canon_files, Some(0));
        out.steps += 1;
        if let Some(de) = dir_exit {
            if (de == Some(0)) != (canon.exit == Some(0)) {
                out.violate("c15/binary/acceptance-depends-on-assignment-or-order", format!("all files as sources: exit {:?}; the same files below '-R ./refs' with the first also named as the source refs/f<i>.slice: exit {de:?}\n{}", canon.exit, desc()));
            }
        }
        if (canon.exit == Some(0)) != (base.exit == Some(0)) {
            out.violate("c15/binary/acceptance-depends-on-assignment-or-order", format!("canonical arrangement exits {:?}, this one {:?}: {}\n{}", canon.exit, base.exit, show_bytes(&base.stderr), desc()));
        }
        let norm = |b: &[u8]| {
            let s = String::from_utf8_lossy(b).to_string();
            // warnings as a multiset of header+location blocks: compare sorted "warning [" header lines and location lines
            let mut v: Vec<String> = s.lines().filter(|l| l.starts_with("warning [") || l.starts_with("error [") || l.starts_with(" --> ")).map(|l| l.to_string()).collect();
            v.sort();
            v
        };
        // the statement fixes the set of reports only for accepted programs (a rejected program may be reported from
        // a different starting point, e.g. a cycle from another of its members)
        if canon.exit == Some(0) && base.exit == Some(0) && norm(&canon.stderr) != norm(&base.stderr) {
            out.violate("c15/binary/reports-depend-on-assignment-or-order", format!("canonical: {:?}\nthis: {:?}\n{}", norm(&canon.stderr), norm(&base.stderr), desc()));
        }
        if let (Some(a), Some(b)) = (&canon.request, &base.request) {
            match (decode_request(a), decode_request(b)) {
                (Ok((s1, r1)), Ok((s2, r2))) => {
                    let by_path = |s: Vec<Node>, r: Vec<Node>| -> BTreeMap<String, Node> { s.into_iter().chain(r.into_iter()).map(|n| (n.get("path").unwrap_or("?").to_string(), n)).collect() };
                    let (m1, m2) = (by_path(s1, r1), by_path(s2.clone(), r2.clone()));
                    if m1 != m2 {
                        out.violate("c15/binary/request-content-depends-on-assignment-or-order", format!("the content transmitted for some file differs from the canonical arrangement\n{}", desc()));
                    }
                    let exp_src: Vec<String> = files.iter().filter(|f| f.1).map(|f| format!("f{}.slice", f.0)).collect();
                    let got_src: Vec<String> = s2.iter().map(|n| n.get("path").unwrap_or("?").to_string()).collect();
                    if exp_src != got_src {
                        out.violate("c15/binary/source-list", format!("sources expected {exp_src:?}, request has {got_src:?}\n{}", desc()));
                    }
                }
                (Err(e), _) | (_, Err(e)) => out.violate("c15/binary/request-undecodable", format!("{e}\n{}", desc())),
            }
        } else if canon.exit == Some(0) {
            out.violate("c15/binary/request-missing", format!("the generator's input does not end with its own arguments {:?}, or there is none\n{}", capture_args(), desc()));
        }
        out.class = format!("exit{:?}:{}warnings", base.exit, norm(&base.stderr).iter().filter(|l| l.starts_with("warning")).count());
        out
    }
}


// ---------------------------------------------------------------------------------------------------------------
// Repetition: the same input gives the same reports, in the same order, whatever the hash seeds are.

/// Programs that make one phase report several diagnostics at once (several repeated attributes on one element,
/// several redefinitions in one container, several duplicate tags / enumerator values, several cycles, several
/// unresolved or deprecated references, several broken links in one comment, several redeclared inherited
/// operations, ...): wherever a report is produced by walking a hash container, its order shows here.
const DENSE: [&str; 26] = [
    "module M\ninterface I {\n  [oneway] [compress(Args)] [oneway] [compress(Args)] [deprecated] [deprecated] [slicedFormat(Args)] [slicedFormat(Args)] op()\n}\n",
    "module M\n[deprecated] [allow(All)] [deprecated] [allow(All)] [cs::x] [cs::x] struct S {}\n",
    "module M\n[oneway] [compress(Args)] [slicedFormat(Args)] struct S {}\n[oneway] [compress(Args)] [slicedFormat(Args)] enum E { A }\n",
    "module M\nstruct S { a: int32, a: int32, b: int32, b: int32, c: int32, c: int32, d: int32, d: int32 }\n",
    "module M\nstruct A {}\nstruct B {}\nstruct C {}\nstruct D {}\nstruct A {}\nstruct B {}\nstruct C {}\nstruct D {}\n",
    "module M\ninterface I { a() a() b() b() c() c() op(x: int32, x: int32, y: int32, y: int32) -> (r: int32, r: int32, s: int32, s: int32) }\n",
    "module M\nenum E { A, A, B, B, C, C, D, D }\n",
    "module M\nenum E : uint8 { A = 1, B = 1, C = 2, D = 2, E = 3, F = 3, G = 4, H = 4 }\n",
    "module M\nenum E : uint8 { A = 256, B = 257, C = 258, D = -1, E = -2, F = 300 }\n",
    "module M\nstruct S { tag(1) a: int32?, tag(1) b: int32?, tag(2) c: int32?, tag(2) d: int32?, tag(3) e: int32?, tag(3) f: int32? }\n",
    "module M\nstruct S { tag(1) a: int32, tag(2) b: int32, tag(3) c: int32, tag(4) d: int32 }\n",
    "module M\ncompact struct S { tag(1) a: int32?, tag(2) b: int32?, tag(3) c: int32? }\n",
    "module M\nstruct S { a: N1, b: N2, c: N3, d: N4, e: N5, f: N6 }\n",
    "module M\nstruct A1 { x: A2 }\nstruct A2 { x: A1 }\nstruct B1 { x: B2 }\nstruct B2 { x: B1 }\nstruct C1 { x: C2 }\nstruct C2 { x: C1 }\nstruct D1 { x: D1 }\n",
    "module M\nstruct H { a: H1, b: H2, c: H3 }\nstruct H1 { h: H }\nstruct H2 { h: H }\nstruct H3 { h: H }\n",
    "module M\n[deprecated] struct D1 {}\n[deprecated] struct D2 {}\n[deprecated] struct D3 {}\nstruct U { a: D1, b: D2, c: D3, d: Sequence<D1>, e: Dictionary<int32, D2>, f: D3? }\n",
    "module M\n/// {@link N1} {@link N2} {@link N3}\n/// {@link N4} and {@link N5}\n/// @see N6\n/// @see N7\nstruct S {}\n",
    "module M\ninterface I {\n  /// @param a: x\n  /// @param b: x\n  /// @param c: x\n  /// @returns r: x\n  /// @returns s: x\n  op()\n}\n",
    "module M\n/// @param a: x\n/// @returns: y\nstruct S {}\n/// @param a: x\n/// @returns: y\nenum E { A }\n/// @param a: x\n/// @returns: y\ncustom C\n",
    "module M\ninterface B1 { a() b() }\ninterface B2 { c() d() }\ninterface D : B1, B2 { a() b() c() d() }\n",
    "module M\nstruct K { a: float32, b: Sequence<int32>, c: float64, d: Dictionary<int32, int32> }\nstruct U { d: Dictionary<K, int32> }\n",
    "module M\nstruct U { a: Dictionary<float32, int32>, b: Dictionary<Sequence<int32>, int32>, c: Dictionary<float64, int32>, d: Dictionary<int32?, int32> }\n",
    "module M\ntypealias A1 = A2\ntypealias A2 = A1\ntypealias B1 = B2\ntypealias B2 = B1\ntypealias C1 = C1\nstruct S { a: A1, b: B1, c: C1 }\n",
    "module M\ninterface I1 : I2 {}\ninterface I2 : I1 {}\ninterface J1 : J2 {}\ninterface J2 : J1 {}\ninterface K1 : K1 {}\n",
    "module M\n[bogus1] [bogus2] [bogus3] [bogus4] struct S {}\n[allow(Nope1, Nope2, Nope3)] struct T {}\n",
    "module M\ninterface I { op(stream a: int32, stream b: int32, c: int32) -> (stream x: int32, stream y: int32, z: int32) }\nunchecked enum E : float32 { A(x: int32), B(y: int32) }\ncompact enum F : uint8 { A }\n",
];

pub struct Repetition {
    pub runs: usize,
}
impl Repetition {
    fn texts(&self, idx: u64) -> Vec<String> {
        let n = DENSE.len() as u64;
        if idx < n {
            return vec![DENSE[idx as usize].to_string()];
        }
        // ordered pairs: the second program in a second module of the same compilation (two files)
        let k = idx - n;
        let (a, b) = ((k / n) as usize, (k % n) as usize);
        vec![DENSE[a].to_string(), DENSE[b].replace("module M", "module N")]
    }
}
impl Family for Repetition {
    fn name(&self) -> String {
        format!("repetition/{} diagnostic-dense programs alone and in all ordered pairs (two files), each compiled {} times with fresh hash seeds: reports identical in content and order", DENSE.len(), self.runs)
    }
    fn len(&self) -> u64 {
        let n = DENSE.len() as u64;
        n + n * n
    }
    fn describe(&self, idx: u64) -> Value {
        json!({"files": self.texts(idx), "compilations": self.runs})
    }
    fn run(&self, idx: u64) -> CaseOut {
        let texts = self.texts(idx);
        let refs: Vec<&str> = texts.iter().map(|s| s.as_str()).collect();
        let mut out = CaseOut::new(hash_str(&format!("c15rep{idx}")));
        out.steps = 0;
        out.validated = 1;
        let show = || texts.iter().enumerate().map(|(i, t)| format!("--- file {i} ---\n{t}")).collect::<Vec<_>>().join("");
        let mut first: Option<Vec<String>> = None;
        for run in 0..self.runs {
            out.steps += 1;
            let diags = match compile_texts(&refs, None) {
                Ok((_ast, _files, d)) => d,
                Err((loc, msg)) => {
                    out.violate(format!("c15/repetition/panic@{loc}"), format!("panic at {loc}: {msg}\n{}", show()));
                    return out;
                }
            };
            let all: Vec<String> = diags.iter().map(|d| format!("{} {} {:?} {:?} {:?} notes {:?}", d.level, d.code, d.message, d.file, d.span, d.notes)).collect();
            match &first {
                None => {
                    out.nontrivial = all.len() >= 2;
                    out.class = format!("{}-diagnostics", all.len().min(9));
                    first = Some(all);
                }
                Some(f) => {
                    if *f != all {
                        let mut a = f.clone();
                        let mut b = all.clone();
                        a.sort();
                        b.sort();
                        let what = if a == b { "order" } else { "content" };
                        out.violate(format!("c15/repetition/reports-differ-between-runs/{what}"), format!("compilation 0 reported\n  {}\ncompilation {run} of the same input reported\n  {}\n{}", f.join("\n  "), all.join("\n  "), show()));
                        break;
                    }
                }
            }
        }
        out
    }
}

pub fn families(tier: &str) -> Vec<Box<dyn Family>> {
    let quick = tier == "quick";
    vec![Box::new(Assignments::new(tier)), Box::new(Repetition { runs: if quick { 8 } else { 64 } }), Box::new(Permutations::member_collisions()), Box::new(Permutations::new(if quick { 4 } else { 5 }))]
}
