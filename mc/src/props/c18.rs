//! C18 — a failing generator is reported, never fatal, and never half-trusted (fault enumeration, engine E3).
//!
//! Statement: whatever a generator does - cannot be started, exits non-zero, is killed by a signal, writes to
//! stderr, closes stdin early, or replies with empty, truncated or undecodable data - the compiler reports an error
//! naming that generator, still runs and honours the other generators, exits non-zero and neither crashes nor
//! hangs.  All generators receive the identical request followed by their own arguments; files are written only
//! from a successfully decoded reply (relative paths are placed below the output directory), and a file whose
//! content is already identical is left untouched.
//!
//! Every case is one run of the real `slicec` binary with 1..3 scripted fake generators (`proc.rs`, `fakegen`).
//! The expected verdict of a generator comes from a boring model: it FAILS if it cannot be started, ends with a
//! status other than 0 or by a signal, writes to stderr, does not read its whole stdin, or if the independent
//! reference decoder (`refcodec`) cannot decode its stdout as a reply; it is HEALTHY if the reference decoder
//! consumes its stdout exactly.
//!
//! Where the statement is open the oracle accepts every behaviour that is consistent in itself (each softening
//! is marked `SOFT` below):
//!   SOFT-1  valid reply followed by trailing bytes: the statement does not say whether that is "successfully
//!           decoded".  Accepted: either (no error naming the generator, its files written) or (exactly one
//!           error naming it, none of its files written).
//!   SOFT-2  a reply file whose directory does not exist (output directory missing, output directory is a
//!           regular file, nested path below a missing directory): the statement does not say whether slicec
//!           creates directories.  Accepted: the file exists with the bytes sent, or an error diagnostic
//!           mentions the file's path and the exit status is non-zero.  Silent loss is a violation.
//!   SOFT-3  an absolute path in a reply: the statement only places *relative* paths.  For a trusted reply
//!           nothing is demanded about where (or whether) such a file is written, as long as any failure is
//!           reported through an error mentioning the path; for a failed generator the absolute target must stay
//!           untouched like every other file ("written only from a successfully decoded reply").
//!   SOFT-4  a generator that does not read its stdin cannot be detected when the whole request fits the pipe
//!           buffer, so the rows "exits without reading" / "reads half" send NO reply when the request is small
//!           (they fail anyway: empty reply or EPIPE, the oracle does not care which); the row "does not read but
//!           sends a valid reply" exists only with a request larger than the pipe buffer, where slicec's write
//!           must fail (EPIPE) and the statement demands an error naming the generator.
//!   SOFT-5  errors about a file that could not be written need not name the generator (the statement demands
//!           that only for generator faults); they must mention the file path.  A line "names" a generator if it
//!           contains the generator's file name (the path as spelled on the command line contains it).
//!   SOFT-6  diagnostics sent inside a healthy reply are not checked (the statement says nothing about them); the
//!           catalogue sends only Info/Warning levels.
//! Not softened: number of errors per failed generator (exactly one), every startable generator started exactly
//! once, identical request bytes, exit status, files of failed generators absent/untouched, identical file keeps
//! inode and mtime, nothing else in the directory changes.

use super::PropMeta;
use crate::engine::*;
use crate::proc::{self, Gen, Install, Kind, Node, RDiag, RFile, Scenario, Scratch, Script, Step};
use crate::util::*;
use serde_json::{json, Value};
use std::sync::OnceLock;
use std::time::Duration;

pub fn meta(m: &mut PropMeta) {
    m.level = "fault_enumeration";
    m.rule = "every case = one run of the real slicec binary (private directory, watchdog 20 s) with 1..3 scripted fake generators drawn from the behaviour catalogue B (25 rows: ok with 0/1/3 files, ok + early close of stdout, missing executable, not executable, exit 1 after a valid reply, exit 255, SIGKILL after a valid reply, SIGSEGV, stderr output + valid reply + exit 0, exits without reading stdin, reads half of stdin then exits, empty reply, invalid bool, invalid UTF-8, a path ending inside a multi-byte character, bad diagnostic level, 2^62-1 string size, 2^28 announced entries, valid reply + trailing bytes, ./relative path, nested path below an existing / a missing directory, absolute path) plus truncation of a valid 2-file/2-diagnostic reply at EVERY byte, plus three single-generator rows that combine listed behaviours with more data than a pipe buffer holds (healthy with a 100 000 byte file; the same reply written BEFORE stdin is read; 100 000 bytes of stderr without reading stdin, exit 3). Families: one generator (all of B + all truncations, each with no delay and with a 50 ms delay before read / before reply / before exit); two generators (B x B; delay deviations: at most one 50 ms delay point in the run); three generators (B8^3 over the 8 most distinct rows); output-directory states {no -O, -O existing, -O missing, -O is a regular file, file already identical, file different, identical/different in the cwd without -O} for the rows whose reply names files, alone and next to a neighbour, both orders; request larger than the 64 KiB pipe buffer (big input file) for all rows alone and the non-reading rows next to B8 neighbours; every truncation next to a neighbour. Oracle from the statement with a reference decoder deciding which replies are valid: no signal / panic / hang; exactly one error line naming each failed generator and none naming a healthy one; every startable generator started exactly once and (if it reads stdin) received request ++ its own encoded arguments with the request byte-identical across the run; exit status != 0 iff an error was emitted, and != 0 if some generator failed; files of healthy replies exist below the output directory with the bytes sent; files named by failed generators are absent / untouched; a pre-existing identical file keeps inode and mtime; nothing else changes. non-trivial = at least one generator is not a plain healthy row, or the output state / payload / schedule deviates from the plain one; distinct = distinct rendered scenarios; outcome class = (exit status, error lines per generator, other error lines, started mask, paths changed).";
    m.explanation = "fault enumeration at process level: the fault sequence of every generator child (start failure, exit status, signal, stderr, early close of stdin, every truncation and corruption class of the reply) is scripted and enumerated as a complete product, with explicit delay points as bounded schedule deviations";
    m.quick_bound = "1 generator: all 24 rows + every truncation x 4 delay variants + 3 large-data rows; 2 generators: 24 x 24 (+ <=1 delay deviation over 8 x 8); 3 generators: 8^3; output states: 11 rows x 8 states alone and with 2 neighbours; big payload: 25 + 3 rows alone + 48 pairs; truncations next to a healthy neighbour";
    m.thorough_bound = "as quick, plus: <=1 delay deviation on all 24 x 24 pairs and all 8^3 triples; 24 x 24 pairs and 8^3 triples in all 8 output states; output states x 8 neighbours x both orders; delay deviations on the big-payload rows; every truncation next to each of 8 neighbours in both orders";
    m.quick_cap_s = 120.0;
    m.thorough_cap_s = 600.0;
}

// ------------------------------------------------------------------------------------------------------------
// Behaviour catalogue

#[derive(Clone, Copy, Debug, PartialEq)]
enum B {
    Ok0,
    Ok1,
    Ok3,
    OkCloseEarly,
    Missing,
    NotExec,
    Exit1,
    Exit255,
    SigKill,
    SigSegv,
    StderrExit0,
    NoRead,
    Half,
    EmptyReply,
    BadBool,
    BadUtf8,
    /// a path that ends inside a multi-byte character
    BadUtf8Tail,
    BadLevel,
    HugeSize,
    HugeCount,
    Trailing,
    DotRel,
    NestedExisting,
    NestedMissing,
    Absolute,
    /// a healthy reply with three files: one whose relative path climbs out ('../x'), one whose path contains '..' but
    /// stays inside ('pre/../x'), one plain
    DotDot,
    /// only with the big payload (SOFT-4)
    NoReadReplyOk,
    /// healthy, but the reply (one 100 000 byte file) is larger than the pipe buffer
    OkBigReply,
    /// like OkBigReply, but the reply is written BEFORE stdin is read (everything is read afterwards)
    BigReplyBeforeRead,
    /// writes 100 000 bytes to stderr without reading stdin, then exits 3
    NoReadBigStderr,
    /// the truncation base reply cut to its first k bytes
    Trunc(usize),
}

const B_ALL: [B; 26] = [
    B::Ok0,
    B::Ok1,
    B::Ok3,
    B::OkCloseEarly,
    B::Missing,
    B::NotExec,
    B::Exit1,
    B::Exit255,
    B::SigKill,
    B::SigSegv,
    B::StderrExit0,
    B::NoRead,
    B::Half,
    B::EmptyReply,
    B::BadBool,
    B::BadUtf8,
    B::BadUtf8Tail,
    B::BadLevel,
    B::HugeSize,
    B::HugeCount,
    B::Trailing,
    B::DotRel,
    B::NestedExisting,
    B::NestedMissing,
    B::Absolute,
    B::DotDot,
];

fn b8() -> [B; 8] {
    [B::Ok1, B::Ok3, B::Missing, B::Exit1, B::SigKill, B::StderrExit0, B::NoRead, B::Trunc(trunc_len() / 2)]
}

/// Rows that combine listed faults with amounts of data larger than the pipe buffer (one generator only).
const B_LARGE: [B; 3] = [B::OkBigReply, B::BigReplyBeforeRead, B::NoReadBigStderr];

/// Rows whose reply names files (whether the reply is to be trusted or not).
const B_WRITING: [B; 12] = [B::Ok1, B::Ok3, B::OkCloseEarly, B::Exit1, B::SigKill, B::StderrExit0, B::Trailing, B::DotRel, B::NestedExisting, B::NestedMissing, B::Absolute, B::DotDot];

#[derive(Clone, Copy, Debug, PartialEq)]
enum ReadMode {
    All,
    Nothing,
    Half,
}

#[derive(Clone, Copy, Debug, PartialEq)]
enum End {
    Exit(i32),
    Kill(i32),
}

#[derive(Clone, Copy, Debug, PartialEq)]
enum Verdict {
    Healthy,
    Fail,
    /// SOFT-1
    Open,
}

#[derive(Clone, Copy, Debug, PartialEq)]
enum Installed {
    Scripted,
    Missing,
    NotExecutable,
}

struct Spec {
    row: String,
    fault: &'static str,
    installed: Installed,
    read: ReadMode,
    reply: Vec<u8>,
    stderr: Vec<u8>,
    close_early: bool,
    /// the reply is written before stdin is read
    reply_first: bool,
    end: End,
    /// files named by the reply, as far as the harness knows them
    files: Vec<RFile>,
    verdict: Verdict,
}

const GEN_NAMES: [&str; 3] = ["fakegen_alpha", "fakegen_bravo", "fakegen_charlie"];

fn gen_args(gi: usize) -> Vec<(String, String)> {
    match gi {
        0 => vec![],
        1 => vec![("k".to_string(), "v".to_string())],
        _ => vec![("x".to_string(), "".to_string()), ("lang".to_string(), "c#, v=2".to_string())],
    }
}

fn trunc_base(gi: usize) -> (Vec<RFile>, Vec<RDiag>) {
    (
        vec![proc::rfile(&format!("f{gi}_t1.txt"), "one\n"), proc::rfile(&format!("f{gi}_t2.txt"), "two\n")],
        vec![RDiag { level: 1, message: "w".into(), source: Some("s".into()) }, RDiag { level: 0, message: "i".into(), source: None }],
    )
}

fn trunc_len() -> usize {
    let (f, d) = trunc_base(0);
    proc::encode_reply(&f, &d).len()
}

/// `work` is the absolute work directory (or the literal "{work}" when only describing).
fn spec(b: B, gi: usize, work: &str) -> Spec {
    let one = |suffix: &str| vec![proc::rfile(&format!("f{gi}_{suffix}.txt"), &format!("generated by generator {gi} ({suffix})\n"))];
    let mut s = Spec {
        row: format!("{b:?}"),
        fault: "healthy",
        installed: Installed::Scripted,
        read: ReadMode::All,
        reply: vec![],
        stderr: vec![],
        close_early: false,
        reply_first: false,
        end: End::Exit(0),
        files: vec![],
        verdict: Verdict::Healthy,
    };
    let valid = |files: &[RFile]| proc::encode_reply(files, &[]);
    match b {
        B::Ok0 => s.reply = valid(&[]),
        B::Ok1 => {
            s.files = one("ok1");
            s.reply = valid(&s.files);
        }
        B::Ok3 => {
            s.files = vec![
                proc::rfile(&format!("f{gi}_a.txt"), "alpha\n"),
                proc::rfile(&format!("f{gi}_b.txt"), ""),
                proc::rfile(&format!("f{gi}_c.txt"), "gamma: \u{e9}\u{4e16}\u{1F600}\nline 2\n"),
            ];
            s.reply = proc::encode_reply(
                &s.files,
                &[RDiag { level: 0, message: format!("info from generator {gi}"), source: Some("a.slice".into()) }, RDiag { level: 1, message: format!("warning from generator {gi}"), source: None }],
            );
        }
        B::OkCloseEarly => {
            s.files = one("early");
            s.reply = valid(&s.files);
            s.close_early = true;
        }
        B::Missing => {
            s.installed = Installed::Missing;
            s.fault = "cannot-start";
        }
        B::NotExec => {
            s.installed = Installed::NotExecutable;
            s.fault = "cannot-start";
        }
        B::Exit1 => {
            s.files = one("exit1");
            s.reply = valid(&s.files);
            s.end = End::Exit(1);
            s.fault = "exit-status";
        }
        B::Exit255 => {
            s.end = End::Exit(255);
            s.fault = "exit-status";
        }
        B::SigKill => {
            s.files = one("sigkill");
            s.reply = valid(&s.files);
            s.end = End::Kill(libc::SIGKILL);
            s.fault = "signal";
        }
        B::SigSegv => {
            s.end = End::Kill(libc::SIGSEGV);
            s.fault = "signal";
        }
        B::StderrExit0 => {
            s.files = one("stderr");
            s.reply = valid(&s.files);
            s.stderr = b"complaint written by the child process on its standard error stream\n".to_vec();
            s.fault = "stderr-output";
        }
        B::NoRead => {
            s.read = ReadMode::Nothing;
            s.fault = "stdin-not-read";
        }
        B::Half => {
            s.read = ReadMode::Half;
            s.fault = "stdin-not-read";
        }
        B::NoReadReplyOk => {
            s.read = ReadMode::Nothing;
            s.files = one("noread");
            s.reply = valid(&s.files);
            s.fault = "stdin-not-read";
        }
        B::OkBigReply | B::BigReplyBeforeRead => {
            let line = format!("// generator {gi} big file line\n");
            s.files = vec![proc::rfile(&format!("f{gi}_big.txt"), &line.repeat(100_000 / line.len() + 1))];
            s.reply = valid(&s.files);
            s.reply_first = b == B::BigReplyBeforeRead;
            if s.reply_first {
                s.fault = "healthy-but-replies-before-reading";
            }
        }
        B::NoReadBigStderr => {
            s.read = ReadMode::Nothing;
            s.stderr = "a long complaint of the child process on its standard error stream\n".repeat(1500).into_bytes();
            s.end = End::Exit(3);
            s.fault = "stdin-not-read";
        }
        B::EmptyReply => s.fault = "undecodable-reply",
        B::BadBool => {
            s.files = one("badbool");
            let mut r = proc::enc_size(1);
            r.extend(proc::enc_str(&s.files[0].path));
            r.extend(proc::enc_str(&s.files[0].contents));
            r.push(proc::TAG_END);
            r.extend(proc::enc_size(1));
            r.push(2); // bit sequence / bool byte that is neither 0 nor 1
            r.push(0);
            r.extend(proc::enc_str("m"));
            r.push(proc::TAG_END);
            s.reply = r;
            s.fault = "undecodable-reply";
        }
        B::BadLevel => {
            s.files = one("badlevel");
            let mut r = proc::enc_size(1);
            r.extend(proc::enc_str(&s.files[0].path));
            r.extend(proc::enc_str(&s.files[0].contents));
            r.push(proc::TAG_END);
            r.extend(proc::enc_size(1));
            r.push(0);
            r.push(3); // DiagnosticLevel has the values 0..=2
            r.extend(proc::enc_str("m"));
            r.push(proc::TAG_END);
            s.reply = r;
            s.fault = "undecodable-reply";
        }
        B::BadUtf8 => {
            let mut r = proc::enc_size(1);
            r.extend(proc::enc_raw_str(&[b'f', b'0' + gi as u8, 0xFF, 0xFE, b'.', b't']));
            r.extend(proc::enc_str("x"));
            r.push(proc::TAG_END);
            r.extend(proc::enc_size(0));
            s.reply = r;
            s.fault = "undecodable-reply";
        }
        B::BadUtf8Tail => {
            let mut r = proc::enc_size(1);
            r.extend(proc::enc_raw_str(&[b'f', b'0' + gi as u8, b'a', 0xC3]));
            r.extend(proc::enc_str("x"));
            r.push(proc::TAG_END);
            r.extend(proc::enc_size(0));
            s.reply = r;
            s.fault = "undecodable-reply";
        }
        B::HugeSize => {
            // one file whose path announces 2^62-1 bytes (all ones: also "-1" for a decoder that reads it signed)
            let mut r = proc::enc_size(1);
            r.extend([0xFFu8; 8]);
            r.extend(b"abc");
            s.reply = r;
            s.fault = "undecodable-reply";
        }
        B::HugeCount => {
            s.files = one("hugecount");
            let mut r = proc::enc_size(1);
            r.extend(proc::enc_str(&s.files[0].path));
            r.extend(proc::enc_str(&s.files[0].contents));
            r.push(proc::TAG_END);
            r.extend(proc::enc_size(1 << 28)); // 2^28 diagnostics announced, none sent
            s.reply = r;
            s.fault = "undecodable-reply";
        }
        B::Trailing => {
            s.files = one("trailing");
            s.reply = valid(&s.files);
            s.reply.extend_from_slice(&[0x00, 0x41, 0xFC]);
            s.fault = "trailing-bytes";
        }
        B::DotRel => {
            s.files = vec![proc::rfile(&format!("./f{gi}_dot.txt"), "dot relative\n")];
            s.reply = valid(&s.files);
        }
        B::NestedExisting => {
            s.files = vec![proc::rfile(&format!("pre/f{gi}_nested.txt"), "nested below an existing directory\n")];
            s.reply = valid(&s.files);
        }
        B::NestedMissing => {
            s.files = vec![proc::rfile(&format!("nope/deeper/f{gi}_nested.txt"), "nested below a missing directory\n")];
            s.reply = valid(&s.files);
        }
        B::Absolute => {
            s.files = vec![proc::rfile(&format!("{work}/abs/f{gi}_abs.txt"), "absolute path\n")];
            s.reply = valid(&s.files);
        }
        B::DotDot => {
            s.files = vec![
                proc::rfile(&format!("../f{gi}_up.txt"), "climbs out of the output directory\n"),
                proc::rfile(&format!("pre/../f{gi}_norm.txt"), "dot-dot inside the output directory\n"),
                proc::rfile(&format!("f{gi}_plain.txt"), "plain\n"),
            ];
            s.reply = valid(&s.files);
        }
        B::Trunc(k) => {
            let (f, d) = trunc_base(gi);
            let full = proc::encode_reply(&f, &d);
            s.reply = full[..k.min(full.len())].to_vec();
            s.files = f;
            s.fault = "truncated-reply";
        }
    }
    // The model verdict (see the module comment).
    s.verdict = if s.installed != Installed::Scripted || s.end != End::Exit(0) || !s.stderr.is_empty() || s.read != ReadMode::All {
        Verdict::Fail
    } else {
        match proc::decode_reply(&s.reply) {
            None => Verdict::Fail,
            Some((files, _, used)) if used == s.reply.len() => {
                assert_eq!(files, s.files, "catalogue row {b:?}: reference decoder disagrees with the builder");
                Verdict::Healthy
            }
            Some(_) => Verdict::Open,
        }
    };
    s
}

// ------------------------------------------------------------------------------------------------------------
// Scenario dimensions

#[derive(Clone, Copy, Debug, PartialEq)]
enum St {
    /// no -O: files go to the working directory
    NoDashO,
    /// -O out, directory exists and is empty
    Exists,
    /// -O out, nothing there
    MissingDir,
    /// -O out, `out` is a regular file
    IsFile,
    /// -O out, every file named by a reply already exists with identical contents
    Identical,
    /// -O out, every file named by a reply already exists with different contents
    Different,
    CwdIdentical,
    CwdDifferent,
}

const ALL_STATES: [St; 8] = [St::NoDashO, St::Exists, St::MissingDir, St::IsFile, St::Identical, St::Different, St::CwdIdentical, St::CwdDifferent];

impl St {
    fn dash_o(self) -> bool {
        !matches!(self, St::NoDashO | St::CwdIdentical | St::CwdDifferent)
    }
}

#[derive(Clone, Debug, PartialEq)]
struct CaseSpec {
    gens: Vec<B>,
    st: St,
    big: bool,
    /// (generator index, delay point 0 = before read, 1 = before reply, 2 = before exit)
    delay: Option<(usize, usize)>,
}

const SMALL_INPUT: &str = "module Small\nstruct S { a: int32 }\n";

fn big_input() -> &'static String {
    static BIG: OnceLock<String> = OnceLock::new();
    BIG.get_or_init(|| {
        // ~170 KiB of request: 320 structs, each with a doc comment of about 500 characters
        let mut s = String::from("module Big\n");
        for i in 0..320 {
            s.push_str("///");
            for _ in 0..55 {
                s.push_str(&format!(" word{i:04}"));
            }
            s.push('\n');
            s.push_str(&format!("struct S{i:04} {{ a: int32, b: string }}\n"));
        }
        s
    })
}

/// Length of the request slicec sends for the small / big input (learned once per process from a probe run with
/// a healthy generator without arguments); used only to size the "reads half" row.
fn request_len(big: bool) -> usize {
    static SMALL: OnceLock<usize> = OnceLock::new();
    static BIGL: OnceLock<usize> = OnceLock::new();
    let cell = if big { &BIGL } else { &SMALL };
    *cell.get_or_init(|| {
        let c = CaseSpec { gens: vec![B::Ok0], st: St::NoDashO, big, delay: None };
        let scratch = Scratch::new();
        let (sc, _) = scenario(&c, &scratch.work().display().to_string(), 0);
        let obs = proc::run_in(&scratch, &sc, Duration::from_secs(30));
        match obs.gens[0].stdin.as_ref() {
            Some(s) if s.len() > 1 => s.len() - 1, // minus the empty argument dictionary
            _ => {
                if big {
                    140_000
                } else {
                    120
                }
            }
        }
    })
}

fn target_rel(st: St, path: &str, work: &str) -> (String, bool) {
    // (path relative to the work directory, is_absolute)
    if let Some(rest) = path.strip_prefix(&format!("{work}/")) {
        return (rest.to_string(), true);
    }
    let p = path.strip_prefix("./").unwrap_or(path);
    if st.dash_o() {
        (format!("out/{p}"), false)
    } else {
        (p.to_string(), false)
    }
}

/// For a relative reply path with a '..' component: where it would land if the components were followed from the
/// output directory (relative to the work directory; None = above the work directory), and whether that place is
/// still below the output directory.
fn dotdot_target(st: St, path: &str) -> Option<(Option<String>, bool)> {
    if !path.split('/').any(|c| c == "..") {
        return None;
    }
    let root: Vec<&str> = if st.dash_o() { vec!["out"] } else { vec![] };
    let mut cur = root.clone();
    let mut above_work = false;
    for c in path.split('/') {
        match c {
            "" | "." => {}
            ".." => {
                if cur.pop().is_none() {
                    above_work = true;
                }
            }
            x => cur.push(x),
        }
    }
    if above_work {
        return Some((None, false));
    }
    let inside = cur.len() > root.len() && cur[..root.len()] == root[..];
    Some((Some(cur.join("/")), inside))
}

/// Build the scenario; `half_total` = request length to use for the "reads half" rows (0 while describing).
fn scenario(c: &CaseSpec, work: &str, req_len: usize) -> (Scenario, Vec<Spec>) {
    let specs: Vec<Spec> = c.gens.iter().enumerate().map(|(gi, b)| spec(*b, gi, work)).collect();
    let mut tree: Vec<(String, Node)> = vec![];
    let input = if c.big { "big.slice" } else { "a.slice" };
    tree.push((input.to_string(), Node::File(if c.big { big_input().clone().into_bytes() } else { SMALL_INPUT.as_bytes().to_vec() })));
    tree.push(("abs".to_string(), Node::Dir));
    match c.st {
        St::NoDashO | St::CwdIdentical | St::CwdDifferent => tree.push(("pre".to_string(), Node::Dir)),
        St::Exists | St::Identical | St::Different => {
            tree.push(("out".to_string(), Node::Dir));
            tree.push(("out/pre".to_string(), Node::Dir));
        }
        St::MissingDir => {}
        St::IsFile => tree.push(("out".to_string(), Node::File(b"this is a regular file, not a directory\n".to_vec()))),
    }
    if matches!(c.st, St::Identical | St::Different | St::CwdIdentical | St::CwdDifferent) {
        for s in &specs {
            for f in &s.files {
                let (rel, _) = target_rel(c.st, &f.path, work);
                let contents = if matches!(c.st, St::Identical | St::CwdIdentical) { f.contents.clone().into_bytes() } else { format!("old contents of {rel}\n").into_bytes() };
                tree.push((rel, Node::File(contents)));
            }
        }
    }
    let mut argv = vec![input.to_string()];
    let mut gens = vec![];
    for (gi, s) in specs.iter().enumerate() {
        let delay = |point: usize| c.delay == Some((gi, point));
        let install = match s.installed {
            Installed::Missing => Install::Missing,
            Installed::NotExecutable => Install::NotExecutable,
            Installed::Scripted => {
                let mut steps = vec![];
                if delay(0) {
                    steps.push(Step::Sleep(50));
                }
                if s.reply_first {
                    steps.push(Step::Stdout(s.reply.clone()));
                }
                match s.read {
                    ReadMode::All => steps.push(Step::ReadAll),
                    ReadMode::Nothing => {}
                    ReadMode::Half => steps.push(Step::Read((req_len + proc::encode_arguments(&gen_args(gi)).len()) / 2)),
                }
                if delay(1) {
                    steps.push(Step::Sleep(50));
                }
                if !s.reply.is_empty() && !s.reply_first {
                    steps.push(Step::Stdout(s.reply.clone()));
                }
                if !s.stderr.is_empty() {
                    steps.push(Step::Stderr(s.stderr.clone()));
                }
                if s.close_early {
                    steps.push(Step::CloseStdout);
                    steps.push(Step::Sleep(5));
                }
                if delay(2) {
                    steps.push(Step::Sleep(50));
                }
                steps.push(match s.end {
                    End::Exit(code) => Step::Exit(code),
                    End::Kill(sig) => Step::Kill(sig),
                });
                Install::Script(Script(steps))
            }
        };
        gens.push(Gen { name: GEN_NAMES[gi].to_string(), install });
        argv.push("-G".to_string());
        argv.push(proc::gen_spec(&format!("{{gen{gi}}}"), &gen_args(gi)));
    }
    if c.st.dash_o() {
        argv.push("-O".to_string());
        argv.push("out".to_string());
    }
    (Scenario { tree, gens, argv, env: vec![] }, specs)
}

// ------------------------------------------------------------------------------------------------------------
// Families

struct Fam {
    name: &'static str,
    cases: Vec<CaseSpec>,
}

fn scripted(b: B) -> bool {
    !matches!(b, B::Missing | B::NotExec)
}

/// The case without delay followed by every single-delay deviation (generators without a script have no
/// delay points).
fn with_delays(base: &CaseSpec, out: &mut Vec<CaseSpec>) {
    out.push(base.clone());
    for (gi, b) in base.gens.iter().enumerate() {
        if scripted(*b) {
            for point in 0..3 {
                let mut c = base.clone();
                c.delay = Some((gi, point));
                out.push(c);
            }
        }
    }
}

pub fn families(tier: &str) -> Vec<Box<dyn Family>> {
    let thorough = tier == "thorough";
    let case = |gens: Vec<B>, st: St, big: bool| CaseSpec { gens, st, big, delay: None };
    let b8 = b8();
    let truncs: Vec<B> = (0..trunc_len()).map(B::Trunc).collect();
    let mut fams: Vec<Fam> = vec![];

    // 1 generator: all rows + every truncation, each with every delay deviation
    let mut one = vec![];
    for b in B_ALL.iter().chain(truncs.iter()) {
        with_delays(&case(vec![*b], St::Exists, false), &mut one);
    }
    for b in B_LARGE {
        one.push(case(vec![b], St::Exists, false));
    }
    fams.push(Fam { name: "one-generator", cases: one });

    // 2 generators: B x B
    let mut two = vec![];
    for a in B_ALL {
        for b in B_ALL {
            let base = case(vec![a, b], St::NoDashO, false);
            if thorough || (b8.contains(&a) && b8.contains(&b)) {
                with_delays(&base, &mut two);
            } else {
                two.push(base);
            }
            if thorough {
                for st in ALL_STATES.iter().skip(1) {
                    two.push(case(vec![a, b], *st, false));
                }
            }
        }
    }
    fams.push(Fam { name: "two-generators", cases: two });

    // 3 generators: B8^3
    let mut three = vec![];
    for a in b8 {
        for b in b8 {
            for c in b8 {
                let base = case(vec![a, b, c], St::Exists, false);
                if thorough {
                    with_delays(&base, &mut three);
                    for st in ALL_STATES {
                        if st != St::Exists {
                            three.push(case(vec![a, b, c], st, false));
                        }
                    }
                } else {
                    three.push(base);
                }
            }
        }
    }
    fams.push(Fam { name: "three-generators", cases: three });

    // output directory states for the rows whose reply names files
    let mut states = vec![];
    let neighbours: Vec<B> = if thorough { b8.to_vec() } else { vec![B::Ok1, B::Exit1] };
    for w in B_WRITING {
        for st in ALL_STATES {
            if thorough {
                with_delays(&case(vec![w], st, false), &mut states);
            } else {
                states.push(case(vec![w], st, false));
            }
            for n in &neighbours {
                states.push(case(vec![w, *n], st, false));
                states.push(case(vec![*n, w], st, false));
            }
        }
    }
    fams.push(Fam { name: "output-directory-states", cases: states });

    // request larger than the pipe buffer
    let mut big = vec![];
    for b in B_ALL.iter().chain([B::NoReadReplyOk].iter()) {
        if thorough {
            with_delays(&case(vec![*b], St::Exists, true), &mut big);
        } else {
            big.push(case(vec![*b], St::Exists, true));
        }
    }
    for b in B_LARGE {
        big.push(case(vec![b], St::Exists, true));
    }
    for nr in [B::NoRead, B::Half, B::NoReadReplyOk] {
        for n in b8 {
            for pair in [vec![nr, n], vec![n, nr]] {
                if thorough {
                    with_delays(&case(pair, St::Exists, true), &mut big);
                } else {
                    big.push(case(pair, St::Exists, true));
                }
            }
        }
    }
    fams.push(Fam { name: "big-payload", cases: big });

    // every truncation next to a neighbour
    let mut tn = vec![];
    let neighbours: Vec<B> = if thorough { b8.to_vec() } else { vec![B::Ok1] };
    for t in &truncs {
        for n in &neighbours {
            tn.push(case(vec![*t, *n], St::Exists, false));
            tn.push(case(vec![*n, *t], St::Exists, false));
        }
    }
    fams.push(Fam { name: "truncation-with-neighbour", cases: tn });

    let mut v: Vec<Box<dyn Family>> = fams.into_iter().map(|f| Box::new(f) as Box<dyn Family>).collect();
    v.push(Box::new(SameExecutableTwice));
    v.push(Box::new(WriteFailsForOneTarget));
    v.push(Box::new(TargetsBehindLinks));
    v
}


// ------------------------------------------------------------------------------------------------------------
// The same executable configured more than once: every -G is a run of its own, with its own arguments.

pub struct SameExecutableTwice;
const SET_LISTS: [&[(&str, &str)]; 4] = [&[], &[("a", "1")], &[("a", "2"), ("b", "")], &[("a", "1")]];
impl Family for SameExecutableTwice {
    fn name(&self) -> String {
        "same-executable-more-than-once/one executable named by 2 or 3 -G options with different (and with equal) argument lists, healthy and failing with exit status 1, x all orders: one run per option, each receiving the request followed by ITS arguments".into()
    }
    fn len(&self) -> u64 {
        // 2 or 3 options: all ordered selections of argument lists x {healthy, exit 1}
        (4 * 4 + 4 * 4 * 4) * 2
    }
    fn hang_secs(&self) -> f64 {
        60.0
    }
    fn describe(&self, idx: u64) -> Value {
        let (lists, failing) = Self::decode(idx);
        json!({"argument_lists_in_order": lists.iter().map(|l| SET_LISTS[*l]).collect::<Vec<_>>(), "generator_exits_with_status_1": failing})
    }
    fn run(&self, idx: u64) -> CaseOut {
        let (lists, failing) = Self::decode(idx);
        let mut out = CaseOut::new(hash_str(&format!("set{idx}")));
        out.validated = 1;
        out.nontrivial = true;
        let file = proc::rfile("same.txt", "written by the generator\n");
        let reply = proc::encode_reply(&[file.clone()], &[]);
        let mut sc = Scenario::default();
        sc.tree.push(("a.slice".into(), Node::File(SMALL_INPUT.as_bytes().to_vec())));
        sc.gens.push(Gen { name: "gen".into(), install: Install::Script(Script(vec![Step::ReadAll, Step::Stdout(reply), Step::Exit(if failing { 1 } else { 0 })])) });
        sc.argv = vec!["a.slice".into()];
        let mut expected_tail_parts: Vec<Vec<u8>> = vec![];
        for l in &lists {
            let args: Vec<(String, String)> = SET_LISTS[*l].iter().map(|(k, v)| (k.to_string(), v.to_string())).collect();
            sc.argv.push("-G".into());
            sc.argv.push(proc::gen_spec("{gen0}", &args));
            expected_tail_parts.push(proc::encode_arguments(&args));
        }
        let obs = proc::run(&sc, Duration::from_secs(20));
        let ctx = || format!("argv {:?}; exit {:?}; stderr {}", obs.argv, obs.exit_code, truncate(&proc::show_bytes(&obs.stderr), 500));
        if obs.timed_out || obs.signal.is_some() || obs.panic_location().is_some() {
            out.violate("c18/same-executable/crash-or-hang", ctx());
            return out;
        }
        let g = &obs.gens[0];
        let n = lists.len();
        if g.started as usize != n {
            out.violate("c18/same-executable/number-of-runs", format!("{n} -G options name the executable but it was started {} time(s). {}", g.started, ctx()));
            return out;
        }
        // what it read, over all its runs (they are sequential): request ++ arguments, once per option, in order
        let all = g.stdin.clone().unwrap_or_default();
        let args_total: usize = expected_tail_parts.iter().map(|p| p.len()).sum();
        if all.len() < args_total || (all.len() - args_total) % n != 0 {
            out.violate("c18/same-executable/arguments", format!("the {n} runs read {} bytes in total, which is not {n} x request + the {args_total} bytes of their argument lists. {}", all.len(), ctx()));
            return out;
        }
        let req_len = (all.len() - args_total) / n;
        // (the generators of one run are started in parallel, so the runs of this one executable append what they
        // read in any order: some order of the options must explain the bytes)
        let perms: Vec<Vec<usize>> = if n == 2 { vec![vec![0, 1], vec![1, 0]] } else { vec![vec![0, 1, 2], vec![0, 2, 1], vec![1, 0, 2], vec![1, 2, 0], vec![2, 0, 1], vec![2, 1, 0]] };
        let explains = |perm: &Vec<usize>| -> bool {
            let mut at = 0;
            let mut first_req: Option<&[u8]> = None;
            for i in perm {
                let tail = &expected_tail_parts[*i];
                let req = &all[at..at + req_len];
                if &all[at + req_len..at + req_len + tail.len()] != &tail[..] {
                    return false;
                }
                at += req_len + tail.len();
                match first_req {
                    None => first_req = Some(req),
                    Some(f) if f != req => return false,
                    _ => {}
                }
            }
            true
        };
        if !perms.iter().any(explains) {
            out.violate("c18/same-executable/arguments", format!("the bytes the {n} runs read are not, in any order of the options, '{req_len}-byte request + the arguments of one option' for each of {:?} with one and the same request. {}", lists.iter().map(|l| SET_LISTS[*l]).collect::<Vec<_>>(), ctx()));
            return out;
        }
        let errors = obs.error_lines();
        if failing {
            if obs.exit_code == Some(0) || errors.len() != n {
                out.violate("c18/same-executable/failures-reported", format!("each of the {n} runs exits with status 1: {n} errors and a non-zero exit status are expected; {} error line(s). {}", errors.len(), ctx()));
            }
        } else if obs.exit_code != Some(0) || !errors.is_empty() {
            out.violate("c18/same-executable/healthy-runs-rejected", ctx());
        } else if obs.after.get("same.txt").map(|e| e.contents.clone()) != Some(file.contents.clone().into_bytes()) {
            out.violate("c18/same-executable/file-not-written", ctx());
        }
        out.class = format!("{n}-runs:{}", if failing { "failing" } else { "healthy" });
        out
    }
}
impl SameExecutableTwice {
    fn decode(idx: u64) -> (Vec<usize>, bool) {
        let failing = idx % 2 == 1;
        let k = idx / 2;
        if k < 16 {
            (vec![(k % 4) as usize, (k / 4) as usize], failing)
        } else {
            let k = k - 16;
            (vec![(k % 4) as usize, ((k / 4) % 4) as usize, (k / 16) as usize], failing)
        }
    }
}


// ------------------------------------------------------------------------------------------------------------
// A write that fails for ONE file of a healthy reply (the directory is fine): reported, and the other files of the
// same reply - and of the other generators - are still written.

pub struct WriteFailsForOneTarget;
impl Family for WriteFailsForOneTarget {
    fn name(&self) -> String {
        "write-fails-for-one-file/a healthy reply of three files whose middle target cannot be written (a link to /dev/full: created, then no space; an existing directory; a link to a missing directory; an existing named pipe that nobody reads) x with / without -O x alone / before / after a second healthy generator: the failure is reported with the path, the exit status is non-zero, every other file is written".into()
    }
    fn len(&self) -> u64 {
        4 * 2 * 3 * 2
    }
    fn hang_secs(&self) -> f64 {
        60.0
    }
    fn describe(&self, idx: u64) -> Value {
        let obstacle = ["link to /dev/full", "existing directory", "link into a missing directory", "existing named pipe"][(idx % 4) as usize];
        let neighbour = ["none", "before", "after"][((idx % 24) / 8) as usize];
        json!({"obstacle": obstacle, "dash_O": (idx / 4) % 2 == 1, "neighbour": neighbour, "the_file_that_cannot_be_written_is_empty": idx >= 24})
    }
    fn run(&self, idx: u64) -> CaseOut {
        // (second half of the family: the file that cannot be written is EMPTY - nothing to compare, nothing to write)
        let empty = idx >= 24;
        let idx = idx % 24;
        let obstacle = idx % 4;
        let dash_o = (idx / 4) % 2 == 1;
        let neighbour = idx / 8;
        let mut out = CaseOut::new(hash_str(&format!("wf{idx}{empty}")));
        out.validated = 1;
        out.nontrivial = true;
        let dir = if dash_o { "out/" } else { "" };
        let files = vec![proc::rfile("first.txt", "first\n"), proc::rfile("blocked.txt", if empty { "" } else { "cannot be written\n" }), proc::rfile("last.txt", "last\n")];
        let other = proc::rfile("other.txt", "from the other generator\n");
        let mut sc = Scenario::default();
        sc.tree.push(("a.slice".into(), Node::File(SMALL_INPUT.as_bytes().to_vec())));
        if dash_o {
            sc.tree.push(("out".into(), Node::Dir));
        }
        sc.tree.push((
            format!("{dir}blocked.txt"),
            match obstacle {
                0 => Node::Symlink("/dev/full".into()),
                1 => Node::Dir,
                2 => Node::Symlink("no-such-directory/target.txt".into()),
                _ => Node::Fifo,
            },
        ));
        let healthy = |files: &[RFile]| Install::Script(Script(vec![Step::ReadAll, Step::Stdout(proc::encode_reply(files, &[])), Step::Exit(0)]));
        sc.argv = vec!["a.slice".into()];
        let mut gi = 0;
        let mut add = |sc: &mut Scenario, name: &str, inst: Install| {
            sc.gens.push(Gen { name: name.into(), install: inst });
            sc.argv.push("-G".into());
            sc.argv.push(format!("{{gen{gi}}}"));
            gi += 1;
        };
        if neighbour == 1 {
            add(&mut sc, "other", healthy(&[other.clone()]));
        }
        add(&mut sc, "writer", healthy(&files));
        if neighbour == 2 {
            add(&mut sc, "other", healthy(&[other.clone()]));
        }
        if dash_o {
            sc.argv.extend(["-O".to_string(), "out".to_string()]);
        }
        let obs = proc::run(&sc, Duration::from_secs(20));
        let ctx = || format!("argv {:?}; exit {:?}; stderr {}; paths after: {:?}", obs.argv, obs.exit_code, truncate(&proc::show_bytes(&obs.stderr), 500), obs.after.keys().collect::<Vec<_>>());
        if obs.timed_out || obs.signal.is_some() || obs.panic_location().is_some() {
            out.violate("c18/write-fails-for-one-file/crash-or-hang", ctx());
            return out;
        }
        let errors = obs.error_lines();
        if !errors.iter().any(|l| l.contains("blocked.txt")) {
            out.violate("c18/write-fails-for-one-file/failure-not-reported", format!("no error line mentions blocked.txt. {}", ctx()));
        }
        if obs.exit_code == Some(0) {
            out.violate("c18/write-fails-for-one-file/exit-status-zero", ctx());
        }
        let mut expected = vec![("first.txt", "first\n"), ("last.txt", "last\n")];
        if neighbour != 0 {
            expected.push(("other.txt", "from the other generator\n"));
        }
        for (name, contents) in expected {
            let p = format!("{dir}{name}");
            if obs.after.get(&p).map(|e| e.contents.as_slice()) != Some(contents.as_bytes()) {
                out.violate("c18/write-fails-for-one-file/other-file-not-written", format!("{p} must hold the bytes its generator sent. {}", ctx()));
            }
        }
        for l in &errors {
            if !l.contains("blocked.txt") {
                out.violate("c18/write-fails-for-one-file/unexplained-error-line", format!("{l:?}. {}", ctx()));
            }
        }
        out.class = format!("obstacle{obstacle}:exit{:?}:{}errors", obs.exit_code, errors.len());
        out
    }
}

// ------------------------------------------------------------------------------------------------------------
// Existing files that are reached through a symbolic link (a generated file shared by two projects, an output tree
// that a build system populates with links into its cache): "already identical" and "left untouched" are about the
// file the path leads to.

pub struct TargetsBehindLinks;
impl Family for TargetsBehindLinks {
    fn name(&self) -> String {
        "targets-behind-links/a healthy reply of three files; the middle path exists as a symbolic link to a regular file elsewhere (identical / different contents of the same length / different length; relative link / link chain of two) x with / without -O x alone / after a second healthy generator: an identical file is left untouched (inode, mtime, bytes), a different one holds the new bytes afterwards, nothing is reported, exit status 0".into()
    }
    fn len(&self) -> u64 {
        3 * 2 * 2 * 2
    }
    fn hang_secs(&self) -> f64 {
        60.0
    }
    fn describe(&self, idx: u64) -> Value {
        let existing = ["identical", "different, same length", "different length"][(idx % 3) as usize];
        let link = ["shared.txt -> common/shared.txt", "a chain of two links"][((idx / 3) % 2) as usize];
        json!({"existing_contents": existing, "link": link, "dash_O": (idx / 6) % 2 == 1, "second_generator": idx / 12 == 1})
    }
    fn run(&self, idx: u64) -> CaseOut {
        let existing = idx % 3;
        let chain = (idx / 3) % 2 == 1;
        let dash_o = (idx / 6) % 2 == 1;
        let second = idx / 12 == 1;
        let mut out = CaseOut::new(hash_str(&format!("tbl{idx}")));
        out.validated = 1;
        out.nontrivial = true;
        let dir = if dash_o { "out/" } else { "" };
        let new_bytes = "SHARED-1\n";
        let files = vec![proc::rfile("first.txt", "first\n"), proc::rfile("shared.txt", new_bytes), proc::rfile("last.txt", "last\n")];
        let mut sc = Scenario::default();
        sc.tree.push(("a.slice".into(), Node::File(SMALL_INPUT.as_bytes().to_vec())));
        if dash_o {
            sc.tree.push(("out".into(), Node::Dir));
        }
        let old_bytes = match existing {
            0 => new_bytes,
            1 => "SHARED-0\n",
            _ => "an older, longer version\n",
        };
        sc.tree.push(("common/shared.txt".into(), Node::File(old_bytes.as_bytes().to_vec())));
        let up = if dash_o { "../" } else { "" };
        if chain {
            sc.tree.push(("common/hop.txt".into(), Node::Symlink("shared.txt".into())));
            sc.tree.push((format!("{dir}shared.txt"), Node::Symlink(format!("{up}common/hop.txt"))));
        } else {
            sc.tree.push((format!("{dir}shared.txt"), Node::Symlink(format!("{up}common/shared.txt"))));
        }
        let healthy = |files: &[RFile]| Install::Script(Script(vec![Step::ReadAll, Step::Stdout(proc::encode_reply(files, &[])), Step::Exit(0)]));
        sc.argv = vec!["a.slice".into()];
        sc.gens.push(Gen { name: "writer".into(), install: healthy(&files) });
        sc.argv.extend(["-G".to_string(), "{gen0}".to_string()]);
        if second {
            sc.gens.push(Gen { name: "other".into(), install: healthy(&[proc::rfile("other.txt", "from the other generator\n")]) });
            sc.argv.extend(["-G".to_string(), "{gen1}".to_string()]);
        }
        if dash_o {
            sc.argv.extend(["-O".to_string(), "out".to_string()]);
        }
        let obs = proc::run(&sc, Duration::from_secs(20));
        let ctx = || format!("argv {:?}; exit {:?}; stderr {}; paths after: {:?}", obs.argv, obs.exit_code, truncate(&proc::show_bytes(&obs.stderr), 500), obs.after.keys().collect::<Vec<_>>());
        if obs.timed_out || obs.signal.is_some() || obs.panic_location().is_some() {
            out.violate("c18/targets-behind-links/crash-or-hang", ctx());
            return out;
        }
        if obs.exit_code != Some(0) || !obs.error_lines().is_empty() {
            out.violate("c18/targets-behind-links/healthy-reply-reported-as-failure", ctx());
        }
        let (b, a) = (obs.before.get("common/shared.txt"), obs.after.get("common/shared.txt"));
        let link_path = format!("{dir}shared.txt");
        // the bytes the generated path leads to afterwards: through the link if it is still one, else the file there
        let reached: Option<Vec<u8>> = match obs.after.get(&link_path) {
            Some(e) if e.kind == Kind::Symlink => a.map(|x| x.contents.clone()),
            Some(e) => Some(e.contents.clone()),
            None => None,
        };
        if reached.as_deref() != Some(new_bytes.as_bytes()) {
            out.violate("c18/targets-behind-links/path-does-not-hold-the-generated-bytes", format!("{link_path} must lead to the bytes its generator sent; it leads to {:?}. {}", reached.as_ref().map(|r| proc::show_bytes(r)), ctx()));
        }
        if existing == 0 {
            match (b, a) {
                (Some(b), Some(a)) if a.inode == b.inode && a.mtime_ns == b.mtime_ns && a.contents == b.contents => {}
                _ => out.violate("c18/targets-behind-links/identical-file-touched", format!("common/shared.txt already held the generated bytes and must be left untouched (inode, mtime, bytes): before {:?}, after {:?}. {}", b.map(|e| (e.inode, e.mtime_ns)), a.map(|e| (e.inode, e.mtime_ns)), ctx())),
            }
            if !obs.after.get(&link_path).is_some_and(|e| e.kind == Kind::Symlink) {
                out.violate("c18/targets-behind-links/identical-file-touched", format!("{link_path} was a link to an identical file and must be left as it is. {}", ctx()));
            }
        }
        for (name, contents) in [("first.txt", "first\n"), ("last.txt", "last\n")].into_iter().chain(second.then_some(("other.txt", "from the other generator\n"))) {
            let p = format!("{dir}{name}");
            if obs.after.get(&p).map(|e| e.contents.as_slice()) != Some(contents.as_bytes()) {
                out.violate("c18/targets-behind-links/other-file-not-written", format!("{p} must hold the bytes its generator sent. {}", ctx()));
            }
        }
        out.class = format!("existing{existing}:chain{chain}:exit{:?}", obs.exit_code);
        out
    }
}

// ------------------------------------------------------------------------------------------------------------
// Oracle

const WATCHDOG_S: u64 = 10;

fn names(line: &str, gi: usize) -> bool {
    line.contains(GEN_NAMES[gi])
}

impl Family for Fam {
    fn name(&self) -> String {
        self.name.to_string()
    }
    fn len(&self) -> u64 {
        self.cases.len() as u64
    }
    fn hang_secs(&self) -> f64 {
        90.0
    }
    /// Most of a run is waiting for child processes (and for explicit 50 ms delay points).
    fn workers(&self) -> Option<usize> {
        Some(32)
    }
    fn describe(&self, idx: u64) -> Value {
        let c = &self.cases[idx as usize];
        let (sc, specs) = scenario(c, "{work}", 0);
        json!({
            "generators": specs.iter().enumerate().map(|(gi, s)| json!({
                "row": s.row, "fault": s.fault, "expected": format!("{:?}", s.verdict), "name": GEN_NAMES[gi],
                "arguments": gen_args(gi), "files_named_by_reply": s.files.iter().map(|f| f.path.clone()).collect::<Vec<_>>(),
            })).collect::<Vec<_>>(),
            "output_state": format!("{:?}", c.st),
            "payload": if c.big { "big (> 64 KiB request)" } else { "small" },
            "delay_deviation": c.delay.map(|(g, p)| format!("generator {g} sleeps 50 ms {}", ["before reading stdin", "before replying", "before exiting"][p])),
            "note": "'read N bytes' of the reads-half row is shown with N computed from an empty request; the run uses half of the real request length",
            "scenario": sc.to_json(),
        })
    }
    fn run(&self, idx: u64) -> CaseOut {
        let c = &self.cases[idx as usize];
        let fam = self.name;
        let rendered = {
            let (sc, _) = scenario(c, "{work}", 0);
            sc.to_json().to_string()
        };
        let mut out = CaseOut::new(hash_str(&rendered));
        let req_len = if c.gens.contains(&B::Half) { request_len(c.big) } else { 0 };
        let scratch = Scratch::new();
        let work = scratch.work().display().to_string();
        let (sc, specs) = scenario(c, &work, req_len);
        out.nontrivial = specs.iter().any(|s| s.verdict != Verdict::Healthy || !matches!(s.row.as_str(), "Ok0" | "Ok1" | "Ok3")) || c.st != St::Exists || c.big || c.delay.is_some();
        let obs = proc::run_in(&scratch, &sc, Duration::from_secs(WATCHDOG_S));
        out.validated = 1;
        let rows: Vec<&str> = specs.iter().map(|s| s.row.as_str()).collect();
        let input = format!("generators={rows:?} state={:?} big={} delay={:?} argv={:?}", c.st, c.big, c.delay, sc.argv);
        let ctx = |obs: &proc::Obs| format!("{input} || {}", obs.summary().replace(&work, "{work}"));

        let lines = obs.error_lines();
        let per_gen: Vec<usize> = (0..specs.len()).map(|gi| lines.iter().filter(|l| names(l, gi)).count()).collect();
        let other_lines: Vec<&String> = lines.iter().filter(|l| !(0..specs.len()).any(|gi| names(l, gi))).collect();
        let started_mask: String = obs.gens.iter().map(|g| char::from_digit(g.started.min(9), 10).unwrap()).collect();
        let changed = obs.changed_paths();
        out.class = format!(
            "exit={:?}{}/generr={:?}/othererr={}/started={}/changed={}",
            obs.exit_code,
            obs.signal.map(|s| format!("/signal={s}")).unwrap_or_default(),
            per_gen,
            other_lines.len(),
            started_mask,
            changed.len()
        );

        // 1. neither crashes nor hangs
        if obs.timed_out {
            let mut kinds: Vec<&str> = specs.iter().map(|s| s.fault).collect();
            kinds.sort();
            kinds.dedup();
            out.violate(format!("c18/{fam}/hang/{}", kinds.join("+")), format!("slicec did not end within {WATCHDOG_S} s (killed by the watchdog). {}", ctx(&obs)));
            return out;
        }
        if let Some(loc) = obs.panic_location() {
            out.violate(format!("c18/{fam}/panic@{loc}"), format!("slicec panicked. {}", ctx(&obs)));
            return out;
        }
        if obs.signal.is_some() || obs.exit_code.is_none() {
            out.violate(format!("c18/{fam}/killed-by-signal"), format!("slicec was killed by signal {:?}. {}", obs.signal, ctx(&obs)));
            return out;
        }

        // 2. one error naming every failed generator, none naming a healthy one
        let any_fail = specs.iter().any(|s| s.verdict == Verdict::Fail);
        let mut trusted = vec![false; specs.len()];
        for (gi, s) in specs.iter().enumerate() {
            match s.verdict {
                Verdict::Fail => {
                    if per_gen[gi] == 0 {
                        out.violate(
                            format!("c18/{fam}/failed-generator-not-reported/{}", s.fault),
                            format!("expected exactly one error line naming generator {gi} ({}, row {}), found none. {}", GEN_NAMES[gi], s.row, ctx(&obs)),
                        );
                    } else if per_gen[gi] > 1 {
                        out.violate(
                            format!("c18/{fam}/failed-generator-reported-more-than-once/{}", s.fault),
                            format!("expected exactly one error line naming generator {gi} ({}, row {}), found {}. {}", GEN_NAMES[gi], s.row, per_gen[gi], ctx(&obs)),
                        );
                    }
                }
                Verdict::Healthy => {
                    trusted[gi] = true;
                    if per_gen[gi] != 0 {
                        out.violate(
                            format!("c18/{fam}/healthy-generator-reported-as-failed"),
                            format!("generator {gi} ({}, row {}) is healthy but {} error line(s) name it. {}", GEN_NAMES[gi], s.row, per_gen[gi], ctx(&obs)),
                        );
                    }
                }
                Verdict::Open => {
                    // SOFT-1
                    trusted[gi] = per_gen[gi] == 0;
                    if per_gen[gi] > 1 {
                        out.violate(
                            format!("c18/{fam}/failed-generator-reported-more-than-once/{}", s.fault),
                            format!("at most one error line may name generator {gi} ({}, row {}), found {}. {}", GEN_NAMES[gi], s.row, per_gen[gi], ctx(&obs)),
                        );
                    }
                }
            }
        }

        // 3. every startable generator is started exactly once and receives request ++ own arguments
        let mut requests: Vec<(usize, Vec<u8>)> = vec![];
        for (gi, s) in specs.iter().enumerate() {
            let g = &obs.gens[gi];
            if s.installed != Installed::Scripted {
                continue;
            }
            if g.started != 1 {
                out.violate(
                    format!("c18/{fam}/generator-start-count"),
                    format!("expected generator {gi} ({}, row {}) to be started exactly once whatever its neighbours do, observed {} starts. {}", GEN_NAMES[gi], s.row, g.started, ctx(&obs)),
                );
                continue;
            }
            if !g.done {
                out.violate(format!("c18/{fam}/generator-did-not-finish"), format!("generator {gi} (row {}) never reached the end of its script (killed from outside?). {}", s.row, ctx(&obs)));
            }
            let stdin = g.stdin.clone().unwrap_or_default();
            match s.read {
                ReadMode::All => match proc::split_request(&stdin, &gen_args(gi)) {
                    Some(req) => {
                        if !proc::request_has_operation_name(req) {
                            out.violate(format!("c18/{fam}/request-malformed"), format!("the request received by generator {gi} does not start with the operation name: {}. {}", proc::show_bytes(req), ctx(&obs)));
                        }
                        requests.push((gi, req.to_vec()));
                    }
                    None => out.violate(
                        format!("c18/{fam}/stdin-does-not-end-with-own-arguments"),
                        format!(
                            "generator {gi} (row {}) must receive the request followed by the encoding of its own arguments {:?} = {}; its stdin ({} bytes) ends with {}. {}",
                            s.row,
                            gen_args(gi),
                            proc::hex(&proc::encode_arguments(&gen_args(gi))),
                            stdin.len(),
                            proc::hex(&stdin[stdin.len().saturating_sub(24)..]),
                            ctx(&obs)
                        ),
                    ),
                },
                ReadMode::Half => {
                    let n = (req_len + proc::encode_arguments(&gen_args(gi)).len()) / 2;
                    if stdin.len() != n {
                        out.violate(format!("c18/{fam}/stdin-shorter-than-request"), format!("generator {gi} (row {}) asked for {n} bytes of its stdin and got {}. {}", s.row, stdin.len(), ctx(&obs)));
                    }
                }
                ReadMode::Nothing => {}
            }
        }
        for w in requests.windows(2) {
            if w[0].1 != w[1].1 {
                let first_diff = w[0].1.iter().zip(w[1].1.iter()).position(|(a, b)| a != b).unwrap_or(w[0].1.len().min(w[1].1.len()));
                out.violate(
                    format!("c18/{fam}/request-differs-between-generators"),
                    format!("generators {} and {} received different requests ({} vs {} bytes, first difference at byte {first_diff}). {}", w[0].0, w[1].0, w[0].1.len(), w[1].1.len(), ctx(&obs)),
                );
            }
        }
        if let Some((_, req)) = requests.first() {
            for (gi, s) in specs.iter().enumerate() {
                if s.read == ReadMode::Half && obs.gens[gi].started == 1 {
                    let got = obs.gens[gi].stdin.clone().unwrap_or_default();
                    if got.len() <= req.len() && req[..got.len()] != got[..] {
                        out.violate(format!("c18/{fam}/request-differs-between-generators"), format!("the bytes read by generator {gi} (row {}) are not a prefix of the request its neighbour received. {}", s.row, ctx(&obs)));
                    }
                }
            }
        }

        // 4. files
        let exists_dir = |rel: &str| rel.is_empty() || obs.before.get(rel).map(|e| e.kind == Kind::Dir).unwrap_or(false);
        let mut allowed_changes: Vec<String> = vec![];
        let mut soft_paths: Vec<(String, String)> = vec![]; // (path as sent, relative target) of files whose writing may legitimately fail
        let mut abs_basenames: Vec<String> = vec![]; // SOFT-3: an absolute reply path of a trusted reply may land anywhere
        let neighbour_tag = if any_fail { "with-failing-neighbour" } else { "all-healthy" };
        for (gi, s) in specs.iter().enumerate() {
            for f in &s.files {
                let (rel, is_abs) = target_rel(c.st, &f.path, &work);
                let before = obs.before.get(&rel);
                let after = obs.after.get(&rel);
                if !trusted[gi] {
                    // files are written only from a successfully decoded reply
                    if before != after {
                        out.violate(
                            format!("c18/{fam}/file-written-from-failed-generator/{}", s.fault),
                            format!(
                                "generator {gi} (row {}) failed, so {rel} must stay {}; observed {:?}. {}",
                                s.row,
                                if before.is_some() { "untouched" } else { "absent" },
                                after.map(|e| proc::show_bytes(&e.contents)),
                                ctx(&obs)
                            ),
                        );
                    }
                    continue;
                }
                if let Some((landing, inside)) = dotdot_target(c.st, &f.path) {
                    // "relative paths are placed below the output directory": a path with a '..' component is either
                    // refused (an error that mentions it) or ends up below the output directory; nothing outside
                    // the output directory may change (only the inside landing place is an allowed change, so an
                    // escape shows as an unexpected change below)
                    soft_paths.push((f.path.clone(), rel.clone()));
                    let reported = lines.iter().any(|l| l.contains(f.path.as_str()));
                    let written_inside = match (&landing, inside) {
                        (Some(l), true) => {
                            allowed_changes.push(l.clone());
                            obs.after.get(l).map(|e| e.kind == Kind::File && e.contents == f.contents.as_bytes()).unwrap_or(false)
                        }
                        _ => false,
                    };
                    if !reported && !written_inside {
                        out.violate(
                            format!("c18/{fam}/relative-path-with-dot-dot-neither-refused-nor-below-the-output-directory"),
                            format!("generator {gi} (row {}) sent a valid reply naming {}; it would land at {:?} (below the output directory: {inside}); no error mentions the path and no such file is below the output directory. {}", s.row, f.path, landing, ctx(&obs)),
                        );
                    }
                    continue;
                }
                allowed_changes.push(rel.clone());
                let parent = rel.rsplit_once('/').map(|(p, _)| p.to_string()).unwrap_or_default();
                let surely_writable = !is_abs && exists_dir(&parent);
                let written = after.map(|e| e.kind == Kind::File && e.contents == f.contents.as_bytes()).unwrap_or(false);
                if is_abs {
                    // SOFT-3: nothing demanded about the place; a reported failure must mention the path
                    soft_paths.push((f.path.clone(), rel.clone()));
                    abs_basenames.push(rel.rsplit('/').next().unwrap_or(&rel).to_string());
                    continue;
                }
                if surely_writable {
                    if !written {
                        out.violate(
                            format!("c18/{fam}/healthy-generator-file-missing-or-wrong/{neighbour_tag}"),
                            format!(
                                "generator {gi} (row {}) sent a valid reply, so {rel} must exist with the {} bytes sent; observed {:?}. {}",
                                s.row,
                                f.contents.len(),
                                after.map(|e| proc::show_bytes(&e.contents)),
                                ctx(&obs)
                            ),
                        );
                    }
                } else {
                    // SOFT-2: written, or reported
                    soft_paths.push((f.path.clone(), rel.clone()));
                    let p_sent = f.path.strip_prefix("./").unwrap_or(&f.path);
                    let reported = lines.iter().any(|l| l.contains(p_sent));
                    if !written && !reported {
                        out.violate(
                            format!("c18/{fam}/file-lost-silently"),
                            format!("generator {gi} (row {}) sent a valid reply naming {}; the file was neither written to {rel} nor reported by an error mentioning its path. {}", s.row, f.path, ctx(&obs)),
                        );
                    }
                }
                // a file whose content is already identical is left untouched
                if let (Some(b), Some(a)) = (before, after) {
                    if b.kind == Kind::File && b.contents == f.contents.as_bytes() && (a.inode != b.inode || a.mtime_ns != b.mtime_ns || a.contents != b.contents) {
                        out.violate(
                            format!("c18/{fam}/identical-file-touched"),
                            format!("{rel} already had the contents generator {gi} sent; expected inode {} / mtime {} to stay, observed inode {} / mtime {}. {}", b.inode, b.mtime_ns, a.inode, a.mtime_ns, ctx(&obs)),
                        );
                    }
                }
            }
        }
        // nothing else changes (directories created on the way to an allowed target are fine)
        let new_dir = |p: &str| !obs.before.contains_key(p) && obs.after.get(p).map(|e| e.kind == Kind::Dir).unwrap_or(false);
        let abs_file = |p: &str| abs_basenames.iter().any(|b| p == b || p.ends_with(&format!("/{b}")));
        let unexpected: Vec<&String> = changed
            .iter()
            .filter(|p| {
                let allowed = allowed_changes.iter().any(|a| a == *p || (a.starts_with(&format!("{p}/")) && new_dir(p)))
                    || abs_file(p)
                    || (new_dir(p) && changed.iter().any(|q| q.starts_with(&format!("{p}/")) && abs_file(q)));
                !allowed
            })
            .collect();
        if !unexpected.is_empty() {
            out.violate(format!("c18/{fam}/unexpected-path-changed"), format!("paths were created / modified / removed that no trusted reply names: {unexpected:?}. {}", ctx(&obs)));
        }

        // 5. every error line is accounted for (SOFT-5), exit status
        for l in &other_lines {
            let ok = soft_paths.iter().any(|(sent, rel)| l.contains(sent.strip_prefix("./").unwrap_or(sent)) || l.contains(rel.as_str()));
            if !ok {
                out.violate(format!("c18/{fam}/unexplained-error-line"), format!("error line names neither a failed generator nor a file that could not be written: {l:?}. {}", ctx(&obs)));
            }
        }
        let failed = obs.exit_code != Some(0);
        if !lines.is_empty() && !failed {
            out.violate(format!("c18/{fam}/exit-status-zero-despite-error"), format!("{} error line(s) were emitted but the exit status is 0. {}", lines.len(), ctx(&obs)));
        }
        if lines.is_empty() && failed {
            out.violate(format!("c18/{fam}/exit-status-nonzero-without-error"), format!("exit status {:?} although no error line was emitted. {}", obs.exit_code, ctx(&obs)));
        }
        if any_fail && !failed {
            out.violate(format!("c18/{fam}/exit-status-zero-despite-failed-generator"), format!("a generator failed but the exit status is 0. {}", ctx(&obs)));
        }
        out
    }
}
