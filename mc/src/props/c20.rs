//! C20 — visitor traversal presents every element exactly once, in source order.

use super::PropMeta;
use crate::engine::*;
use crate::model::run::*;
use crate::model::tree::*;
use crate::util::*;
use serde_json::Value;
use slicec::grammar::*;
use slicec::slice_file::SliceFile;
use slicec::visitor::Visitor;

pub fn meta(m: &mut PropMeta) {
    m.rule = "the C02 program families (every definition kind, anonymous types nested to depth 3 in every position, aliases of anonymous types and their uses, two-file programs whose files reference each other), each file walked separately with a recording visitor; the recorded callback sequence must equal the sequence derived from the model: file, module, definitions in source order, containers before contents, fields / operations / parameters then return members / enumerators / enumerator fields in order, each owner's type reference right after the owner followed depth-first by its nested element, key, value, success and failure references; every entity declared in the file exactly once; nothing from another file. Nested references reached THROUGH an alias of an anonymous type are written in the alias declaration and presented there; at a use of the alias they must not be presented again (nothing twice, nothing from another file). steps = callbacks compared; non-trivial = the file has a nested type or more than one member.";
    m.explanation = "bounded-exhaustive program enumeration with a model-derived expected callback sequence";
    m.quick_bound = "as C02 quick";
    m.thorough_bound = "as C02 thorough";
}

#[derive(Default)]
struct Recorder {
    events: Vec<String>,
}
fn tdesc(t: &TypeRef) -> String {
    let is = match &t.definition {
        TypeRefDefinition::Unpatched(id) => format!("unpatched:{}", id.value),
        TypeRefDefinition::Patched(_) => match t.concrete_type() {
            Types::Primitive(p) => format!("prim:{}", p.kind()),
            Types::Struct(s) => format!("def:struct:{}", s.module_scoped_identifier()),
            Types::Enum(s) => format!("def:enum:{}", s.module_scoped_identifier()),
            Types::CustomType(s) => format!("def:custom:{}", s.module_scoped_identifier()),
            Types::Sequence(_) => "seq".into(),
            Types::Dictionary(_) => "dict".into(),
            Types::ResultType(_) => "result".into(),
        },
    };
    format!("type:{is}:{}", t.is_optional)
}
impl Visitor for Recorder {
    fn visit_file(&mut self, f: &SliceFile) {
        self.events.push(format!("file:{}", f.relative_path));
    }
    fn visit_module(&mut self, m: &Module) {
        // the declaration of THIS file: told apart from other declarations of the same module by its attributes
        let attrs: Vec<String> = m.attributes().iter().map(|a| a.kind.directive().to_string()).collect();
        self.events.push(format!("module:{}[{}]", m.nested_module_identifier(), attrs.join(",")));
    }
    fn visit_struct(&mut self, x: &Struct) {
        self.events.push(format!("struct:{}", x.parser_scoped_identifier()));
    }
    fn visit_interface(&mut self, x: &Interface) {
        self.events.push(format!("interface:{}", x.parser_scoped_identifier()));
    }
    fn visit_enum(&mut self, x: &Enum) {
        self.events.push(format!("enum:{}", x.parser_scoped_identifier()));
    }
    fn visit_operation(&mut self, x: &Operation) {
        self.events.push(format!("operation:{}", x.parser_scoped_identifier()));
    }
    fn visit_custom_type(&mut self, x: &CustomType) {
        self.events.push(format!("custom:{}", x.parser_scoped_identifier()));
    }
    fn visit_type_alias(&mut self, x: &TypeAlias) {
        self.events.push(format!("alias:{}", x.parser_scoped_identifier()));
    }
    fn visit_field(&mut self, x: &Field) {
        self.events.push(format!("field:{}", x.parser_scoped_identifier()));
    }
    fn visit_parameter(&mut self, x: &Parameter) {
        // a parameter and a return member may legally share their name: told apart by the list they are in
        let list = if x.parent().parameters().iter().any(|p| std::ptr::eq(*p, x)) { "parameter" } else { "return" };
        self.events.push(format!("{list}:{}", x.parser_scoped_identifier()));
    }
    fn visit_enumerator(&mut self, x: &Enumerator) {
        self.events.push(format!("enumerator:{}", x.parser_scoped_identifier()));
    }
    fn visit_type_ref(&mut self, t: &TypeRef) {
        self.events.push(tdesc(t));
    }
}

#[derive(Debug, Clone)]
struct Ev {
    text: String,
    /// reached through an alias of an anonymous type: may or may not be presented
    optional: bool,
}

fn expect_type(n: &Node, r: &crate::model::print::Rendered, optional: bool, out: &mut Vec<Ev>) {
    let _ = r;
    let pos = "";
    out.push(Ev { text: format!("type:{}:{}{}", n.get("is").unwrap_or("?"), n.get("optional").unwrap_or("?"), pos), optional });
    for c in &n.children {
        if c.kind == "type" {
            // nested references written here are mandatory. Those that came with an alias target are written in the
            // alias declaration (perhaps in another file) and are presented there: at a use they must NOT be presented
            // again ("nothing is presented twice ... nothing from another file"; slicec behaves so since dff12ec)
            if c.pos.is_none() {
                continue;
            }
            expect_type(c, r, optional, out);
        }
    }
}

fn expect(n: &Node, scope: &str, r: &crate::model::print::Rendered, out: &mut Vec<Ev>) {
    let id = n.get("id").unwrap_or("");
    let scoped = if scope.is_empty() { id.to_string() } else { format!("{scope}::{id}") };
    let ev = |s: String| Ev { text: s, optional: false };
    match n.kind {
        "module" => {
            let attrs: Vec<&str> = n.children.iter().filter(|c| c.kind == "attr").filter_map(|c| c.get("directive")).collect();
            out.push(ev(format!("module:{id}[{}]", attrs.join(","))))
        }
        "struct" | "interface" | "enum" | "custom" | "alias" | "operation" | "field" | "enumerator" => {
            out.push(ev(format!("{}:{}", n.kind, scoped)));
            for c in &n.children {
                match c.kind {
                    "type" => expect_type(c, r, false, out),
                    "base" | "underlying" | "attr" | "doc" | "identifier" => {}
                    _ => expect(c, &scoped, r, out),
                }
            }
        }
        "param" | "ret" => {
            out.push(ev(format!("{}:{scoped}", if n.kind == "param" { "parameter" } else { "return" })));
            for c in &n.children {
                if c.kind == "type" {
                    expect_type(c, r, false, out);
                }
            }
        }
        _ => {}
    }
}

fn matches_ev(exp: &str, obs: &str) -> bool {
    // type references are identified by what they designate and their optionality (not by their spans: a wrong
    // span is C09's subject and must not raise an alarm here)
    exp == obs
}

pub struct VisitOrder {
    pub inner: Box<dyn ProgFamily>,
}

impl Family for VisitOrder {
    fn name(&self) -> String {
        self.inner.name()
    }
    fn len(&self) -> u64 {
        self.inner.len()
    }
    fn describe(&self, idx: u64) -> Value {
        describe_case(&self.inner.get(idx))
    }
    fn run(&self, idx: u64) -> CaseOut {
        let case = self.inner.get(idx);
        let fam = self.inner.name();
        let fam = fam.split('/').next().unwrap().to_string();
        let rendered = render_program(&case.program, &case.layout);
        let mut out = CaseOut::new(case_hash(&rendered));
        out.validated = 1;
        let keep = rendered.clone();
        match compile_rendered(rendered, None) {
            Err((loc, _)) => out.class = format!("panic@{loc}"),
            Ok(c) => {
                if !c.errors().is_empty() {
                    out.class = "rejected".into();
                    return out;
                }
                let mut total = 0u64;
                for (i, r) in keep.iter().enumerate() {
                    let mut rec = Recorder::default();
                    if let Err((loc, msg)) = guarded(|| c.files[i].visit_with(&mut rec)) {
                        out.violate(format!("c20/{fam}/panic@{loc}"), format!("walking file {i} panicked at {loc}: {msg}\n--- input ---\n{}", r.text));
                        continue;
                    }
                    let mut exp = vec![Ev { text: format!("file:string-{i}"), optional: false }];
                    let module_scope = r.tree.children.iter().find(|c| c.kind == "module").and_then(|m| m.get("id")).unwrap_or("").to_string();
                    for ch in &r.tree.children {
                        expect(ch, &module_scope, r, &mut exp);
                    }
                    if exp.iter().filter(|e| e.text.starts_with("type:seq") || e.text.starts_with("type:dict") || e.text.starts_with("type:result")).count() > 0 || exp.len() > 6 {
                        out.nontrivial = true;
                    }
                    // align: mandatory events must match one for one, optional ones may be skipped
                    let obs = &rec.events;
                    let (mut ei, mut oi) = (0usize, 0usize);
                    let mut problem: Option<(String, String)> = None;
                    while ei < exp.len() || oi < obs.len() {
                        if ei < exp.len() && oi < obs.len() && matches_ev(&exp[ei].text, &obs[oi]) {
                            ei += 1;
                            oi += 1;
                            continue;
                        }
                        if ei < exp.len() && exp[ei].optional {
                            ei += 1;
                            continue;
                        }
                        let e = exp.get(ei).map(|e| e.text.clone()).unwrap_or("<end of traversal>".into());
                        let o = obs.get(oi).cloned().unwrap_or("<end of traversal>".into());
                        let ekind = e.split(':').next().unwrap_or("").to_string();
                        let okind = o.split(':').next().unwrap_or("").to_string();
                        problem = Some((format!("expected-{ekind}-got-{okind}"), format!("callback #{oi}: expected {e}, visitor presented {o}")));
                        break;
                    }
                    total += obs.len() as u64;
                    if let Some((sig, msg)) = problem {
                        out.violate(format!("c20/{fam}/order/{sig}"), format!("file {i}: {msg}\nexpected sequence: {:?}\nobserved sequence: {:?}\n--- input ---\n{}", exp.iter().map(|e| if e.optional { format!("({})", e.text) } else { e.text.clone() }).collect::<Vec<_>>(), obs, r.text));
                    }
                    // nothing twice (entities)
                    let mut seen = std::collections::HashSet::new();
                    for e in obs.iter().filter(|e| !e.starts_with("type:")) {
                        if !seen.insert(e.clone()) {
                            out.violate(format!("c20/{fam}/presented-twice/{}", e.split(':').next().unwrap()), format!("file {i}: {e} was presented twice\n--- input ---\n{}", r.text));
                            break;
                        }
                    }
                }
                out.steps = total;
                out.class = format!("walked:{}-callbacks", (total / 10) * 10);
            }
        }
        out
    }
}

/// The same programs with one unresolvable reference added: the compilation ends with E033 after the parser, the
/// references written as names stay UNPATCHED in every file - and the files can still be walked (a library user gets
/// the state back with its errors): every element once, in source order; a reference that is not patched is
/// presented and not descended into; nothing panics.
pub struct WalkAfterErrors {
    pub inner: Box<dyn ProgFamily>,
    pub stride: u64,
}
impl WalkAfterErrors {
    fn case(&self, idx: u64) -> PCase {
        use crate::model::ast::*;
        let mut c = self.inner.get(idx * self.stride);
        // (a struct whose field names nothing, behind everything else in the first file that has a module)
        if let Some(f) = c.program.iter_mut().find(|f| f.module.is_some()) {
            f.defs.push(st("ZZUnresolved", vec![MField::new("q", MType::seq(MType::named("NopeNope").opt())), MField::new("r", MType::prim("bool"))]));
        }
        c
    }
}
impl Family for WalkAfterErrors {
    fn name(&self) -> String {
        format!("walk-after-errors/with one unresolvable reference added{}: {}", if self.stride > 1 { format!(", every {}th case", self.stride) } else { String::new() }, self.inner.name())
    }
    fn len(&self) -> u64 {
        (self.inner.len() + self.stride - 1) / self.stride
    }
    fn describe(&self, idx: u64) -> Value {
        describe_case(&self.case(idx))
    }
    fn run(&self, idx: u64) -> CaseOut {
        let case = self.case(idx);
        let fam = "walk-after-errors";
        // (the reference that resolves nowhere stays "named:<as written>" in the expected tree; every other one is
        // patched as usual - the patcher applies what it could resolve)
        let rendered = render_program(&case.program, &case.layout);
        let mut out = CaseOut::new(case_hash(&rendered).wrapping_add(1));
        out.validated = 1;
        let keep = rendered.clone();
        if !case.program.iter().any(|f| f.module.is_some()) {
            out.class = "n/a-no-module".into();
            return out;
        }
        match compile_rendered(rendered, None) {
            Err((loc, msg)) => out.violate(format!("c20/{fam}/panic-while-compiling@{loc}"), msg),
            Ok(c) => {
                let codes: Vec<String> = c.errors().iter().map(|e| e.code.clone()).collect();
                if !codes.iter().any(|c| c == "E033") {
                    // (a program whose other parts stop the compilation earlier, e.g. a file without a module)
                    out.class = format!("n/a-other-errors:{}", codes.first().cloned().unwrap_or_default());
                    return out;
                }
                out.nontrivial = true;
                let mut total = 0u64;
                for (i, r) in keep.iter().enumerate() {
                    let mut rec = Recorder::default();
                    if let Err((loc, msg)) = guarded(|| c.files[i].visit_with(&mut rec)) {
                        out.violate(format!("c20/{fam}/panic@{loc}"), format!("walking file {i} of a compilation that ended with E033 panicked at {loc}: {msg}\n--- input ---\n{}", r.text));
                        continue;
                    }
                    let mut exp = vec![Ev { text: format!("file:string-{i}"), optional: false }];
                    let module_scope = r.tree.children.iter().find(|c| c.kind == "module").and_then(|m| m.get("id")).unwrap_or("").to_string();
                    for ch in &r.tree.children {
                        expect(ch, &module_scope, r, &mut exp);
                    }
                    // a name that resolves nowhere is an unpatched reference: presented, and not descended into
                    for e in exp.iter_mut() {
                        e.text = e.text.replacen("type:named:", "type:unpatched:", 1);
                    }
                    let obs = &rec.events;
                    total += obs.len() as u64;
                    let (mut ei, mut oi) = (0usize, 0usize);
                    while ei < exp.len() || oi < obs.len() {
                        if ei < exp.len() && oi < obs.len() && matches_ev(&exp[ei].text, &obs[oi]) {
                            ei += 1;
                            oi += 1;
                            continue;
                        }
                        if ei < exp.len() && exp[ei].optional {
                            ei += 1;
                            continue;
                        }
                        let e = exp.get(ei).map(|e| e.text.clone()).unwrap_or("<end of traversal>".into());
                        let o = obs.get(oi).cloned().unwrap_or("<end of traversal>".into());
                        out.violate(
                            format!("c20/{fam}/order/expected-{}-got-{}", e.split(':').next().unwrap_or(""), o.split(':').next().unwrap_or("")),
                            format!("file {i}: callback #{oi}: expected {e}, visitor presented {o}\nexpected sequence: {:?}\nobserved sequence: {obs:?}\n--- input ---\n{}", exp.iter().map(|e| e.text.clone()).collect::<Vec<_>>(), r.text),
                        );
                        break;
                    }
                    if !obs.iter().any(|e| e.starts_with("type:unpatched:NopeNope")) && r.text.contains("NopeNope") {
                        out.violate(format!("c20/{fam}/unpatched-reference-not-presented"), format!("file {i} writes the reference NopeNope but the visitor never presented it\n--- input ---\n{}", r.text));
                    }
                }
                out.steps = total;
                out.class = format!("walked-after-E033:{}-callbacks", (total / 10) * 10);
            }
        }
        out
    }
}

pub fn families(tier: &str) -> Vec<Box<dyn Family>> {
    let mut v: Vec<Box<dyn Family>> = crate::model::families::program_families(tier).into_iter().map(|f| Box::new(VisitOrder { inner: f }) as Box<dyn Family>).collect();
    // walking after errors: the single constructs, the type expressions in every position, the vocabulary, the two-file
    // alias programs (thorough: also the construct pairs)
    for (i, f) in crate::model::families::program_families(tier).into_iter().enumerate() {
        match i {
            0 | 11 | 12 => v.push(Box::new(WalkAfterErrors { inner: f, stride: 1 })),
            1 => v.push(Box::new(WalkAfterErrors { inner: f, stride: 3 })),
            8 if tier != "quick" => v.push(Box::new(WalkAfterErrors { inner: f, stride: 1 })),
            _ => {}
        }
    }
    v
}
