//! C12 — output targets act as an append-only byte log with safe reservations; sources never over-read.
//!
//! E2: explicit-state search (stateright BFS).  The transition function rebuilds a fresh REAL target,
//! replays the history plus the new operation and steps a boring reference model (a Vec<u8> log plus
//! reservation ranges) in lock-step.  The state key is the complete observable implementation state
//! (capacity, full buffer incl. guard regions, position, reservation ranges), so merging histories that
//! reach the same key is exact.

use crate::engine::*;
use crate::util::*;
use serde_json::{json, Value};
use slice_codec::buffer::slice::{SliceInputSource, SliceOutputTarget};
use slice_codec::buffer::vec::VecOutputTarget;
use slice_codec::buffer::{InputSource, OutputTarget, Reservation};
use stateright::{Checker, Model, Property};
use std::hash::{Hash, Hasher};

const GUARD: usize = 8;
const FILL: u8 = 0xEE;
const GUARD_BYTE: u8 = 0xA5;

#[derive(Clone, Copy, Debug, PartialEq, Eq, Hash)]
pub enum Op {
    WriteByte,
    WriteBytes(usize),
    Reserve(usize),
    WriteReserved(usize, usize), // reservation index, byte count
}

fn payload(step: usize, k: usize) -> Vec<u8> {
    (0..k).map(|j| (((step % 15) as u8 + 1) << 4) | ((j % 15) as u8 + 1)).collect()
}

#[derive(Clone, Copy, Debug, PartialEq, Eq, Hash)]
pub enum TargetKind {
    Slice(usize),
    Vec,
}

/// Observable implementation state after a history.
#[derive(Clone, Debug, PartialEq, Eq, Hash)]
pub struct Key {
    pub kind: TargetKind,
    /// full buffer: for the slice target guard|cap bytes|guard; for the vec target the vec contents
    pub buf: Vec<u8>,
    pub pos: usize,
    pub reservations: Vec<(usize, usize)>,
}

/// Reference model: append-only log.
#[derive(Clone, Debug, PartialEq, Eq)]
struct RefModel {
    kind: TargetKind,
    /// None = claimed by a reservation of the slice target and not yet filled (content unspecified = untouched)
    log: Vec<Option<u8>>,
    reservations: Vec<(usize, usize)>,
}

impl RefModel {
    fn new(kind: TargetKind) -> Self {
        RefModel { kind, log: vec![], reservations: vec![] }
    }
    fn cap(&self) -> Option<usize> {
        match self.kind {
            TargetKind::Slice(c) => Some(c),
            TargetKind::Vec => None,
        }
    }
    /// returns whether the operation is expected to succeed
    fn apply(&mut self, op: Op, step: usize) -> bool {
        match op {
            Op::WriteByte | Op::WriteBytes(_) => {
                let k = if let Op::WriteBytes(k) = op { k } else { 1 };
                if let Some(c) = self.cap() {
                    if self.log.len() + k > c {
                        return false;
                    }
                }
                for b in payload(step, k) {
                    self.log.push(Some(b));
                }
                true
            }
            Op::Reserve(k) => {
                if let Some(c) = self.cap() {
                    if self.log.len() + k > c {
                        return false;
                    }
                }
                let start = self.log.len();
                for _ in 0..k {
                    self.log.push(if self.cap().is_some() { None } else { Some(0) });
                }
                self.reservations.push((start, start + k));
                true
            }
            Op::WriteReserved(r, k) => {
                let (s, e) = self.reservations[r];
                if k > e - s {
                    return false;
                }
                for (j, b) in payload(step, k).into_iter().enumerate() {
                    self.log[s + j] = Some(b);
                }
                self.reservations[r].0 += k;
                true
            }
        }
    }
}

fn parse_reservation(r: &Reservation) -> (usize, usize) {
    // Debug form: Reservation(a..b)
    let s = format!("{:?}", r);
    let inner = s.trim_start_matches("Reservation(").trim_end_matches(')');
    let (a, b) = inner.split_once("..").expect("Reservation debug format");
    (a.parse().unwrap(), b.parse().unwrap())
}

/// Runs `hist` on a fresh real target of `kind`, in lock-step with the reference; returns the key reached and
/// the first mismatch (if any).
pub fn execute(kind: TargetKind, hist: &[Op]) -> (Key, Option<String>) {
    let mut model = RefModel::new(kind);
    let mut mismatch: Option<String> = None;
    match kind {
        TargetKind::Slice(cap) => {
            let mut backing = vec![GUARD_BYTE; GUARD + cap + GUARD];
            for b in &mut backing[GUARD..GUARD + cap] {
                *b = FILL;
            }
            let mut reservations: Vec<Reservation> = vec![];
            let mut pos_obs;
            {
                let (_g1, rest) = backing.split_at_mut(GUARD);
                let (mid, _g2) = rest.split_at_mut(cap);
                let mut target = SliceOutputTarget::from(&mut mid[..]);
                pos_obs = cap - target.remaining();
                for (step, op) in hist.iter().enumerate() {
                    let before_rem = target.remaining();
                    let before_res: Vec<(usize, usize)> = reservations.iter().map(parse_reservation).collect();
                    let ok = apply_real(&mut target, &mut reservations, *op, step);
                    let exp_ok = model.apply(*op, step);
                    let after_rem = target.remaining();
                    pos_obs = cap.wrapping_sub(after_rem);
                    if mismatch.is_none() {
                        if ok != exp_ok {
                            mismatch = Some(format!("step {step} {op:?}: implementation returned {} but the log model says {}", okerr(ok), okerr(exp_ok)));
                        } else if !ok {
                            let after_res: Vec<(usize, usize)> = reservations.iter().map(parse_reservation).collect();
                            if after_rem != before_rem {
                                mismatch = Some(format!("step {step} {op:?}: failed operation moved the position ({} -> {})", cap - before_rem, cap.wrapping_sub(after_rem)));
                            } else if after_res != before_res {
                                mismatch = Some(format!("step {step} {op:?}: failed operation changed a reservation ({before_res:?} -> {after_res:?})"));
                            }
                        }
                        if mismatch.is_none() && pos_obs != model.log.len() {
                            mismatch = Some(format!("step {step} {op:?}: position {} but the log model holds {} bytes", pos_obs, model.log.len()));
                        }
                        if mismatch.is_none() {
                            let obs_res: Vec<(usize, usize)> = reservations.iter().map(parse_reservation).collect();
                            if obs_res != model.reservations {
                                mismatch = Some(format!("step {step} {op:?}: reservations {obs_res:?} but model {:?}", model.reservations));
                            }
                        }
                    }
                }
            }
            // contents and guards (checked at the end of the history: every prefix is itself an explored history)
            if mismatch.is_none() {
                if backing[..GUARD].iter().any(|b| *b != GUARD_BYTE) || backing[GUARD + cap..].iter().any(|b| *b != GUARD_BYTE) {
                    mismatch = Some(format!("guard region around the {cap}-byte slice was modified: {:02x?}", backing));
                }
            }
            if mismatch.is_none() {
                for i in 0..cap {
                    let exp = if i < model.log.len() { model.log[i].unwrap_or(FILL) } else { FILL };
                    if backing[GUARD + i] != exp {
                        mismatch = Some(format!("byte {i}: buffer holds {:02x} but the log model says {:02x} (buffer {:02x?})", backing[GUARD + i], exp, &backing[GUARD..GUARD + cap]));
                        break;
                    }
                }
            }
            let key = Key { kind, buf: backing, pos: pos_obs, reservations: reservations.iter().map(parse_reservation).collect() };
            (key, mismatch)
        }
        TargetKind::Vec => {
            let mut backing: Vec<u8> = Vec::new();
            let mut reservations: Vec<Reservation> = vec![];
            {
                let mut target = VecOutputTarget::from(&mut backing);
                for (step, op) in hist.iter().enumerate() {
                    let before_res: Vec<(usize, usize)> = reservations.iter().map(parse_reservation).collect();
                    let ok = apply_real(&mut target, &mut reservations, *op, step);
                    let exp_ok = model.apply(*op, step);
                    if mismatch.is_none() {
                        if ok != exp_ok {
                            mismatch = Some(format!("step {step} {op:?}: implementation returned {} but the log model says {}", okerr(ok), okerr(exp_ok)));
                        } else if !ok {
                            let after_res: Vec<(usize, usize)> = reservations.iter().map(parse_reservation).collect();
                            if after_res != before_res {
                                mismatch = Some(format!("step {step} {op:?}: failed operation changed a reservation ({before_res:?} -> {after_res:?})"));
                            }
                        }
                        if mismatch.is_none() {
                            let obs_res: Vec<(usize, usize)> = reservations.iter().map(parse_reservation).collect();
                            if obs_res != model.reservations {
                                mismatch = Some(format!("step {step} {op:?}: reservations {obs_res:?} but model {:?}", model.reservations));
                            }
                        }
                    }
                }
            }
            if mismatch.is_none() {
                let exp: Vec<u8> = model.log.iter().map(|b| b.unwrap_or(0)).collect();
                if backing != exp {
                    mismatch = Some(format!("vec target holds {:02x?} but the log model says {:02x?}", backing, exp));
                }
            }
            let pos = backing.len();
            let key = Key { kind, buf: backing, pos, reservations: reservations.iter().map(parse_reservation).collect() };
            (key, mismatch)
        }
    }
}

fn okerr(b: bool) -> &'static str {
    if b {
        "Ok"
    } else {
        "Err"
    }
}

fn apply_real<T: OutputTarget>(target: &mut T, reservations: &mut Vec<Reservation>, op: Op, step: usize) -> bool {
    match op {
        Op::WriteByte => target.write_byte(payload(step, 1)[0]).is_ok(),
        Op::WriteBytes(k) => target.write_bytes_exact(&payload(step, k)).is_ok(),
        Op::Reserve(k) => match target.reserve_space(k) {
            Ok(r) => {
                reservations.push(r);
                true
            }
            Err(_) => false,
        },
        Op::WriteReserved(r, k) => match reservations.get_mut(r) {
            Some(res) => target.write_bytes_into_reserved_exact(res, &payload(step, k)).is_ok(),
            None => false, // the model made a reservation the implementation refused: reported as a mismatch
        },
    }
}

// ---------------------------------------------------------------------------------------------------------------
// stateright model for output targets

#[derive(Clone, Debug)]
pub struct OutState {
    pub hist: Vec<Op>,
    pub key: Key,
    pub mismatch: Option<String>,
}
impl PartialEq for OutState {
    fn eq(&self, o: &Self) -> bool {
        self.key == o.key && self.mismatch.is_some() == o.mismatch.is_some()
    }
}
impl Eq for OutState {}
impl Hash for OutState {
    fn hash<H: Hasher>(&self, h: &mut H) {
        self.key.hash(h);
        self.mismatch.is_some().hash(h);
    }
}

pub struct OutModel {
    pub kind: TargetKind,
    pub max_depth: usize,
    pub max_k: usize,
}

impl Model for OutModel {
    type State = OutState;
    type Action = Op;
    fn init_states(&self) -> Vec<OutState> {
        let (key, mismatch) = execute(self.kind, &[]);
        vec![OutState { hist: vec![], key, mismatch }]
    }
    fn actions(&self, s: &OutState, out: &mut Vec<Op>) {
        if s.hist.len() >= self.max_depth || s.mismatch.is_some() {
            return;
        }
        out.push(Op::WriteByte);
        for k in 0..=self.max_k {
            out.push(Op::WriteBytes(k));
        }
        for k in 0..=self.max_k {
            out.push(Op::Reserve(k));
        }
        for r in 0..s.key.reservations.len() {
            for k in 0..=self.max_k {
                out.push(Op::WriteReserved(r, k));
            }
        }
    }
    fn next_state(&self, s: &OutState, a: Op) -> Option<OutState> {
        let mut hist = s.hist.clone();
        hist.push(a);
        let r = guarded(|| execute(self.kind, &hist));
        match r {
            Ok((key, mismatch)) => Some(OutState { hist, key, mismatch }),
            Err((loc, msg)) => {
                let mut key = s.key.clone();
                key.pos = usize::MAX;
                Some(OutState { hist, key, mismatch: Some(format!("panic at {loc}: {msg}")) })
            }
        }
    }
    fn properties(&self) -> Vec<Property<Self>> {
        vec![Property::always("impl == append-only log model", |_, s: &OutState| s.mismatch.is_none())]
    }
}

// ---------------------------------------------------------------------------------------------------------------
// input sources

#[derive(Clone, Copy, Debug, PartialEq, Eq, Hash)]
pub enum SrcOp {
    Remaining,
    PeekByte,
    ReadByte,
    PeekExact(usize),
    ReadExact(usize),
    PeekSlice(usize),
    ReadSlice(usize),
    ReadInto(usize),
}

#[derive(Clone, Debug)]
pub struct SrcState {
    pub hist: Vec<SrcOp>,
    pub len: usize,
    pub pos: usize,
    pub depth_in_key: usize,
    pub mismatch: Option<String>,
}
impl PartialEq for SrcState {
    fn eq(&self, o: &Self) -> bool {
        self.len == o.len && self.pos == o.pos && self.depth_in_key == o.depth_in_key && self.mismatch.is_some() == o.mismatch.is_some()
    }
}
impl Eq for SrcState {}
impl Hash for SrcState {
    fn hash<H: Hasher>(&self, h: &mut H) {
        (self.len, self.pos, self.depth_in_key, self.mismatch.is_some()).hash(h);
    }
}

fn src_bytes(len: usize) -> Vec<u8> {
    (0..len).map(|i| 0x31 + i as u8).collect()
}

macro_rules! exact_arm {
    ($src:expr, $n:expr, $read:expr, [$($lit:literal),*]) => {
        match $n {
            $($lit => {
                if $read { $src.read_bytes_exact::<$lit>().map(|a| a.to_vec()).map_err(|_| ()) } else { $src.peek_bytes_exact::<$lit>().map(|a| a.to_vec()).map_err(|_| ()) }
            })*
            _ => unreachable!(),
        }
    };
}

/// Execute a source history against the real SliceInputSource (placed between sentinel regions); returns final
/// position (from `remaining`) and first mismatch.
pub fn execute_src(len: usize, hist: &[SrcOp]) -> (usize, Option<String>) {
    let data = src_bytes(len);
    let mut backing = vec![GUARD_BYTE; GUARD];
    backing.extend_from_slice(&data);
    backing.extend(std::iter::repeat(GUARD_BYTE).take(GUARD));
    let mut src = SliceInputSource::from(&backing[GUARD..GUARD + len]);
    let mut mpos = 0usize; // model position
    let mut mismatch = None;
    for (step, op) in hist.iter().enumerate() {
        let (obs, exp, advance): (Result<Vec<u8>, ()>, Result<Vec<u8>, ()>, bool) = match *op {
            SrcOp::Remaining => (Ok(vec![src.remaining() as u8]), Ok(vec![(len - mpos) as u8]), false),
            SrcOp::PeekByte => (src.peek_byte().map(|b| vec![b]).map_err(|_| ()), take(&data, mpos, 1), false),
            SrcOp::ReadByte => (src.read_byte().map(|b| vec![b]).map_err(|_| ()), take(&data, mpos, 1), true),
            SrcOp::PeekExact(n) => (exact_arm!(src, n, false, [0, 1, 2, 3]), take(&data, mpos, n), false),
            SrcOp::ReadExact(n) => (exact_arm!(src, n, true, [0, 1, 2, 3]), take(&data, mpos, n), true),
            SrcOp::PeekSlice(k) => (src.peek_byte_slice_exact(k).map(|s| s.to_vec()).map_err(|_| ()), take(&data, mpos, k), false),
            SrcOp::ReadSlice(k) => (src.read_byte_slice_exact(k).map(|s| s.to_vec()).map_err(|_| ()), take(&data, mpos, k), true),
            SrcOp::ReadInto(k) => {
                let mut dest = vec![0x77u8; k + 2];
                let r = src.read_bytes_into_exact(&mut dest[1..1 + k]);
                let o = match r {
                    Ok(()) => {
                        if dest[0] != 0x77 || dest[k + 1] != 0x77 {
                            mismatch.get_or_insert(format!("step {step} {op:?}: wrote outside the destination"));
                        }
                        Ok(dest[1..1 + k].to_vec())
                    }
                    Err(_) => Err(()),
                };
                (o, take(&data, mpos, k), true)
            }
        };
        if mismatch.is_none() && obs != exp {
            mismatch = Some(format!("step {step} {op:?} at position {mpos} of a {len}-byte source: implementation gave {obs:02x?}, model {exp:02x?}"));
        }
        if let (Ok(v), true) = (&exp, advance) {
            if !matches!(op, SrcOp::Remaining) {
                mpos += v.len();
            }
        }
        let pos_obs = len.wrapping_sub(src.remaining());
        if mismatch.is_none() && pos_obs != mpos {
            mismatch = Some(format!("step {step} {op:?}: position {pos_obs} but model {mpos} (a peek or a failed read must not consume)"));
        }
    }
    let pos = len.wrapping_sub(src.remaining());
    (pos, mismatch)
}

fn take(data: &[u8], pos: usize, k: usize) -> Result<Vec<u8>, ()> {
    if pos + k <= data.len() {
        Ok(data[pos..pos + k].to_vec())
    } else {
        Err(())
    }
}

pub struct SrcModel {
    pub len: usize,
    pub max_depth: usize,
}

impl Model for SrcModel {
    type State = SrcState;
    type Action = SrcOp;
    fn init_states(&self) -> Vec<SrcState> {
        vec![SrcState { hist: vec![], len: self.len, pos: 0, depth_in_key: 0, mismatch: None }]
    }
    fn actions(&self, s: &SrcState, out: &mut Vec<SrcOp>) {
        if s.hist.len() >= self.max_depth || s.mismatch.is_some() {
            return;
        }
        out.push(SrcOp::Remaining);
        out.push(SrcOp::PeekByte);
        out.push(SrcOp::ReadByte);
        for n in 0..=3 {
            out.push(SrcOp::PeekExact(n));
            out.push(SrcOp::ReadExact(n));
            out.push(SrcOp::PeekSlice(n));
            out.push(SrcOp::ReadSlice(n));
            out.push(SrcOp::ReadInto(n));
        }
    }
    fn next_state(&self, s: &SrcState, a: SrcOp) -> Option<SrcState> {
        let mut hist = s.hist.clone();
        hist.push(a);
        match guarded(|| execute_src(self.len, &hist)) {
            Ok((pos, mismatch)) => Some(SrcState { depth_in_key: hist.len(), hist, len: self.len, pos, mismatch }),
            Err((loc, msg)) => Some(SrcState { depth_in_key: hist.len(), hist, len: self.len, pos: usize::MAX, mismatch: Some(format!("panic at {loc}: {msg}")) }),
        }
    }
    fn properties(&self) -> Vec<Property<Self>> {
        vec![Property::always("source == slice model", |_, s: &SrcState| s.mismatch.is_none())]
    }
}

// ---------------------------------------------------------------------------------------------------------------
// Families

pub struct StaterightOut {
    pub depth: usize,
}
const KINDS: [TargetKind; 6] = [TargetKind::Slice(0), TargetKind::Slice(1), TargetKind::Slice(2), TargetKind::Slice(3), TargetKind::Slice(4), TargetKind::Vec];

impl Family for StaterightOut {
    fn name(&self) -> String {
        format!("stateright-bfs/output-targets/depth<={}", self.depth)
    }
    fn len(&self) -> u64 {
        KINDS.len() as u64
    }
    fn hang_secs(&self) -> f64 {
        900.0
    }
    fn describe(&self, idx: u64) -> Value {
        json!({"target": format!("{:?}", KINDS[idx as usize]), "alphabet": "write_byte, write_bytes_exact(k), reserve_space(k), write_bytes_into_reserved_exact(r,k); k in 0..=3, r any reservation made so far", "depth": self.depth,
               "example_history": format!("{:?}", [Op::Reserve(2), Op::WriteBytes(1), Op::WriteReserved(0, 1), Op::WriteReserved(0, 2)])})
    }
    fn run(&self, idx: u64) -> CaseOut {
        let kind = KINDS[idx as usize];
        let mut out = CaseOut::new(hash_str(&format!("c12-out-{kind:?}-{}", self.depth)));
        let checker = OutModel { kind, max_depth: self.depth, max_k: 3 }.checker().threads(1).spawn_bfs().join();
        let uniq = checker.unique_state_count() as u64;
        let gen = checker.state_count() as u64;
        out.steps = gen;
        out.validated = gen;
        out.nontrivial = true;
        out.extra = vec![("unique_states".into(), uniq), ("generated_states".into(), gen)];
        out.class = format!("{:?}: {} unique states, max depth {}", kind, uniq, checker.max_depth());
        for (_name, path) in checker.discoveries() {
            let last = path.last_state().clone();
            let msg = last.mismatch.clone().unwrap_or_default();
            out.violate(format!("c12/output/{}", sig_of(&msg)), format!("target {:?}, shortest history {:?}: {}", kind, last.hist, msg));
        }
        out
    }
}

/// Reduce a mismatch message to a stable signature (drop numbers and byte dumps).
fn sig_of(msg: &str) -> String {
    let core = msg.split(':').nth(1).unwrap_or(msg);
    let mut s = String::new();
    for w in core.split_whitespace().take(8) {
        if w.chars().any(|c| c.is_ascii_digit()) {
            continue;
        }
        if !s.is_empty() {
            s.push('-');
        }
        s.push_str(w.trim_matches(|c: char| !c.is_alphanumeric()));
    }
    if msg.starts_with("panic at") {
        format!("panic@{}", msg.trim_start_matches("panic at ").split(':').take(2).collect::<Vec<_>>().join(":"))
    } else {
        s
    }
}

pub struct StaterightSrc {
    pub depth: usize,
}
impl Family for StaterightSrc {
    fn name(&self) -> String {
        format!("stateright-bfs/input-source/depth<={}", self.depth)
    }
    fn len(&self) -> u64 {
        5
    }
    fn hang_secs(&self) -> f64 {
        900.0
    }
    fn describe(&self, idx: u64) -> Value {
        json!({"source_len": idx, "alphabet": "remaining, peek_byte, read_byte, peek/read_bytes_exact::<N>, peek/read_byte_slice_exact(k), read_bytes_into_exact(k); N,k in 0..=3", "depth": self.depth})
    }
    fn run(&self, idx: u64) -> CaseOut {
        let mut out = CaseOut::new(hash_str(&format!("c12-src-{idx}-{}", self.depth)));
        let checker = SrcModel { len: idx as usize, max_depth: self.depth }.checker().threads(1).spawn_bfs().join();
        let uniq = checker.unique_state_count() as u64;
        let gen = checker.state_count() as u64;
        out.steps = gen;
        out.validated = gen;
        out.nontrivial = idx > 0;
        out.extra = vec![("unique_states".into(), uniq), ("generated_states".into(), gen)];
        out.class = format!("len {}: {} unique states, max depth {}", idx, uniq, checker.max_depth());
        for (_name, path) in checker.discoveries() {
            let last = path.last_state().clone();
            let msg = last.mismatch.clone().unwrap_or_default();
            out.violate(format!("c12/source/{}", sig_of(&msg)), format!("source of {} bytes, shortest history {:?}: {}", idx, last.hist, msg));
        }
        out
    }
}

/// Long periodic histories (period <= 3 over an alphabet with sizes up to 4 KiB), 200 steps each.
pub struct Periodic {
    pub steps: usize,
}
const PK: [usize; 5] = [0, 1, 63, 64, 4096];
fn periodic_alphabet() -> Vec<Op> {
    let mut v = vec![Op::WriteByte];
    for k in PK {
        v.push(Op::WriteBytes(k));
    }
    for k in PK {
        v.push(Op::Reserve(k));
    }
    for k in PK {
        v.push(Op::WriteReserved(usize::MAX, k)); // usize::MAX = most recent reservation
    }
    v
}
impl Periodic {
    fn decode(&self, idx: u64) -> (TargetKind, Vec<Op>) {
        let a = periodic_alphabet();
        let n = a.len() as u64;
        let kind = if idx % 2 == 0 { TargetKind::Slice(16384) } else { TargetKind::Vec };
        let mut i = idx / 2;
        let period: Vec<Op> = if i < n {
            vec![a[i as usize]]
        } else if {
            i -= n;
            i < n * n
        } {
            vec![a[(i % n) as usize], a[(i / n) as usize]]
        } else {
            i -= n * n;
            vec![a[(i % n) as usize], a[((i / n) % n) as usize], a[(i / n / n) as usize]]
        };
        (kind, period)
    }
}
impl Family for Periodic {
    fn name(&self) -> String {
        format!("periodic-histories/period<=3/{}-steps", self.steps)
    }
    fn len(&self) -> u64 {
        let n = periodic_alphabet().len() as u64;
        2 * (n + n * n + n * n * n)
    }
    fn describe(&self, idx: u64) -> Value {
        let (kind, p) = self.decode(idx);
        json!({"target": format!("{kind:?}"), "period": format!("{p:?}"), "steps": self.steps, "note": "WriteReserved(usize::MAX,k) = into the most recent reservation"})
    }
    fn run(&self, idx: u64) -> CaseOut {
        let (kind, period) = self.decode(idx);
        let mut hist = vec![];
        let mut nres = 0usize;
        // materialise: resolve "most recent reservation"; the reference model decides nothing here, it only
        // needs a concrete index (if no reservation exists yet the op is skipped).
        let mut model = RefModel::new(kind);
        for step in 0..self.steps {
            let op = period[step % period.len()];
            let op = match op {
                Op::WriteReserved(_, k) => {
                    if nres == 0 {
                        continue;
                    }
                    Op::WriteReserved(nres - 1, k)
                }
                o => o,
            };
            let ok = model.apply(op, hist.len());
            if let (Op::Reserve(_), true) = (op, ok) {
                nres += 1;
            }
            hist.push(op);
        }
        let mut out = CaseOut::new(hash_str(&format!("{kind:?}{period:?}")));
        out.steps = hist.len() as u64;
        out.validated = 1;
        out.nontrivial = period.iter().any(|o| matches!(o, Op::Reserve(k) if *k > 0)) && period.iter().any(|o| matches!(o, Op::WriteReserved(_, k) if *k > 0));
        match guarded(|| execute(kind, &hist)) {
            Ok((key, mismatch)) => {
                out.class = format!("pos-bucket-{}", key.pos.min(16384) / 2048);
                if let Some(m) = mismatch {
                    out.violate(format!("c12/periodic/{}", sig_of(&m)), format!("target {kind:?}, period {period:?}: {m}"));
                }
            }
            Err((loc, msg)) => {
                out.class = "panic".into();
                out.violate(format!("c12/periodic/panic@{loc}"), format!("target {kind:?}, period {period:?}: panic at {loc}: {msg}"));
            }
        }
        out
    }
}

/// Thorough tier only: the same histories (depth <= 3) once more under Miri, through the Miri-sized driver
/// `mc/miri12` (it depends on nothing but the codec).  Miri is used as an *oracle inside* the exhaustive
/// exploration: undefined behaviour that happens not to corrupt an observable byte (out-of-bounds pointer
/// arithmetic inside the allocation, reads of uninitialised memory, an invalid `set_len`) still fails loudly.
/// If the nightly toolchain with Miri cannot be started the layer is reported as skipped, never as a verdict.
pub struct MiriPass;
impl Family for MiriPass {
    fn name(&self) -> String {
        "miri/all histories of depth <= 3 over the operation alphabet (slice targets of capacity 0..3, the growable target, sources of length 0..3) executed under Miri".into()
    }
    fn len(&self) -> u64 {
        1
    }
    fn hang_secs(&self) -> f64 {
        1500.0
    }
    fn workers(&self) -> Option<usize> {
        Some(1)
    }
    fn describe(&self, _idx: u64) -> Value {
        json!({"driver": concat!(env!("CARGO_MANIFEST_DIR"), "/miri12"), "command": "cargo +nightly miri run --offline"})
    }
    fn run(&self, _idx: u64) -> CaseOut {
        let mut out = CaseOut::new(hash_str("c12-miri"));
        out.nontrivial = true;
        let dir = concat!(env!("CARGO_MANIFEST_DIR"), "/miri12");
        let root = std::env::var("VERIF_ROOT").unwrap_or_else(|_| "/verif".to_string());
        let res = std::process::Command::new("cargo")
            .args(["+nightly", "miri", "run", "--offline", "--manifest-path", &format!("{dir}/Cargo.toml"), "--target-dir", &format!("{root}/.build/miri12")])
            .env("CARGO_NET_OFFLINE", "true")
            .env_remove("RUSTFLAGS")
            .env_remove("CARGO_TARGET_DIR")
            .output();
        let o = match res {
            Ok(o) => o,
            Err(e) => {
                out.class = format!("skipped:cargo-not-startable:{e}");
                out.extra.push(("miri_layer_skipped".into(), 1));
                return out;
            }
        };
        let text = format!("{}\n{}", String::from_utf8_lossy(&o.stdout), String::from_utf8_lossy(&o.stderr));
        if let Some(line) = text.lines().find(|l| l.starts_with("MIRI12 histories=")) {
            if o.status.success() {
                out.steps = line.split("histories=").nth(1).and_then(|r| r.split(' ').next()).and_then(|n| n.parse().ok()).unwrap_or(1);
                out.validated = 1;
                out.class = "clean".into();
                out.extra.push(("miri_histories".into(), out.steps));
                return out;
            }
        }
        if text.contains("Undefined Behavior") || text.contains("unsupported operation") || text.contains("panicked at") || text.contains("memory leaked") {
            let at = text.find("error").unwrap_or(0);
            let what = if text.contains("Undefined Behavior") { "undefined-behaviour" } else if text.contains("panicked at") { "panic" } else { "miri-error" };
            out.violate(format!("c12/miri/{what}"), format!("the histories of depth <= 3 do not run cleanly under Miri:\n{}", truncate(&text[at..], 1800)));
            out.class = what.into();
            return out;
        }
        // toolchain or driver problem: not a verdict about the subject
        let why = if text.contains("toolchain") && text.contains("not installed") || text.contains("no such command") || text.contains("is not installed") { "miri-unavailable" } else { "driver-does-not-build" };
        eprintln!("C12 miri layer skipped ({why}): {}", truncate(text.trim(), 600));
        out.class = format!("skipped:{why}");
        out.extra.push(("miri_layer_skipped".into(), 1));
        out
    }
}


// ---------------------------------------------------------------------------------------------------------------
// Edge operations that the histories above cannot contain: counts near usize::MAX, a reservation presented to a
// target that did not issue it, a growable target that starts on a vector with contents and dirty spare capacity.

pub struct EdgeOperations {
    cases: Vec<EdgeCase>,
}
#[derive(Clone, Debug)]
enum EdgeCase {
    /// target (None = vec, Some(cap) = slice), bytes written before, the huge count
    HugeReserve(Option<usize>, usize, usize),
    /// source length, bytes read before, the huge count, peek?
    HugeSourceRead(usize, usize, usize, bool),
    /// issuing target (cap or vec), reserved count, receiving target (cap or vec holding that many bytes), bytes written into it
    AlienReservation(Option<usize>, usize, Option<usize>, usize, usize),
    /// vec pre-filled with p bytes (spare capacity holds 0xEE), then: write a, reserve k, write b, fill j bytes of the reservation
    PrefilledVec(usize, usize, usize, usize, usize),
}
impl EdgeOperations {
    pub fn new() -> Self {
        let huge = [usize::MAX, usize::MAX - 1, isize::MAX as usize + 1, isize::MAX as usize, usize::MAX / 2 + 2];
        let mut cases = vec![];
        for t in [None, Some(0usize), Some(1), Some(3)] {
            for p in 0..=2usize {
                if t.map_or(false, |c| p > c) {
                    continue;
                }
                for h in huge {
                    cases.push(EdgeCase::HugeReserve(t, p, h));
                }
            }
        }
        for len in 0..=3usize {
            for p in 0..=len.min(2) {
                for h in huge {
                    cases.push(EdgeCase::HugeSourceRead(len, p, h, false));
                    cases.push(EdgeCase::HugeSourceRead(len, p, h, true));
                }
            }
        }
        for a in [None, Some(2usize), Some(4)] {
            for k in 1..=3usize {
                if a.map_or(false, |c| k > c) {
                    continue;
                }
                for b in [None, Some(0usize), Some(1), Some(2), Some(4)] {
                    for held in 0..=2usize {
                        for w in 0..=k {
                            cases.push(EdgeCase::AlienReservation(a, k, b, held, w));
                        }
                    }
                }
            }
        }
        for p in [0usize, 1, 5] {
            for a in 0..=2usize {
                for k in 0..=3usize {
                    for b in 0..=1usize {
                        for j in 0..=k {
                            cases.push(EdgeCase::PrefilledVec(p, a, k, b, j));
                        }
                    }
                }
            }
        }
        EdgeOperations { cases }
    }
}
impl Family for EdgeOperations {
    fn name(&self) -> String {
        format!("edge-operations/{} cases: reservations of counts near usize::MAX on every target and reads of such counts from a source (must fail and change nothing); a reservation presented to a target that did not issue it (must fail or stay inside that target); a growable target on a vector with contents and dirty spare capacity", self.cases.len())
    }
    fn len(&self) -> u64 {
        self.cases.len() as u64
    }
    fn describe(&self, idx: u64) -> Value {
        json!({"case": format!("{:?}", self.cases[idx as usize])})
    }
    fn run(&self, idx: u64) -> CaseOut {
        let c = self.cases[idx as usize].clone();
        let mut out = CaseOut::new(hash_str(&format!("edge{idx}")));
        out.nontrivial = true;
        out.validated = 1;
        let what = format!("{c:?}");
        let r = guarded(|| edge_case(&c));
        match r {
            Err((loc, msg)) => out.violate(format!("c12/edge-operations/panic@{loc}"), format!("{what}: panic at {loc}: {msg}")),
            Ok(Some((sig, msg))) => out.violate(format!("c12/edge-operations/{sig}"), format!("{what}: {msg}")),
            Ok(None) => {}
        }
        out.class = what.split('(').next().unwrap_or("").to_string();
        out
    }
}

/// One edge case against the real objects; Some((signature, message)) = the property does not hold.
fn edge_case(c: &EdgeCase) -> Option<(String, String)> {
    const SPARE: u8 = 0xEE;
    match *c {
        EdgeCase::HugeReserve(None, p, h) => {
            let mut v: Vec<u8> = Vec::new();
            let r;
            let after_ok;
            {
                let mut t = VecOutputTarget::from(&mut v);
                t.write_bytes_exact(&payload(0, p)).ok()?;
                r = t.reserve_space(h).is_ok();
                after_ok = t.write_byte(0x5A).is_ok();
            }
            if r {
                return Some(("huge-reservation-accepted".into(), format!("reserve_space({h}) on the growable target returned Ok")));
            }
            let mut exp = payload(0, p);
            exp.push(0x5A);
            if !after_ok || v != exp {
                return Some(("failed-operation-changed-the-target".into(), format!("after the failed reserve_space({h}) the target holds {v:02x?} (write after it: {after_ok}); expected {exp:02x?}")));
            }
            None
        }
        EdgeCase::HugeReserve(Some(cap), p, h) => {
            let mut backing = vec![GUARD_BYTE; GUARD + cap + GUARD];
            for b in &mut backing[GUARD..GUARD + cap] {
                *b = FILL;
            }
            let (r, rem_before, rem_after, after_ok);
            {
                let (_g1, rest) = backing.split_at_mut(GUARD);
                let (mid, _g2) = rest.split_at_mut(cap);
                let mut t = SliceOutputTarget::from(&mut mid[..]);
                t.write_bytes_exact(&payload(0, p)).ok()?;
                rem_before = t.remaining();
                r = t.reserve_space(h).is_ok();
                rem_after = t.remaining();
                after_ok = t.write_byte(0x5A).is_ok();
            }
            if r {
                return Some(("huge-reservation-accepted".into(), format!("reserve_space({h}) on a {cap}-byte slice at position {p} returned Ok")));
            }
            if rem_before != rem_after {
                return Some(("failed-operation-changed-the-target".into(), format!("the failed reserve_space({h}) moved the position: remaining {rem_before} -> {rem_after}")));
            }
            let mut exp = vec![GUARD_BYTE; GUARD];
            let mut mid = payload(0, p);
            if p < cap {
                mid.push(0x5A);
            }
            mid.resize(cap, FILL);
            exp.extend(mid);
            exp.extend(vec![GUARD_BYTE; GUARD]);
            if backing != exp || after_ok != (p < cap) {
                return Some(("failed-operation-changed-the-target".into(), format!("after the failed reserve_space({h}) memory is {backing:02x?}, expected {exp:02x?} (write after it: {after_ok})")));
            }
            None
        }
        EdgeCase::HugeSourceRead(len, p, h, peek) => {
            let data = src_bytes(len);
            let mut src = SliceInputSource::from(&data[..]);
            src.read_byte_slice_exact(p).ok()?;
            let before = src.remaining();
            let ok = if peek { src.peek_byte_slice_exact(h).is_ok() } else { src.read_byte_slice_exact(h).is_ok() };
            let mut big_ok = false;
            if !peek {
                // also the copying read with a destination of that length cannot be built; the slice forms are the ones
                // that take a bare count
                big_ok = false;
            }
            if ok || big_ok {
                return Some(("huge-read-accepted".into(), format!("a {}-byte source at position {p} yielded {h} bytes", len)));
            }
            if src.remaining() != before {
                return Some(("failed-read-consumed".into(), format!("the failed read of {h} bytes moved the position: remaining {before} -> {}", src.remaining())));
            }
            // the source still works
            let rest = src.read_byte_slice_exact(before).map(|s| s.to_vec()).ok();
            if rest.as_deref() != Some(&data[p..]) {
                return Some(("failed-read-consumed".into(), format!("after the failed read the rest of the source is {rest:02x?}, expected {:02x?}", &data[p..])));
            }
            None
        }
        EdgeCase::AlienReservation(a, k, b, held, w) => {
            // issue the reservation on target A
            let mut res: Reservation = match a {
                None => {
                    let mut va: Vec<u8> = Vec::new();
                    let mut ta = VecOutputTarget::from(&mut va);
                    ta.reserve_space(k).ok()?
                }
                Some(cap) => {
                    let mut ba = vec![FILL; cap];
                    let mut ta = SliceOutputTarget::from(&mut ba[..]);
                    ta.reserve_space(k).ok()?
                }
            };
            let (lo, hi) = parse_reservation(&res);
            let data = payload(1, w);
            match b {
                None => {
                    let mut vb: Vec<u8> = payload(2, held);
                    let before = vb.clone();
                    let ok;
                    {
                        let mut tb = VecOutputTarget::from(&mut vb);
                        ok = tb.write_bytes_into_reserved_exact(&mut res, &data).is_ok();
                    }
                    // the receiving target holds `held` bytes: the write may only succeed inside them
                    if ok && hi > before.len() {
                        return Some(("alien-reservation-written-outside-the-target".into(), format!("a reservation {lo}..{hi} of another target was accepted by a growable target holding {} bytes", before.len())));
                    }
                    if vb.len() != before.len() || (!ok && vb != before) {
                        return Some(("alien-reservation-changed-the-target".into(), format!("the target held {before:02x?} and holds {vb:02x?} after the {} write into the foreign reservation {lo}..{hi}", okerr(ok))));
                    }
                    if ok && (vb[..lo] != before[..lo] || vb[hi..] != before[hi..]) {
                        return Some(("alien-reservation-written-outside-the-reservation".into(), format!("bytes outside {lo}..{hi} changed: {before:02x?} -> {vb:02x?}")));
                    }
                    None
                }
                Some(cap) => {
                    let mut backing = vec![GUARD_BYTE; GUARD + cap + GUARD];
                    for x in &mut backing[GUARD..GUARD + cap] {
                        *x = FILL;
                    }
                    let held = held.min(cap);
                    let ok;
                    let before;
                    {
                        let (_g1, rest) = backing.split_at_mut(GUARD);
                        let (mid, _g2) = rest.split_at_mut(cap);
                        let mut tb = SliceOutputTarget::from(&mut mid[..]);
                        tb.write_bytes_exact(&payload(2, held)).ok()?;
                        before = tb.remaining();
                        ok = tb.write_bytes_into_reserved_exact(&mut res, &data).is_ok();
                        if tb.remaining() != before {
                            return Some(("alien-reservation-changed-the-target".into(), format!("writing into a foreign reservation moved the position: remaining {before} -> {}", tb.remaining())));
                        }
                    }
                    if backing[..GUARD].iter().any(|x| *x != GUARD_BYTE) || backing[GUARD + cap..].iter().any(|x| *x != GUARD_BYTE) {
                        return Some(("alien-reservation-written-outside-the-target".into(), format!("guard bytes around the {cap}-byte slice changed after a write into the foreign reservation {lo}..{hi}: {backing:02x?}")));
                    }
                    if ok && hi > cap {
                        return Some(("alien-reservation-written-outside-the-target".into(), format!("a reservation {lo}..{hi} of another target was accepted by a {cap}-byte slice")));
                    }
                    let mut exp = payload(2, held);
                    exp.resize(cap, FILL);
                    let mid = &backing[GUARD..GUARD + cap];
                    if !ok && mid != &exp[..] {
                        return Some(("alien-reservation-changed-the-target".into(), format!("the failed write into the foreign reservation {lo}..{hi} changed the slice: {mid:02x?}, expected {exp:02x?}")));
                    }
                    if ok && (mid[..lo] != exp[..lo] || mid[hi..] != exp[hi..]) {
                        return Some(("alien-reservation-written-outside-the-reservation".into(), format!("bytes outside {lo}..{hi} changed: {exp:02x?} -> {mid:02x?}")));
                    }
                    None
                }
            }
        }
        EdgeCase::PrefilledVec(p, a, k, b, j) => {
            let mut v: Vec<u8> = vec![SPARE; 64];
            for (i, x) in v.iter_mut().enumerate().take(p) {
                *x = 0xC0 + i as u8;
            }
            v.truncate(p); // the spare capacity still holds 0xEE
            let prefix: Vec<u8> = v.clone();
            let mut model: Vec<u8> = prefix.clone();
            let range;
            {
                let mut t = VecOutputTarget::from(&mut v);
                t.write_bytes_exact(&payload(0, a)).ok()?;
                model.extend(payload(0, a));
                let mut r = t.reserve_space(k).ok()?;
                range = parse_reservation(&r);
                let start = model.len();
                model.extend(std::iter::repeat(0).take(k));
                t.write_bytes_exact(&payload(1, b)).ok()?;
                model.extend(payload(1, b));
                t.write_bytes_into_reserved_exact(&mut r, &payload(2, j)).ok()?;
                model[start..start + j].copy_from_slice(&payload(2, j));
                if range != (start, start + k) {
                    return Some(("prefilled-vec/reservation-range".into(), format!("the reservation is {range:?} but the next {k} bytes of the log are {start}..{}", start + k)));
                }
            }
            if v != model {
                return Some(("prefilled-vec/contents".into(), format!("the vector holds {v:02x?} but an append-only log started on {prefix:02x?} holds {model:02x?} (reserved bytes are zeroed)")));
            }
            None
        }
    }
}

pub fn families(tier: &str) -> Vec<Box<dyn Family>> {
    let (d_out, d_src) = if tier == "quick" { (5, 5) } else { (7, 7) };
    let mut v: Vec<Box<dyn Family>> = vec![Box::new(StaterightOut { depth: d_out }), Box::new(StaterightSrc { depth: d_src }), Box::new(Periodic { steps: 200 }), Box::new(EdgeOperations::new())];
    if tier != "quick" {
        v.push(Box::new(MiriPass));
    }
    v
}
