//! C08 — the encoded generator request is decodable and says what the AST says.
//!
//! The request captured on a fake generator's stdin is decoded by an independent decoder written from the Compiler
//! schema (/repo/slice/Compiler/*.slice) and compared with the request computed from the model.

use super::PropMeta;
use crate::engine::*;
use crate::model::ast::*;
use crate::model::doc::{self, LINK_MARK};
use crate::model::gen;
use crate::model::print::*;
use crate::model::resolve::*;
use crate::model::tree::{diff, Node};
use crate::proc::{encode_reply, gen_spec, run, show_bytes, split_request, Gen, Install, Scenario, Script, Step};
use crate::refcodec::Rd;
use crate::util::*;
use serde_json::{json, Value};
use std::time::Duration;

pub fn meta(m: &mut PropMeta) {
    m.rule = "model programs (each of the 40 constructs alone in 4 module scopes, all ordered pairs of constructs, all 40 constructs packed in one file, documentation-carrying operations with every @param/@returns shape incl. a return member named like a parameter, enumerator values at the extremes of every underlying type, discriminants 0 and 2^31-1, tags 0 and 2^31-1, anonymous types nested to depth 3, aliases of named and anonymous types) x every split of the 2-3 files into sources and references in every order x 4 generator argument lists (none, one pair, three pairs with separators and non-ASCII text inside, a key without a value followed by one key given twice); each run executes the real slicec binary with a capturing fake generator. Oracle: the captured stdin must end with the generator's own arguments; the prefix is decoded field by field by an independent decoder written from slice/Compiler (bit-sequence byte for the one optional field, fields in schema order, variants as varint discriminant + payload, tag-end markers) and must be consumed completely; the decoded value, with numeric type ids inlined structurally, equals the request computed from the model (paths, modules, attributes with arguments, identifiers, flags, tags, values, type structure, comments, per-parameter and per-return documentation, source/reference split, all orders); every numeric id refers to an earlier anonymous-type symbol of the same file; every named type id, base and resolved link exists in a transmitted file. non-trivial = the program has an anonymous type, a comment or a reference file; distinct = distinct (files, split, arguments).";
    m.explanation = "process-level enumeration with a capturing generator; independent schema decoder; expected request computed from the model";
    m.quick_bound = "constructs alone x 4 scopes x 4 splits x 4 argument lists; all construct pairs; packed files; 3-file splits";
    m.thorough_bound = "same plus all construct pairs x 4 splits";
    m.quick_cap_s = 150.0;
}

// ---------------------------------------------------------------------------------------------------------------
// Independent decoder (schema: slice/Compiler)

struct Dec<'a> {
    rd: Rd<'a>,
}
type DR<T> = Result<T, String>;

impl<'a> Dec<'a> {
    fn byte(&mut self) -> DR<u8> {
        if self.rd.pos >= self.rd.b.len() {
            return Err(format!("unexpected end of request at byte {}", self.rd.pos));
        }
        let b = self.rd.b[self.rd.pos];
        self.rd.pos += 1;
        Ok(b)
    }
    fn boolean(&mut self) -> DR<bool> {
        match self.byte()? {
            0 => Ok(false),
            1 => Ok(true),
            x => Err(format!("invalid bool {x} at byte {}", self.rd.pos - 1)),
        }
    }
    fn var(&mut self, signed: bool) -> DR<i128> {
        if self.rd.pos >= self.rd.b.len() {
            return Err(format!("unexpected end of request at byte {}", self.rd.pos));
        }
        let n = 1usize << (self.rd.b[self.rd.pos] & 3);
        if self.rd.pos + n > self.rd.b.len() {
            return Err(format!("truncated variable-width integer at byte {}", self.rd.pos));
        }
        let mut buf = [0u8; 16];
        buf[..n].copy_from_slice(&self.rd.b[self.rd.pos..self.rd.pos + n]);
        self.rd.pos += n;
        let raw = u128::from_le_bytes(buf);
        let bits = n as u32 * 8;
        Ok(if signed { ((raw << (128 - bits)) as i128 >> (128 - bits)) >> 2 } else { (raw >> 2) as i128 })
    }
    fn size(&mut self) -> DR<usize> {
        Ok(self.var(false)? as usize)
    }
    fn string(&mut self) -> DR<String> {
        let n = self.size()?;
        if self.rd.pos + n > self.rd.b.len() {
            return Err(format!("string of {n} bytes runs past the end at byte {}", self.rd.pos));
        }
        let s = std::str::from_utf8(&self.rd.b[self.rd.pos..self.rd.pos + n]).map_err(|_| format!("invalid UTF-8 in string at byte {}", self.rd.pos))?.to_string();
        self.rd.pos += n;
        Ok(s)
    }
    fn fixed(&mut self, n: usize) -> DR<u128> {
        if self.rd.pos + n > self.rd.b.len() {
            return Err(format!("truncated fixed-width integer at byte {}", self.rd.pos));
        }
        let mut buf = [0u8; 16];
        buf[..n].copy_from_slice(&self.rd.b[self.rd.pos..self.rd.pos + n]);
        self.rd.pos += n;
        Ok(u128::from_le_bytes(buf))
    }
    fn end(&mut self, what: &str) -> DR<()> {
        let at = self.rd.pos;
        match self.var(true)? {
            -1 => Ok(()),
            x => Err(format!("expected the tag end marker after {what} at byte {at}, found varint {x}")),
        }
    }
    fn seq<T>(&mut self, mut f: impl FnMut(&mut Self) -> DR<T>) -> DR<Vec<T>> {
        let n = self.size()?;
        if n > self.rd.b.len() {
            return Err(format!("sequence announces {n} elements at byte {}", self.rd.pos));
        }
        let mut v = vec![];
        for _ in 0..n {
            v.push(f(self)?);
        }
        Ok(v)
    }
    fn attribute(&mut self) -> DR<Node> {
        let mut n = Node::new("attr");
        n.prop("directive", &self.string()?);
        let args = self.seq(|d| d.string())?;
        n.prop("args", &args.join("\u{1f}"));
        n.prop("argc", &args.len().to_string());
        self.end("Attribute")?;
        Ok(n)
    }
    fn attributes(&mut self) -> DR<Vec<Node>> {
        self.seq(|d| d.attribute())
    }
    fn doc_comment(&mut self) -> DR<Node> {
        let mut n = Node::new("comment");
        let comps = self.seq(|d| {
            let disc = d.var(true)?;
            let s = d.string()?;
            d.end("MessageComponent")?;
            match disc {
                0 => Ok((false, s)),
                1 => Ok((true, s)),
                x => Err(format!("MessageComponent discriminant {x}")),
            }
        })?;
        let mut text = String::new();
        let mut links = vec![];
        for (is_link, s) in comps {
            if is_link {
                text.push_str(LINK_MARK);
                links.push(s);
            } else {
                text.push_str(&s);
            }
        }
        n.prop("overview", &text);
        n.prop("links", &links.join(" "));
        let see = self.seq(|d| d.string())?;
        n.prop("see", &see.join(" "));
        self.end("DocComment")?;
        Ok(n)
    }
    /// EntityInfo -> (identifier, children: attrs + optional comment)
    fn entity_info(&mut self, n: &mut Node) -> DR<()> {
        let bits = self.byte()?;
        if bits > 1 {
            return Err(format!("EntityInfo bit sequence byte is {bits:#x} at byte {}", self.rd.pos - 1));
        }
        n.props.insert(0, ("id", self.string()?));
        n.children.extend(self.attributes()?);
        if bits & 1 == 1 {
            n.children.push(self.doc_comment()?);
        }
        self.end("EntityInfo")
    }
    fn type_ref(&mut self) -> DR<Node> {
        let mut n = Node::new("type");
        n.prop("id", &self.string()?);
        n.prop("optional", if self.boolean()? { "true" } else { "false" });
        n.children.extend(self.attributes()?);
        self.end("TypeRef")?;
        Ok(n)
    }
    fn field(&mut self, kind: &'static str) -> DR<Node> {
        let bits = self.byte()?;
        if bits > 1 {
            return Err(format!("Field bit sequence byte is {bits:#x} at byte {}", self.rd.pos - 1));
        }
        let mut n = Node::new(kind);
        self.entity_info(&mut n)?;
        if bits & 1 == 1 {
            let at = self.rd.pos;
            let t = self.var(true)?;
            if t < i32::MIN as i128 || t > i32::MAX as i128 {
                return Err(format!("tag {t} outside varint32 at byte {at}"));
            }
            n.prop("tag", &t.to_string());
        } else {
            n.prop("tag", "none");
        }
        n.children.push(self.type_ref()?);
        self.end("Field")?;
        Ok(n)
    }
    fn symbol(&mut self) -> DR<Node> {
        let at = self.rd.pos;
        let disc = self.var(true)?;
        let mut n;
        match disc {
            0 => {
                n = Node::new("interface");
                self.entity_info(&mut n)?;
                let bases = self.seq(|d| d.string())?;
                n.prop("bases", &bases.join(" "));
                let ops = self.seq(|d| {
                    let mut o = Node::new("operation");
                    d.entity_info(&mut o)?;
                    o.prop("idempotent", if d.boolean()? { "true" } else { "false" });
                    let ps = d.seq(|d| d.field("param"))?;
                    o.prop("streamed_param", if d.boolean()? { "true" } else { "false" });
                    let rs = d.seq(|d| d.field("ret"))?;
                    o.prop("streamed_return", if d.boolean()? { "true" } else { "false" });
                    o.children.extend(ps);
                    o.children.extend(rs);
                    d.end("Operation")?;
                    Ok(o)
                })?;
                n.children.extend(ops);
                self.end("Interface")?;
            }
            1 => {
                n = Node::new("basic-enum");
                self.entity_info(&mut n)?;
                n.prop("unchecked", if self.boolean()? { "true" } else { "false" });
                n.prop("underlying", &self.string()?);
                let ens = self.seq(|d| {
                    let mut e = Node::new("enumerator");
                    d.entity_info(&mut e)?;
                    let abs = d.fixed(8)?;
                    let neg = d.boolean()?;
                    e.prop("value", &if neg { format!("-{abs}") } else { abs.to_string() });
                    d.end("Enumerator")?;
                    Ok(e)
                })?;
                n.children.extend(ens);
                self.end("BasicEnum")?;
            }
            2 => {
                n = Node::new("variant-enum");
                self.entity_info(&mut n)?;
                n.prop("compact", if self.boolean()? { "true" } else { "false" });
                n.prop("unchecked", if self.boolean()? { "true" } else { "false" });
                let vs = self.seq(|d| {
                    let mut e = Node::new("variant");
                    d.entity_info(&mut e)?;
                    let disc = d.fixed(4)? as u32 as i32;
                    e.prop("discriminant", &disc.to_string());
                    let fs = d.seq(|d| d.field("field"))?;
                    e.children.extend(fs);
                    d.end("Variant")?;
                    Ok(e)
                })?;
                n.children.extend(vs);
                self.end("VariantEnum")?;
            }
            3 => {
                n = Node::new("struct");
                self.entity_info(&mut n)?;
                n.prop("compact", if self.boolean()? { "true" } else { "false" });
                let fs = self.seq(|d| d.field("field"))?;
                n.children.extend(fs);
                self.end("Struct")?;
            }
            4 => {
                n = Node::new("custom");
                self.entity_info(&mut n)?;
                self.end("CustomType")?;
            }
            5 => {
                n = Node::new("anon-seq");
                n.children.push(self.type_ref()?);
                self.end("SequenceType")?;
            }
            6 => {
                n = Node::new("anon-dict");
                n.children.push(self.type_ref()?);
                n.children.push(self.type_ref()?);
                self.end("DictionaryType")?;
            }
            7 => {
                n = Node::new("anon-result");
                n.children.push(self.type_ref()?);
                n.children.push(self.type_ref()?);
                self.end("ResultType")?;
            }
            8 => {
                n = Node::new("alias");
                self.entity_info(&mut n)?;
                n.children.push(self.type_ref()?);
                self.end("TypeAlias")?;
            }
            x => return Err(format!("Symbol discriminant {x} at byte {at}")),
        }
        self.end("Symbol variant")?;
        Ok(n)
    }
    fn file(&mut self) -> DR<Node> {
        let mut f = Node::new("file");
        f.prop("path", &self.string()?);
        let mut m = Node::new("module");
        m.prop("id", &self.string()?);
        m.children.extend(self.attributes()?);
        self.end("Module")?;
        let mut attrs = self.attributes()?;
        for a in &mut attrs {
            a.kind = "fileattr";
        }
        f.children.extend(attrs);
        f.children.push(m);
        let symbols = self.seq(|d| d.symbol())?;
        self.end("SliceFile")?;
        // inline numeric ids (each must refer to an EARLIER anonymous-type symbol of this file)
        let mut resolved: Vec<Node> = vec![];
        for (i, s) in symbols.iter().enumerate() {
            let mut s = s.clone();
            inline_ids(&mut s, i, &resolved)?;
            resolved.push(s);
        }
        for s in resolved {
            if !s.kind.starts_with("anon-") {
                f.children.push(s);
            }
        }
        Ok(f)
    }
}

fn inline_ids(n: &mut Node, index: usize, earlier: &[Node]) -> DR<()> {
    if n.kind == "type" {
        let id = n.get("id").unwrap().to_string();
        if !id.is_empty() && id.chars().all(|c| c.is_ascii_digit()) {
            let k: usize = id.parse().map_err(|_| format!("numeric type id {id}"))?;
            if k >= index {
                return Err(format!("numeric type id {k} used by symbol {index} does not refer to an earlier symbol"));
            }
            let target = &earlier[k];
            if !target.kind.starts_with("anon-") {
                return Err(format!("numeric type id {k} refers to a {} symbol, not to an anonymous type", target.kind));
            }
            n.set("id", target.kind);
            let attrs: Vec<Node> = n.children.drain(..).collect();
            n.children.extend(attrs);
            n.children.extend(target.children.iter().cloned());
        }
        return Ok(());
    }
    for c in &mut n.children {
        inline_ids(c, index, earlier)?;
    }
    Ok(())
}

/// Decode a request prefix: (sources, references).
pub fn decode_request(bytes: &[u8]) -> DR<(Vec<Node>, Vec<Node>)> {
    let mut d = Dec { rd: Rd { b: bytes, pos: 0 } };
    let op = d.string()?;
    if op != "generateCode" {
        return Err(format!("operation name is {op:?}"));
    }
    let sources = d.seq(|d| d.file())?;
    let references = d.seq(|d| d.file())?;
    if d.rd.pos != bytes.len() {
        return Err(format!("{} bytes left over after the reference files (before the generator's arguments)", bytes.len() - d.rd.pos));
    }
    Ok((sources, references))
}

// ---------------------------------------------------------------------------------------------------------------
// Expected request from the model

struct Exp<'a> {
    r: Resolver<'a>,
    scope: String,
}

impl<'a> Exp<'a> {
    fn attrs(&self, attrs: &[MAttr], kind: &'static str) -> Vec<Node> {
        attrs
            .iter()
            .map(|a| {
                let mut n = attr_node(a);
                n.kind = kind;
                n
            })
            .collect()
    }
    fn link_id(&self, written: &str, owner: &str) -> String {
        let b = doc::expected_binding(self.r.table, written, owner);
        match b.split_once(':') {
            Some(("broken", id)) => id.to_string(),
            Some((_, scoped)) => scoped.to_string(),
            None => written.to_string(),
        }
    }
    fn comment_from(&self, overview: Option<&doc::EMsg>, see: &[String], owner: &str) -> Node {
        let mut n = Node::new("comment");
        match overview {
            Some(m) => {
                n.prop("overview", &m.text);
                n.prop("links", &m.links.iter().map(|l| self.link_id(l, owner)).collect::<Vec<_>>().join(" "));
            }
            None => {
                n.prop("overview", "");
                n.prop("links", "");
            }
        }
        n.prop("see", &see.iter().map(|l| self.link_id(l, owner)).collect::<Vec<_>>().join(" "));
        n
    }
    fn info(&self, n: &mut Node, c: &MCommon, owner: &str) {
        n.props.insert(0, ("id", c.name.name.clone()));
        n.children.extend(self.attrs(&c.attrs, "attr"));
        if !c.doc.lines.is_empty() {
            if let Ok(d) = doc::ref_parse(&c.doc.lines) {
                n.children.push(self.comment_from(d.overview.as_ref(), &d.see, owner));
            }
        }
    }
    fn rtype(&self, rt: &RType) -> Node {
        let mut n = Node::new("type");
        let id = match &rt.is {
            RIs::Prim(p) => p.to_string(),
            RIs::Def { scoped, .. } => scoped.clone(),
            RIs::Seq(_) => "anon-seq".into(),
            RIs::Dict(..) => "anon-dict".into(),
            RIs::Result(..) => "anon-result".into(),
            RIs::Unresolved(s) => format!("unresolved:{s}"),
        };
        n.prop("id", &id);
        n.prop("optional", if rt.optional { "true" } else { "false" });
        n.children.extend(self.attrs(&rt.attrs, "attr"));
        match &rt.is {
            RIs::Seq(e) => n.children.push(self.rtype(e)),
            RIs::Dict(a, b) | RIs::Result(a, b) => {
                n.children.push(self.rtype(a));
                n.children.push(self.rtype(b));
            }
            _ => {}
        }
        n
    }
    fn ty(&self, t: &MType) -> Node {
        match self.r.resolve(t, &self.scope) {
            Ok(rt) => self.rtype(&rt),
            Err(e) => {
                let mut n = Node::new("type");
                n.prop("id", &format!("<unresolvable {e:?}>"));
                n
            }
        }
    }
    fn field(&self, f: &MField, owner: &str) -> Node {
        let mut n = Node::new("field");
        let me = format!("{owner}::{}", f.c.name.name);
        self.info(&mut n, &f.c, &me);
        n.prop("tag", &f.tag.as_ref().map(|t| t.value.to_string()).unwrap_or("none".into()));
        n.children.push(self.ty(&f.ty));
        n
    }
    /// parameter / return member: its documentation comes from the operation's @param / @returns tag
    fn member(&self, kind: &'static str, name: &str, attrs: &[MAttr], tag: &Option<MInt>, ty: &MType, docmsg: Option<&doc::EMsg>, op_scoped: &str) -> Node {
        let mut n = Node::new(kind);
        n.props.insert(0, ("id", name.to_string()));
        n.children.extend(self.attrs(attrs, "attr"));
        if let Some(m) = docmsg {
            n.children.push(self.comment_from(Some(m), &[], op_scoped));
        }
        n.prop("tag", &tag.as_ref().map(|t| t.value.to_string()).unwrap_or("none".into()));
        n.children.push(self.ty(ty));
        n
    }
    fn def(&self, d: &MDef) -> Node {
        let dn = if self.scope.is_empty() { d.common().name.name.clone() } else { format!("{}::{}", self.scope, d.common().name.name) };
        match d {
            MDef::Struct(s) => {
                let mut n = Node::new("struct");
                self.info(&mut n, &s.c, &dn);
                n.prop("compact", if s.compact { "true" } else { "false" });
                for f in &s.fields {
                    n.children.push(self.field(f, &dn));
                }
                n
            }
            MDef::Interface(i) => {
                let mut n = Node::new("interface");
                self.info(&mut n, &i.c, &dn);
                let bases: Vec<String> = i
                    .bases
                    .iter()
                    .map(|b| match self.r.resolve(b, &self.scope) {
                        Ok(RType { is: RIs::Def { scoped, .. }, .. }) => scoped,
                        _ => "<unresolvable>".into(),
                    })
                    .collect();
                n.prop("bases", &bases.join(" "));
                for o in &i.ops {
                    let on = format!("{dn}::{}", o.c.name.name);
                    let mut x = Node::new("operation");
                    self.info(&mut x, &o.c, &on);
                    x.prop("idempotent", if o.idempotent { "true" } else { "false" });
                    let parsed = if o.c.doc.lines.is_empty() { None } else { doc::ref_parse(&o.c.doc.lines).ok() };
                    for p in &o.params {
                        let m = parsed.as_ref().and_then(|d| d.params.iter().find(|(id, _)| id == &p.name.name).map(|(_, m)| m));
                        x.children.push(self.member("param", &p.name.name, &p.attrs, &p.tag, &p.ty, m, &on));
                    }
                    x.prop("streamed_param", if o.params.last().map_or(false, |p| p.stream) { "true" } else { "false" });
                    match &o.ret {
                        MRet::None => x.prop("streamed_return", "false"),
                        MRet::Single { tag, stream, ty } => {
                            let m = parsed.as_ref().and_then(|d| d.returns.iter().find(|(id, _)| id.is_none()).map(|(_, m)| m));
                            x.children.push(self.member("ret", "returnValue", &[], tag, ty, m, &on));
                            x.prop("streamed_return", if *stream { "true" } else { "false" });
                        }
                        MRet::Tuple(ps) => {
                            for p in ps {
                                let m = parsed.as_ref().and_then(|d| d.returns.iter().find(|(id, _)| id.as_deref() == Some(p.name.name.as_str())).map(|(_, m)| m));
                                x.children.push(self.member("ret", &p.name.name, &p.attrs, &p.tag, &p.ty, m, &on));
                            }
                            x.prop("streamed_return", if ps.last().map_or(false, |p| p.stream) { "true" } else { "false" });
                        }
                    }
                    n.children.push(x);
                }
                n
            }
            MDef::Enum(e) => {
                let mut n = Node::new(if e.underlying.is_some() { "basic-enum" } else { "variant-enum" });
                self.info(&mut n, &e.c, &dn);
                if let Some(u) = &e.underlying {
                    n.prop("unchecked", if e.unchecked { "true" } else { "false" });
                    let us = match self.r.resolve(u, &self.scope) {
                        Ok(RType { is: RIs::Prim(p), .. }) => p.to_string(),
                        _ => "<unresolvable>".into(),
                    };
                    n.prop("underlying", &us);
                } else {
                    n.prop("compact", if e.compact { "true" } else { "false" });
                    n.prop("unchecked", if e.unchecked { "true" } else { "false" });
                }
                let mut prev: Option<i128> = None;
                for en in &e.enumerators {
                    let v = match &en.value {
                        Some(v) => v.value,
                        None => prev.map_or(0, |p| p + 1),
                    };
                    prev = Some(v);
                    let enn = format!("{dn}::{}", en.c.name.name);
                    let mut x = Node::new(if e.underlying.is_some() { "enumerator" } else { "variant" });
                    self.info(&mut x, &en.c, &enn);
                    if e.underlying.is_some() {
                        x.prop("value", &v.to_string());
                    } else {
                        x.prop("discriminant", &v.to_string());
                        for f in en.fields.iter().flatten() {
                            x.children.push(self.field(f, &enn));
                        }
                    }
                    n.children.push(x);
                }
                n
            }
            MDef::Custom(c) => {
                let mut n = Node::new("custom");
                self.info(&mut n, &c.c, &dn);
                n
            }
            MDef::Alias(a) => {
                let mut n = Node::new("alias");
                self.info(&mut n, &a.c, &dn);
                n.children.push(self.ty(&a.ty));
                n
            }
        }
    }
}

pub fn expected_file(program: &Program, table: &Table, fi: usize, path: &str) -> Node {
    let f = &program[fi];
    let e = Exp { r: Resolver { program, table }, scope: f.module_name().to_string() };
    let mut n = Node::new("file");
    n.prop("path", path);
    n.children.extend(e.attrs(&f.file_attrs, "fileattr"));
    let mut m = Node::new("module");
    m.prop("id", f.module_name());
    if let Some(md) = &f.module {
        m.children.extend(e.attrs(&md.attrs, "attr"));
    }
    n.children.push(m);
    for d in &f.defs {
        n.children.push(e.def(d));
    }
    n
}

fn collect_ids(n: &Node, scope: &str, defs: &mut Vec<String>) {
    match n.kind {
        "file" => {
            let m = n.children.iter().find(|c| c.kind == "module").and_then(|m| m.get("id")).unwrap_or("").to_string();
            for c in &n.children {
                collect_ids(c, &m, defs);
            }
        }
        "struct" | "interface" | "basic-enum" | "variant-enum" | "custom" | "alias" | "operation" | "field" | "enumerator" | "variant" | "param" | "ret" => {
            let id = format!("{scope}::{}", n.get("id").unwrap_or(""));
            defs.push(id.clone());
            for c in &n.children {
                collect_ids(c, &id, defs);
            }
        }
        _ => {}
    }
}

fn check_named_ids(n: &Node, known: &std::collections::HashSet<String>, problems: &mut Vec<String>) {
    if n.kind == "type" {
        let id = n.get("id").unwrap_or("");
        if !id.starts_with("anon-") && !PRIMITIVES.contains(&id) && !known.contains(id) {
            problems.push(format!("type id {id:?} names nothing in the transmitted files"));
        }
    }
    if n.kind == "interface" {
        for b in n.get("bases").unwrap_or("").split_whitespace() {
            if !known.contains(b) {
                problems.push(format!("base {b:?} names nothing in the transmitted files"));
            }
        }
    }
    for c in &n.children {
        check_named_ids(c, known, problems);
    }
}

// ---------------------------------------------------------------------------------------------------------------
// Scenarios

#[derive(Clone, Debug)]
pub struct ReqCase {
    pub program: Program,
    /// for each file: (file name, is_source); command-line order = this order (sources and references interleaved
    /// as given; slicec lists sources first, then references)
    pub files: Vec<(String, bool, usize)>,
    pub args: Vec<(String, String)>,
    pub label: String,
}

fn arg_lists() -> Vec<Vec<(String, String)>> {
    vec![
        vec![],
        vec![("k".into(), "v".into())],
        vec![("a,b".into(), "x=y".into()), ("é".into(), "".into()), ("last".into(), "with space".into())],
        // (a key without a value, and a key given twice: the arguments are a list, every entry is transmitted)
        vec![("keyonly".into(), "".into()), ("opt".into(), "1".into()), ("opt".into(), "2".into())],
    ]
}

pub fn run_case(c: &ReqCase, fam: &str, out: &mut CaseOut) -> String {
    let layout = Layout::uniform(Sep::Newline, Commas::None);
    let table = Table::build(&c.program);
    let resolver = Resolver { program: &c.program, table: &table };
    let mut sc = Scenario::default();
    let mut argv: Vec<String> = vec![];
    for (name, is_source, fi) in &c.files {
        let r = render_file_ctx(&c.program[*fi], &layout, Some(&resolver));
        sc.tree.push((name.clone(), Node_::File(r.text.into_bytes())));
        if *is_source {
            argv.push(name.clone());
        } else {
            argv.push("-R".into());
            argv.push(name.clone());
        }
    }
    // three generators: the case's argument list, a different one, and none - each must receive the same request
    // followed by its own arguments only
    let lists = arg_lists();
    let others: [Vec<(String, String)>; 2] = [lists[(c.args.len() + 1) % lists.len()].clone(), vec![]];
    let all_args: [&Vec<(String, String)>; 3] = [&c.args, &others[0], &others[1]];
    for (gi, a) in all_args.iter().enumerate() {
        let reply = encode_reply(&[], &[]);
        sc.gens.push(Gen { name: format!("capture{gi}"), install: Install::Script(Script(vec![Step::ReadAll, Step::Stdout(reply), Step::Exit(0)])) });
        argv.push("-G".into());
        argv.push(gen_spec(&format!("{{gen{gi}}}"), a));
    }
    sc.argv = argv;
    out.steps += 1;
    let obs = run(&sc, Duration::from_secs(20));
    let describe = || format!("{}\nargv {:?}\nexit {:?} stderr {}", c.label, obs.argv, obs.exit_code, show_bytes(&obs.stderr));
    if obs.timed_out || obs.signal.is_some() || obs.panic_location().is_some() {
        out.violate(format!("c08/{fam}/crash-or-hang"), format!("slicec crashed or hung: {}", describe()));
        return "crash".into();
    }
    if obs.exit_code != Some(0) {
        out.violate(format!("c08/{fam}/valid-program-rejected"), format!("a valid program was not compiled cleanly: {}", describe()));
        return "rejected".into();
    }
    let Some(stdin) = obs.gens.get(0).and_then(|g| g.stdin.clone()) else {
        out.violate(format!("c08/{fam}/generator-not-run"), format!("the generator received nothing: {}", describe()));
        return "no-stdin".into();
    };
    let Some(request) = split_request(&stdin, &c.args) else {
        out.violate(format!("c08/{fam}/arguments-suffix"), format!("the generator's stdin does not end with the encoding of its own arguments {:?}: tail {}\n{}", c.args, show_bytes(&stdin[stdin.len().saturating_sub(80)..]), describe()));
        return "bad-args".into();
    };
    // the other two generators: the identical request, then their own arguments and nothing else
    for gi in 1..3 {
        let Some(si) = obs.gens.get(gi).and_then(|g| g.stdin.clone()) else {
            out.violate(format!("c08/{fam}/generator-not-run"), format!("generator {gi} received nothing: {}", describe()));
            return "no-stdin".into();
        };
        match split_request(&si, all_args[gi]) {
            Some(r) if r == request => {}
            Some(_) => {
                out.violate(format!("c08/{fam}/request-differs-between-generators"), format!("generator {gi} did not receive the same request as generator 0\n{}", describe()));
                return "request-differs".into();
            }
            None => {
                let extra = si.len() as i64 - request.len() as i64;
                out.violate(
                    format!("c08/{fam}/arguments-suffix-of-a-later-generator"),
                    format!("generator {gi}'s stdin ({} bytes, request is {} bytes, so {extra} bytes follow it) does not end with the encoding of its own arguments {:?}: tail {}\n{}", si.len(), request.len(), all_args[gi], show_bytes(&si[si.len().saturating_sub(80)..]), describe()),
                );
                return "bad-args".into();
            }
        }
    }
    let (sources, references) = match decode_request(&request) {
        Ok(x) => x,
        Err(e) => {
            let what: String = e.chars().filter(|c| !c.is_ascii_digit()).take(60).collect();
            out.violate(format!("c08/{fam}/undecodable/{}", what.trim().replace(' ', "-")), format!("the request does not decode according to the Compiler schema: {e}\n{}", describe()));
            return "undecodable".into();
        }
    };
    // expected: sources in the order given, then references in the order given
    // (a file without a module declaration has no representation in the schema: it is left out)
    let exp_sources: Vec<Node> = c.files.iter().filter(|f| f.1 && c.program[f.2].module.is_some()).map(|(n, _, fi)| expected_file(&c.program, &table, *fi, n)).collect();
    let exp_refs: Vec<Node> = c.files.iter().filter(|f| !f.1 && c.program[f.2].module.is_some()).map(|(n, _, fi)| expected_file(&c.program, &table, *fi, n)).collect();
    for (what, exp, got) in [("sources", &exp_sources, &sources), ("references", &exp_refs, &references)] {
        let ep: Vec<&str> = exp.iter().map(|f| f.get("path").unwrap()).collect();
        let gp: Vec<&str> = got.iter().map(|f| f.get("path").unwrap_or("?")).collect();
        if ep != gp {
            out.violate(format!("c08/{fam}/file-split-or-order/{what}"), format!("{what}: expected files {ep:?}, request has {gp:?}\n{}", describe()));
            continue;
        }
        for (e, g) in exp.iter().zip(got.iter()) {
            if let Some(d) = diff(e, g) {
                out.violate(format!("c08/{fam}/content-differs{}", d.path), format!("{what} file {:?}: at {}: {} expected {:?}, request says {:?}\n{}", e.get("path"), d.path_named, d.what, d.expected, d.observed, describe()));
            }
        }
    }
    // named ids exist in some transmitted file
    let mut ids = vec![];
    for f in sources.iter().chain(references.iter()) {
        collect_ids(f, "", &mut ids);
    }
    let known: std::collections::HashSet<String> = ids.into_iter().collect();
    let mut problems = vec![];
    for f in sources.iter().chain(references.iter()) {
        check_named_ids(f, &known, &mut problems);
    }
    if let Some(p) = problems.first() {
        out.violate(format!("c08/{fam}/dangling-id"), format!("{p}\n{}", describe()));
    }
    format!("ok:{}src+{}ref:{}B", sources.len(), references.len(), (request.len() / 512) * 512)
}

// `Node` of crate::proc clashes with the tree Node: alias it
use crate::proc::Node as Node_;

pub trait ReqFamily: Sync + Send {
    fn name(&self) -> String;
    fn len(&self) -> u64;
    fn get(&self, idx: u64) -> ReqCase;
}
pub struct ReqCheck {
    pub inner: Box<dyn ReqFamily>,
}
impl Family for ReqCheck {
    fn name(&self) -> String {
        self.inner.name()
    }
    fn len(&self) -> u64 {
        self.inner.len()
    }
    fn hang_secs(&self) -> f64 {
        60.0
    }
    fn describe(&self, idx: u64) -> Value {
        let c = self.inner.get(idx);
        let layout = Layout::uniform(Sep::Newline, Commas::None);
        let files: Vec<Value> = c.files.iter().map(|(n, s, fi)| json!({"name": n, "source": s, "text": render_file(&c.program[*fi], &layout).text})).collect();
        json!({"label": c.label, "files": files, "generator_arguments": c.args})
    }
    fn run(&self, idx: u64) -> CaseOut {
        let c = self.inner.get(idx);
        let mut out = CaseOut::new(hash_str(&format!("{}{idx}", self.inner.name())));
        out.steps = 0;
        out.validated = 1;
        out.nontrivial = true;
        let fam = self.inner.name();
        let fam = fam.split('/').next().unwrap().to_string();
        out.class = run_case(&c, &fam, &mut out);
        out
    }
}

fn splits2() -> Vec<Vec<(usize, bool)>> {
    // (file index, is_source) in command-line order
    vec![vec![(0, true), (1, false)], vec![(0, true), (1, true)], vec![(1, true), (0, true)], vec![(1, true), (0, false)]]
}

pub struct Singles;
impl ReqFamily for Singles {
    fn name(&self) -> String {
        "single-constructs/40 constructs x 4 module scopes x 4 source/reference splits x 4 argument lists".into()
    }
    fn len(&self) -> u64 {
        (gen::N_CONSTRUCTS * 4 * 4 * 4) as u64
    }
    fn get(&self, idx: u64) -> ReqCase {
        let a = (idx % 4) as usize;
        let s = ((idx / 4) % 4) as usize;
        let mv = ((idx / 16) % 4) as usize;
        let k = (idx / 64) as usize;
        let program = gen::sequence_program(&[k], mv);
        let names = ["main.slice", "lib.slice"];
        ReqCase { files: splits2()[s].iter().map(|(fi, src)| (names[*fi].to_string(), *src, *fi)).collect(), program, args: arg_lists()[a].clone(), label: format!("construct {k}, module variant {mv}, split {s}, args {a}") }
    }
}

pub struct PairsFam {
    pub all_splits: bool,
}
impl ReqFamily for PairsFam {
    fn name(&self) -> String {
        format!("construct-pairs/all 1600 ordered pairs{}", if self.all_splits { " x 4 splits" } else { ", split / scope / arguments rotate" })
    }
    fn len(&self) -> u64 {
        1600 * if self.all_splits { 4 } else { 1 }
    }
    fn get(&self, idx: u64) -> ReqCase {
        let (pi, s) = if self.all_splits { (idx / 4, (idx % 4) as usize) } else { (idx, (idx % 4) as usize) };
        let ks = [(pi % 40) as usize, (pi / 40) as usize];
        let program = gen::sequence_program(&ks, (pi % 4) as usize);
        let names = ["dir/main.slice", "lib.slice"];
        ReqCase { files: splits2()[s].iter().map(|(fi, src)| (names[*fi].to_string(), *src, *fi)).collect(), program, args: arg_lists()[(pi % 4) as usize].clone(), label: format!("constructs {ks:?}, split {s}") }
    }
}

/// All 40 constructs in one file; plus three-file programs in every split and order.
pub struct Packed;
impl ReqFamily for Packed {
    fn name(&self) -> String {
        "packed-and-three-files/all 40 constructs in one file x 4 scopes x 4 splits; 3 files x 7 source/reference assignments x 6 orders; a module-less file (left out of the request) at each of 4 positions among them x source/reference x 2 assignments".into()
    }
    fn len(&self) -> u64 {
        16 + 42 + 16
    }
    fn get(&self, idx: u64) -> ReqCase {
        if idx < 16 {
            let ks: Vec<usize> = (0..gen::N_CONSTRUCTS).collect();
            let program = gen::sequence_program(&ks, (idx % 4) as usize);
            let s = (idx / 4) as usize;
            let names = ["main.slice", "lib.slice"];
            return ReqCase { files: splits2()[s].iter().map(|(fi, src)| (names[*fi].to_string(), *src, *fi)).collect(), program, args: vec![], label: format!("all constructs, variant {}, split {s}", idx % 4) };
        }
        if idx >= 58 {
            // a file without a module (it holds a file attribute and a comment) cannot be represented in the request
            // and is left out; every other file must still be transmitted, in its list and in order
            let j = idx - 58;
            let (pos, bare_is_source, assign) = ((j % 4) as usize, (j / 4) % 2 == 1, if j / 8 == 0 { 0b101u64 } else { 0b011 });
            let mut program = gen::sequence_program(&[6, 12, 27], 0);
            let mut third = MFile::module("Third");
            third.defs.push(st("T", vec![MField::new("a", MType::named("Lib::HS"))]));
            program.push(third);
            program.push(MFile { file_attrs: vec![MAttr::with("cs::bare", vec![MArg::Ident("x".into())])], module: None, defs: vec![], pre: vec![] });
            let names = ["main.slice", "lib.slice", "third.slice", "bare.slice"];
            let mut files: Vec<(String, bool, usize)> = (0..3usize).map(|fi| (names[fi].to_string(), (assign >> fi) & 1 == 1, fi)).collect();
            files.insert(pos, (names[3].to_string(), bare_is_source, 3));
            return ReqCase { files, program, args: vec![], label: format!("module-less file at position {pos} as {}, sources mask {assign:#b}", if bare_is_source { "source" } else { "reference" }) };
        }
        let i = idx - 16;
        let order = [[0usize, 1, 2], [0, 2, 1], [1, 0, 2], [1, 2, 0], [2, 0, 1], [2, 1, 0]][(i % 6) as usize];
        let assign = (i / 6) + 1; // 1..=7: bit k = file k is a source
        let mut program = gen::sequence_program(&[6, 12, 27], 0);
        let mut third = MFile::module("Third");
        third.defs.push(st("T", vec![MField::new("a", MType::named("Lib::HS")), MField::new("b", MType::seq(MType::named("M::SRefs0").opt()))]));
        program.push(third);
        let names = ["main.slice", "lib.slice", "third.slice"];
        ReqCase { files: order.iter().map(|fi| (names[*fi].to_string(), (assign >> fi) & 1 == 1, *fi)).collect(), program, args: vec![("x".into(), "1".into())], label: format!("three files, order {order:?}, sources mask {assign:#b}") }
    }
}

/// Documentation shapes on operations; value extremes.
pub struct Docs;
impl ReqFamily for Docs {
    fn name(&self) -> String {
        "documentation-and-extremes/operations with every @param/@returns shape (single, tuple, member named like a parameter, missing, links, @see); enumerator values at the extremes of all 12 integral types; discriminant and tag extremes".into()
    }
    fn len(&self) -> u64 {
        10 + 12 + 2 + 3
    }
    fn get(&self, idx: u64) -> ReqCase {
        let i32t = || MType::prim("int32");
        let mut f = MFile::module("M");
        let label;
        if idx < 10 {
            let (params, ret, lines): (Vec<&str>, MRet, Vec<&str>) = match idx {
                0 => (vec!["a"], MRet::Single { tag: None, stream: false, ty: i32t() }, vec![" Overview.", " @param a: the a", " @returns: the result"]),
                1 => (vec!["a", "b"], MRet::Tuple(vec![MParam::new("x", i32t()), MParam::new("y", i32t())]), vec![" @param b: the b", " @param a: the a", " @returns y: the y", " @returns x: the x"]),
                2 => (vec!["a"], MRet::Tuple(vec![MParam::new("a", i32t()), MParam::new("z", i32t())]), vec![" @param a: the parameter a", " @returns a: the RETURNED a", " @returns z: the z"]),
                3 => (vec!["a"], MRet::Tuple(vec![MParam::new("a", i32t()), MParam::new("z", i32t())]), vec![" @param a: only the parameter is documented"]),
                4 => (vec!["a"], MRet::Single { tag: None, stream: false, ty: i32t() }, vec![" @returns: see {@link Lib::HS} and {@link Nope}", "   continued", " @see Lib::HE", " @see Missing"]),
                5 => (vec!["a", "b"], MRet::None, vec![" Only overview {@link M::I::op}."]),
                6 => (vec![], MRet::Single { tag: None, stream: false, ty: i32t() }, vec![" @returns:", "   on the next line"]),
                7 => (vec!["a"], MRet::Tuple(vec![MParam::new("x", i32t()), MParam::new("y", i32t())]), vec![" @returns: for the whole tuple"]),
                8 => (vec!["a"], MRet::None, vec![" @param a: has {@link a} own param link"]),
                _ => (vec!["returnValue"], MRet::Single { tag: None, stream: false, ty: i32t() }, vec![" @param returnValue: the parameter", " @returns: the value"]),
            };
            let mut o = op("op", params.iter().map(|p| MParam::new(p, i32t())).collect(), ret);
            o.c = o.c.doc(&lines);
            f.defs.push(iface("I", vec![], vec![o]));
            label = format!("documentation shape {idx}");
        } else if idx < 22 {
            let prims = ["int8", "uint8", "int16", "uint16", "int32", "uint32", "varint32", "varuint32", "int64", "uint64", "varint62", "varuint62"];
            let p = prims[(idx - 10) as usize];
            let (lo, hi) = prim_bounds(p).unwrap();
            let mut d = en("E", Some(MType::prim(p)), vec![enumerator_v("Lo", MInt::spelled(lo, &lo.to_string())), enumerator_v("Hi", MInt::spelled(hi, &hi.to_string())), enumerator_v("Mid", MInt::dec(1))]);
            if let MDef::Enum(e) = &mut d {
                e.unchecked = idx % 2 == 0;
            }
            f.defs.push(d);
            label = format!("enumerator extremes of {p}");
        } else if idx >= 24 {
            // a documented SINGLE return that is tagged / streamed / carries a local attribute: its documentation is the
            // unnamed @returns
            let ret = match idx {
                24 => MRet::Single { tag: Some(MInt::dec(1)), stream: false, ty: i32t().opt() },
                25 => MRet::Single { tag: None, stream: true, ty: MType::prim("uint8") },
                _ => MRet::Single { tag: None, stream: false, ty: i32t().attr(MAttr::new("cs::x")) },
            };
            let mut o = op("op", vec![MParam::new("a", i32t())], ret);
            o.c = o.c.doc(&[" @param a: the a", " @returns: the value"]);
            f.defs.push(iface("I", vec![], vec![o]));
            label = format!("documented single return, shape {idx}");
        } else if idx == 22 {
            f.defs.push(en("V", None, vec![MEnumerator { c: MCommon::new("Zero"), fields: Some(vec![MField::tagged("t", 2147483647, i32t().opt()), MField::tagged("u", 0, i32t().opt())]), value: Some(MInt::dec(0)) }, enumerator_v("Max", MInt::dec(2147483647))]));
            label = "discriminant and tag extremes".to_string();
        } else {
            f.defs.push(st("Deep", vec![MField::new("a", MType::seq(MType::dict(MType::prim("string"), MType::result(MType::seq(MType::prim("uint8").opt()), MType::prim("string")).opt())))]));
            f.defs.push(alias("AnonAlias", MType::dict(MType::prim("int32"), MType::seq(MType::prim("bool")))));
            f.defs.push(st("UsesAlias", vec![MField::new("a", MType::named("AnonAlias")), MField::new("b", MType::seq(MType::named("AnonAlias")).opt())]));
            label = "anonymous types nested to depth 3 and an alias of an anonymous type used twice".to_string();
        }
        ReqCase { program: vec![f, gen::lib_file()], files: vec![("main.slice".into(), true, 0), ("lib.slice".into(), false, 1)], args: vec![], label }
    }
}


/// Every variable-length number of the request at every size-class boundary of BOTH variable-length formats
/// (signed: 2^5, 2^13, 2^29; unsigned: 2^6, 2^14, 2^30), one below, at, and one above.
pub struct SizeClasses;
const BOUNDARY_TAGS: [i128; 25] = [
    0, 1, 31, 32, 33, 63, 64, 65, 255, 256, 8191, 8192, 8193, 16383, 16384, 16385, (1 << 29) - 1, 1 << 29, (1 << 29) + 1, (1 << 30) - 1, 1 << 30, (1 << 30) + 1, (1 << 31) - 3, (1 << 31) - 2, (1 << 31) - 1,
];
fn boundary_values(lo: i128, hi: i128) -> Vec<i128> {
    let mut v = vec![0i128];
    for k in [5u32, 6, 7, 8, 13, 14, 15, 16, 29, 30, 31, 32, 61, 62, 63, 64] {
        for d in [-1i128, 0, 1] {
            for sign in [1i128, -1] {
                let x = sign * ((1i128 << k) + d);
                if x >= lo && x <= hi && !v.contains(&x) {
                    v.push(x);
                }
            }
        }
    }
    v
}
impl ReqFamily for SizeClasses {
    fn name(&self) -> String {
        "size-class-boundaries/tags (fields, parameters, return members, enumerator fields) and enumerator values (6 underlying types) one below, at and one above every size-class boundary of the signed and the unsigned variable-length formats; identifiers, string arguments, comment lines and member counts of 63 / 64 / 65 and 16383 / 16384".into()
    }
    fn len(&self) -> u64 {
        3 + 6 + 4
    }
    fn get(&self, idx: u64) -> ReqCase {
        let i32o = || MType::prim("int32").opt();
        let mut f = MFile::module("M");
        let label;
        match idx {
            0 => {
                f.defs.push(st("S", BOUNDARY_TAGS.iter().enumerate().map(|(i, t)| MField::tagged(&format!("f{i}"), *t, i32o())).collect()));
                label = "struct fields tagged with every boundary value".to_string();
            }
            1 => {
                let mut ops = vec![];
                for (k, chunk) in BOUNDARY_TAGS.chunks(5).enumerate() {
                    let params: Vec<MParam> = chunk
                        .iter()
                        .enumerate()
                        .map(|(i, t)| {
                            let mut p = MParam::new(&format!("p{i}"), i32o());
                            p.tag = Some(MInt::dec(*t));
                            p
                        })
                        .collect();
                    let rets: Vec<MParam> = chunk
                        .iter()
                        .enumerate()
                        .map(|(i, t)| {
                            let mut p = MParam::new(&format!("r{i}"), i32o());
                            p.tag = Some(MInt::dec(*t));
                            p
                        })
                        .collect();
                    ops.push(op(&format!("op{k}"), params, MRet::Tuple(rets)));
                    ops.push(op(&format!("single{k}"), vec![], MRet::Single { tag: Some(MInt::dec(chunk[1])), stream: false, ty: i32o() }));
                }
                f.defs.push(iface("I", vec![], ops));
                label = "parameters and return members tagged with every boundary value".to_string();
            }
            2 => {
                let es: Vec<MEnumerator> = BOUNDARY_TAGS
                    .chunks(5)
                    .enumerate()
                    .map(|(k, chunk)| MEnumerator { c: MCommon::new(&format!("V{k}")), fields: Some(chunk.iter().enumerate().map(|(i, t)| MField::tagged(&format!("f{i}"), *t, i32o())).collect()), value: None })
                    .collect();
                f.defs.push(en("V", None, es));
                label = "enumerator fields tagged with every boundary value".to_string();
            }
            3..=8 => {
                let p = ["int32", "int64", "uint64", "varint62", "varuint62", "uint16"][(idx - 3) as usize];
                let (lo, hi) = prim_bounds(p).unwrap();
                let mut vals = boundary_values(lo, hi);
                vals.sort();
                let es: Vec<MEnumerator> = vals.iter().enumerate().map(|(i, v)| enumerator_v(&format!("E{i}"), MInt::spelled(*v, &v.to_string()))).collect();
                let mut d = en("E", Some(MType::prim(p)), es);
                if let MDef::Enum(e) = &mut d {
                    e.unchecked = idx % 2 == 0;
                }
                f.defs.push(d);
                // without an underlying type: discriminants within 0..2^31-1
                let vs = boundary_values(0, (1 << 31) - 1);
                f.defs.push(en("D", None, vs.iter().enumerate().map(|(i, v)| MEnumerator { c: MCommon::new(&format!("D{i}")), fields: Some(vec![]), value: Some(MInt::dec(*v)) }).collect()));
                label = format!("enumerator values at every boundary within {p}; discriminants at every boundary");
            }
            9 => {
                for n in [1usize, 62, 63, 64, 65, 255, 256, 16383, 16384] {
                    let name = format!("N{}", "x".repeat(n - 1));
                    f.defs.push(st(&name, vec![MField::new(&"f".repeat(n), MType::prim("bool"))]));
                }
                label = "identifiers of 63 / 64 / 65 / 16383 / 16384 bytes".to_string();
            }
            10 => {
                for (i, n) in [0usize, 1, 62, 63, 64, 65, 16383, 16384].iter().enumerate() {
                    let mut d = st(&format!("A{i}"), vec![]);
                    *d.common_mut() = d.common().clone().attr(MAttr::with("cs::text", vec![MArg::Str("é".repeat(n / 2) + &"a".repeat(n % 2))])).attr(MAttr::with("cs::list", (0..*n.min(&70)).map(|k| MArg::Ident(format!("a{k}"))).collect()));
                    f.defs.push(d);
                }
                label = "string arguments of 63 / 64 / 65 / 16383 / 16384 bytes; argument lists of 0..70 entries".to_string();
            }
            11 => {
                for (i, n) in [1usize, 62, 63, 64, 65, 16382, 16383, 16384].iter().enumerate() {
                    let line = format!(" {}", "d".repeat(*n));
                    let mut d = st(&format!("C{i}"), vec![]);
                    *d.common_mut() = d.common().clone().doc(&[line.as_str(), " @see Lib::HS"]);
                    f.defs.push(d);
                }
                label = "comment lines of 63 / 64 / 65 / 16383 / 16384 bytes".to_string();
            }
            _ => {
                for n in [62usize, 63, 64, 65, 130] {
                    f.defs.push(st(&format!("M{n}"), (0..n).map(|i| MField::new(&format!("f{i}"), MType::prim("uint8"))).collect()));
                    f.defs.push(en(&format!("E{n}"), Some(MType::prim("uint8")), (0..n).map(|i| enumerator(&format!("e{i}"))).collect()));
                }
                f.defs.push(iface("Ops", vec![], (0..65).map(|i| op(&format!("o{i}"), (0..(i % 3)).map(|k| MParam::new(&format!("p{k}"), MType::prim("bool"))).collect(), MRet::None)).collect()));
                label = "structs / enums of 62..65 and 130 members, an interface of 65 operations".to_string();
            }
        }
        ReqCase { program: vec![f, gen::lib_file()], files: vec![("main.slice".into(), true, 0), ("lib.slice".into(), false, 1)], args: vec![], label }
    }
}


/// The program families of C02 (every type expression in every position, every enumerator value sequence, every
/// integer spelling, every string argument, every attribute form in every position, module-less files) through the
/// request oracle: file 0 is the source, the others are references (odd cases: all are sources).
pub struct FromPrograms {
    pub inner: Box<dyn crate::model::run::ProgFamily>,
    pub stride: u64,
}
impl ReqFamily for FromPrograms {
    fn name(&self) -> String {
        let n = self.inner.name();
        let (head, rest) = n.split_once('/').unwrap_or((n.as_str(), ""));
        format!("programs-{head}/{}{rest}", if self.stride > 1 { format!("every {}th case of: ", self.stride) } else { String::new() })
    }
    fn len(&self) -> u64 {
        (self.inner.len() + self.stride - 1) / self.stride
    }
    fn get(&self, idx: u64) -> ReqCase {
        let c = self.inner.get(idx * self.stride);
        let n = c.program.len();
        let files = (0..n).map(|i| (format!("f{i}.slice"), i == 0 || idx % 2 == 1, i)).collect();
        ReqCase { program: c.program, files, args: vec![], label: c.label }
    }
}

pub fn families(tier: &str) -> Vec<Box<dyn Family>> {
    let mut v: Vec<Box<dyn ReqFamily>> = vec![Box::new(Docs), Box::new(SizeClasses), Box::new(Packed), Box::new(Singles), Box::new(PairsFam { all_splits: tier != "quick" })];
    // C02's families 1..=6 (type expressions x positions, enumerator values, integer spellings, string arguments,
    // attribute forms x positions, module-less files); quick: about 600 evenly spaced cases of each
    for (i, f) in crate::model::families::program_families(tier).into_iter().enumerate() {
        if (1..=6).contains(&i) || f.name().starts_with("vocabulary") {
            let stride = if tier == "quick" { (f.len() / 600).max(1) } else { 1 };
            v.push(Box::new(FromPrograms { inner: f, stride }));
        }
    }
    v.into_iter().map(|f| Box::new(ReqCheck { inner: f }) as Box<dyn Family>).collect()
}
