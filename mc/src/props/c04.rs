//! C04 — accepted programs are well-formed; every rule violation is diagnosed (with a code that belongs to a rule
//! the program actually violates).

use super::PropMeta;
use crate::engine::*;
use crate::model::ast::*;
use crate::model::gen;
use crate::model::print::*;
use crate::model::rules;
use crate::model::run::*;
use crate::util::*;
use serde_json::Value;
use std::collections::BTreeSet;

pub fn meta(m: &mut PropMeta) {
    m.rule = "complete small-scope families per rule: every (tag in {none,0,1,1 again,2^31-1,2^31,-1}, optional?) assignment over <= 3 members in each member container (struct, compact struct, parameters, return tuple, enumerator fields of plain/compact enums); every enumerator value shape at min-1,min,max,max+1 of every integral primitive and of the no-underlying range, duplicates, fields, implicit overflow x checked/unchecked x compact x all 16 primitives + none x optional underlying; every key type (primitives, optional, sequences/dictionaries/results, compact/non-compact key structs with legal/illegal/optional/nested fields, enums with/without underlying, custom, aliases of each) in 5 dictionary positions; every stream placement over <= 3 parameters and return members; return tuples of 0/1/2; every duplicate-name placement (definitions across files of one module, fields, operations, parameters, return members, enumerators, enumerator fields, inherited operations through single and diamond inheritance); alias of optional; definitions without a module; every known attribute x 12 targets x argument lists of 0..3 legal/illegal arguments x repeated; malformed integer literals; and deviation-bounded pairs: every ordered pair drawn from 40 well-formed constructs + 30 single-rule violators (two injected violations interact through phase gating). Oracle: independent reference checker over the model (rule catalogue with the codes that belong to each rule): model well-formed => no Error; model ill-formed => at least one Error and every reported Error code belongs to a violated rule. non-trivial = ill-formed, or well-formed at a boundary value; distinct = distinct rendered programs.";
    m.explanation = "per-rule exhaustive small-scope families and violation pairs against an independent reference validator";
    m.quick_bound = "<= 3 members per container; pairs of (valid + violating) constructs";
    m.thorough_bound = "same families; plus triples of violating constructs";
}

pub trait RuleFamily: Sync + Send {
    fn name(&self) -> String;
    fn len(&self) -> u64;
    fn get(&self, idx: u64) -> (Program, String);
}

pub struct RuleCheck {
    pub inner: Box<dyn RuleFamily>,
}

pub fn check_rules(program: &Program, layout: &Layout, fam: &str, out: &mut CaseOut) -> String {
    let violations = rules::check(program);
    let allowed: BTreeSet<&str> = violations.iter().map(|v| v.code).collect();
    let rendered = render_program(program, layout);
    let texts: Vec<String> = rendered.iter().map(|r| r.text.clone()).collect();
    let input = || texts.join("\n--- next file ---\n");
    out.steps += 1;
    match compile_rendered(rendered, None) {
        Err((loc, msg)) => {
            out.violate(format!("c04/{fam}/panic@{loc}"), format!("panic at {loc}: {msg}\n--- input ---\n{}", input()));
            "panic".into()
        }
        Ok(c) => {
            let errs = c.errors();
            if violations.is_empty() {
                if let Some(e) = errs.first() {
                    out.violate(format!("c04/{fam}/well-formed-rejected/{}", e.code), format!("the program satisfies every rule but was rejected: {} {}\n--- input ---\n{}", e.code, e.message, input()));
                    return format!("wrongly-rejected:{}", e.code);
                }
                "accepted".into()
            } else {
                if errs.is_empty() {
                    let rules_: BTreeSet<&str> = violations.iter().map(|v| v.rule).collect();
                    out.violate(
                        format!("c04/{fam}/ill-formed-accepted/{}", violations[0].code),
                        format!("the program violates {:?} (codes {:?}) but was accepted without an error\n--- input ---\n{}", rules_, allowed, input()),
                    );
                    return "wrongly-accepted".into();
                }
                for e in &errs {
                    if !allowed.contains(e.code.as_str()) {
                        out.violate(
                            format!("c04/{fam}/code-of-a-rule-not-violated/{}", e.code),
                            format!("reported {} ({}) but the program only violates rules with codes {:?}\n--- input ---\n{}", e.code, e.message, allowed, input()),
                        );
                    }
                }
                let mut codes: Vec<&str> = errs.iter().map(|e| e.code.as_str()).collect();
                codes.sort();
                codes.dedup();
                // Rules that are checked in ONE phase are all checked: when none of the violated rules belongs to a phase
                // that ends the compilation before the validators run (parsing, attribute and type patching, cycles,
                // redefinitions), every violated rule is reported - a rule must not fall silent because another one
                // of the same phase fired.
                const GATING: [&str; 13] = ["E002", "E010", "E014", "E017", "E019", "E021", "E024", "E027", "E028", "E030", "E031", "E032", "E033"];
                if !allowed.iter().any(|c| GATING.contains(c)) {
                    let missing: Vec<&&str> = allowed.iter().filter(|c| !codes.contains(*c)).collect();
                    if !missing.is_empty() {
                        out.violate(
                            format!("c04/{fam}/rule-of-the-same-phase-not-reported/{}", missing[0]),
                            format!("the program violates rules with codes {allowed:?}, all checked by the validators in one pass, but only {codes:?} were reported\n--- input ---\n{}", input()),
                        );
                    }
                }
                format!("rejected:{}", codes.join(","))
            }
        }
    }
}

impl Family for RuleCheck {
    fn name(&self) -> String {
        self.inner.name()
    }
    fn len(&self) -> u64 {
        self.inner.len()
    }
    fn describe(&self, idx: u64) -> Value {
        let (mut p, label) = self.inner.get(idx);
        if idx % 3 == 2 {
            let mut first = MFile::module("ZFirst");
            first.defs.push(st("ZHealthy", vec![MField::new("z", MType::prim("bool"))]));
            p.insert(0, first);
        }
        let c = PCase { program: p, layout: Layout::uniform(Sep::Space, Commas::None), label, may_warn: true };
        describe_case(&c)
    }
    fn run(&self, idx: u64) -> CaseOut {
        let (mut p, _) = self.inner.get(idx);
        // every third case: a healthy file of another module in front, so that the program's own files are not the
        // first ones of the compilation (rules hold for the program, not for its first file)
        if idx % 3 == 2 {
            let mut first = MFile::module("ZFirst");
            first.defs.push(st("ZHealthy", vec![MField::new("z", MType::prim("bool"))]));
            p.insert(0, first);
        }
        let layout = if idx % 5 == 4 { Layout::uniform(Sep::Newline, Commas::Between) } else { Layout::uniform(Sep::Space, Commas::None) };
        let rendered = render_program(&p, &layout);
        let mut out = CaseOut::new(case_hash(&rendered));
        out.steps = 0;
        out.validated = 1;
        let fam = self.inner.name();
        let fam = fam.split('/').next().unwrap().to_string();
        out.class = check_rules(&p, &layout, &fam, &mut out);
        out.nontrivial = out.class != "accepted" || fam.contains("boundary");
        out
    }
}

// ---------------------------------------------------------------------------------------------------------------

fn tag_choice(c: u64) -> Option<MInt> {
    match c {
        0 => None,
        1 => Some(MInt::dec(0)),
        2 => Some(MInt::dec(1)),
        3 => Some(MInt::dec(1)), // "1 again"
        4 => Some(MInt::dec(2147483647)),
        5 => Some(MInt::dec(2147483648)),
        _ => Some(MInt::spelled(-1, "-1")),
    }
}

/// Every tag/optional assignment over <= 3 members in each member container.
pub struct Tags;
const CONTAINERS: u64 = 8;
impl RuleFamily for Tags {
    fn name(&self) -> String {
        "tags/every (tag, optional) assignment over <= 3 members x 8 containers (struct, compact struct, parameters, return members, enumerator fields of a plain and of a compact enum, the same list as parameters AND return members of one operation, the same list on two enumerators)".into()
    }
    fn len(&self) -> u64 {
        // members n in 1..=3: 14^n
        (14 + 14 * 14 + 14 * 14 * 14) * CONTAINERS
    }
    fn get(&self, idx: u64) -> (Program, String) {
        let cont = idx % CONTAINERS;
        let mut i = idx / CONTAINERS;
        let n = if i < 14 {
            1
        } else if {
            i -= 14;
            i < 196
        } {
            2
        } else {
            i -= 196;
            3
        };
        let mut members = vec![];
        for k in 0..n {
            let c = i % 14;
            i /= 14;
            let tag = tag_choice(c % 7);
            let optional = c / 7 == 1;
            let ty = if optional { MType::prim("int32").opt() } else { MType::prim("int32") };
            members.push((format!("m{k}"), tag, ty));
        }
        let fields: Vec<MField> = members.iter().map(|(n, t, ty)| MField { c: MCommon::new(n), tag: t.clone(), ty: ty.clone() }).collect();
        let params: Vec<MParam> = members.iter().map(|(n, t, ty)| MParam { attrs: vec![], name: MIdent::new(n), tag: t.clone(), stream: false, ty: ty.clone(), doc: MDoc::default() }).collect();
        let mut f = MFile::module("M");
        let d = match cont {
            0 => st("S", fields),
            1 => cst("S", fields),
            2 => iface("I", vec![], vec![op("o", params, MRet::None)]),
            3 => {
                if params.len() == 1 {
                    iface("I", vec![], vec![op("o", vec![], MRet::Single { tag: params[0].tag.clone(), stream: false, ty: params[0].ty.clone() })])
                } else {
                    iface("I", vec![], vec![op("o", vec![], MRet::Tuple(params))])
                }
            }
            4 => en("E", None, vec![MEnumerator { c: MCommon::new("A"), fields: Some(fields), value: None }]),
            // the same tags in two neighbouring member lists are legal: each list is judged on its own
            6 => {
                let rets: Vec<MParam> = params.iter().map(|p| MParam { name: MIdent::new(&format!("r{}", p.name.name)), ..p.clone() }).collect();
                let ret = if rets.len() == 1 { MRet::Single { tag: rets[0].tag.clone(), stream: false, ty: rets[0].ty.clone() } } else { MRet::Tuple(rets) };
                iface("I", vec![], vec![op("o", params, ret)])
            }
            7 => en("E", None, vec![MEnumerator { c: MCommon::new("A"), fields: Some(fields.clone()), value: None }, MEnumerator { c: MCommon::new("B"), fields: Some(fields), value: None }]),
            _ => {
                let mut d = en("E", None, vec![MEnumerator { c: MCommon::new("A"), fields: Some(fields), value: None }]);
                if let MDef::Enum(e) = &mut d {
                    e.compact = true;
                }
                d
            }
        };
        f.defs.push(d);
        (vec![f], format!("container {cont}, members {:?}", members.iter().map(|(n, t, ty)| format!("{n}: tag {:?} optional {}", t.as_ref().map(|t| t.spelling.clone()), ty.optional)).collect::<Vec<_>>()))
    }
}

/// Enumerator values at the boundaries of every underlying type.
pub struct EnumBounds;
const SHAPES: u64 = 15;
impl RuleFamily for EnumBounds {
    fn name(&self) -> String {
        "enum-boundary/17 underlying choices x optional x unchecked x compact x 15 enumerator shapes".into()
    }
    fn len(&self) -> u64 {
        17 * 2 * 2 * 2 * SHAPES
    }
    fn get(&self, idx: u64) -> (Program, String) {
        let u = (idx % 17) as usize;
        let opt = (idx / 17) % 2 == 1;
        let unchecked = (idx / 34) % 2 == 1;
        let compact = (idx / 68) % 2 == 1;
        let shape = idx / 136;
        let prim = if u < 16 { Some(PRIMITIVES[u]) } else { None };
        let (lo, hi) = prim.and_then(prim_bounds).unwrap_or((0, i32::MAX as i128));
        let e = |n: &str, v: Option<i128>| MEnumerator { c: MCommon::new(n), fields: None, value: v.map(|x| MInt::spelled(x, &x.to_string())) };
        let ens: Vec<MEnumerator> = match shape {
            0 => vec![],
            1 => vec![e("A", Some(lo - 1))],
            2 => vec![e("A", Some(lo))],
            3 => vec![e("A", Some(hi))],
            4 => vec![e("A", Some(hi + 1))],
            5 => vec![e("A", Some(lo)), e("B", Some(hi))],
            6 => vec![e("A", Some(0)), e("B", Some(0))],
            7 => vec![MEnumerator { c: MCommon::new("A"), fields: Some(vec![MField::new("x", MType::prim("int32"))]), value: None }],
            8 => vec![e("A", None), e("B", None)],
            9 => vec![e("A", Some(hi)), e("B", None)],
            10 => vec![MEnumerator { c: MCommon::new("A"), fields: Some(vec![]), value: None }, e("B", Some(1))],
            11 => vec![e("A", Some(1)), e("B", Some(0)), e("C", None)],
            // fields (also tagged ones) on an enumerator that is not the first
            12 => vec![e("A", None), MEnumerator { c: MCommon::new("B"), fields: Some(vec![MField::new("x", MType::prim("int32"))]), value: None }],
            13 => vec![e("A", Some(0)), e("B", Some(1)), MEnumerator { c: MCommon::new("C"), fields: Some(vec![]), value: Some(MInt::spelled(2, "2")) }],
            _ => {
                let mut tagged = MField::new("t", MType::prim("int32").opt());
                tagged.tag = Some(MInt::spelled(1, "1"));
                vec![e("A", None), MEnumerator { c: MCommon::new("B"), fields: Some(vec![MField::new("x", MType::prim("bool")), tagged]), value: None }]
            }
        };
        let mut d = en("E", prim.map(|p| if opt { MType::prim(p).opt() } else { MType::prim(p) }), ens);
        if let MDef::Enum(x) = &mut d {
            x.unchecked = unchecked;
            x.compact = compact;
        }
        let mut f = MFile::module("M");
        f.defs.push(d);
        (vec![f], format!("underlying {prim:?} optional {opt} unchecked {unchecked} compact {compact} shape {shape}"))
    }
}

/// Dictionary key types.
pub struct Keys {
    keys: Vec<MType>,
}
impl Keys {
    pub fn new() -> Self {
        let mut k: Vec<MType> = PRIMITIVES.iter().map(|p| MType::prim(p)).collect();
        k.push(MType::prim("int32").opt());
        k.push(MType::seq(MType::prim("int32")));
        k.push(MType::dict(MType::prim("int32"), MType::prim("int32")));
        k.push(MType::result(MType::prim("int32"), MType::prim("int32")));
        for n in ["KOk", "KOk2", "KNonCompact", "KFloat", "KOptField", "KSeqField", "KNestedBad", "KNestedOk", "EBacked", "EPlain", "EFields", "CT", "AKOk", "AKBad", "AInt", "AFloat", "ASeq", "AEPlain"] {
            k.push(MType::named(n));
        }
        k.push(MType::named("KOk").opt());
        k.push(MType::named("AInt").opt());
        Keys { keys: k }
    }
    fn lib() -> Vec<MDef> {
        vec![
            cst("KOk", vec![MField::new("a", MType::prim("int32")), MField::new("b", MType::prim("string"))]),
            cst("KOk2", vec![MField::new("a", MType::named("EBacked")), MField::new("b", MType::named("CT"))]),
            st("KNonCompact", vec![MField::new("a", MType::prim("int32"))]),
            cst("KFloat", vec![MField::new("a", MType::prim("float32"))]),
            cst("KOptField", vec![MField::new("a", MType::prim("int32").opt())]),
            cst("KSeqField", vec![MField::new("a", MType::seq(MType::prim("int32")))]),
            cst("KNestedBad", vec![MField::new("a", MType::named("KFloat"))]),
            cst("KNestedOk", vec![MField::new("a", MType::named("KOk")), MField::new("b", MType::named("AInt"))]),
            en("EBacked", Some(MType::prim("uint8")), vec![enumerator("A")]),
            en("EPlain", None, vec![enumerator("A")]),
            en("EFields", None, vec![MEnumerator { c: MCommon::new("A"), fields: Some(vec![MField::new("x", MType::prim("int32"))]), value: None }]),
            custom("CT"),
            alias("AKOk", MType::named("KOk")),
            alias("AKBad", MType::named("KNonCompact")),
            alias("AInt", MType::prim("int64")),
            alias("AFloat", MType::prim("float64")),
            alias("ASeq", MType::seq(MType::prim("uint8"))),
            alias("AEPlain", MType::named("EPlain")),
        ]
    }
}
const KEY_POSITIONS: u64 = 6;
impl RuleFamily for Keys {
    fn name(&self) -> String {
        format!("dictionary-keys/{} key types x 6 dictionary positions", self.keys.len())
    }
    fn len(&self) -> u64 {
        self.keys.len() as u64 * KEY_POSITIONS
    }
    fn get(&self, idx: u64) -> (Program, String) {
        let k = &self.keys[(idx / KEY_POSITIONS) as usize];
        let pos = idx % KEY_POSITIONS;
        let d = MType::dict(k.clone(), MType::prim("int32"));
        let mut f = MFile::module("M");
        f.defs.extend(Self::lib());
        let user = match pos {
            0 => st("U", vec![MField::new("f", d)]),
            1 => st("U", vec![MField::new("f", MType::seq(d).opt())]),
            2 => alias("U", d),
            3 => iface("U", vec![], vec![op("o", vec![MParam::new("p", d)], MRet::Single { tag: None, stream: false, ty: MType::prim("bool") })]),
            4 => st("U", vec![MField::new("f", MType::dict(MType::prim("string"), d))]),
            _ => {
                // the dictionary reached through an alias, used twice
                f.defs.push(alias("AD", d));
                st("U", vec![MField::new("f", MType::named("AD")), MField::new("g", MType::seq(MType::named("AD")))])
            }
        };
        f.defs.push(user);
        (vec![f], format!("key {:?} position {pos}", k.kind))
    }
}

/// Stream placements and return tuples.
pub struct Streams;
impl RuleFamily for Streams {
    fn name(&self) -> String {
        "stream-placement/every stream flag assignment over 0..3 parameters x 0..3 return members (single return and tuples of 0,1,2,3)".into()
    }
    fn len(&self) -> u64 {
        15 * 16
    }
    fn get(&self, idx: u64) -> (Program, String) {
        // parameters: n in 0..=3 with flags: 1+2+4+8 = 15 ; returns: none, single(2 flags), tuple n in 0..=3 (1+2+4+8=15) -> 1+... use 16: 0 none, 1..=15 tuple shapes where shape 1 (n=0) .. ; single return handled as shapes 16.. via idx parity
        let pi = idx % 15;
        let ri = idx / 15;
        let decode = |mut i: u64| -> Vec<bool> {
            let mut n = 0;
            let mut size = 1;
            while i >= size {
                i -= size;
                n += 1;
                size *= 2;
            }
            (0..n).map(|k| (i >> k) & 1 == 1).collect()
        };
        let pflags = decode(pi);
        let params: Vec<MParam> = pflags.iter().enumerate().map(|(k, s)| MParam { attrs: vec![], name: MIdent::new(&format!("p{k}")), tag: None, stream: *s, ty: MType::prim("int32"), doc: MDoc::default() }).collect();
        let ret = if ri == 15 {
            MRet::None
        } else {
            let rflags = decode(ri);
            if rflags.len() == 1 && pi % 2 == 0 {
                MRet::Single { tag: None, stream: rflags[0], ty: MType::prim("string") }
            } else {
                MRet::Tuple(rflags.iter().enumerate().map(|(k, s)| MParam { attrs: vec![], name: MIdent::new(&format!("r{k}")), tag: None, stream: *s, ty: MType::prim("string"), doc: MDoc::default() }).collect())
            }
        };
        let mut f = MFile::module("M");
        f.defs.push(iface("I", vec![], vec![op("o", params, ret)]));
        (vec![f], format!("param stream flags {pflags:?}, return shape {ri}"))
    }
}

/// Duplicate-name placements, inherited operations, alias of optional, missing module.
pub struct Names;
impl RuleFamily for Names {
    fn name(&self) -> String {
        "names-and-structure/duplicate definitions (same and different kinds, one and two files), fields, operations, parameters, return members, enumerators, enumerator fields, inherited operations (single, transitive, diamond), alias of optional, definitions without a module".into()
    }
    fn len(&self) -> u64 {
        33
    }
    fn get(&self, idx: u64) -> (Program, String) {
        let mut f = MFile::module("M");
        let mut g = MFile::module("M");
        let mut two = false;
        let i32t = || MType::prim("int32");
        let label;
        match idx {
            0 => {
                f.defs.push(st("D", vec![]));
                f.defs.push(st("D", vec![]));
                label = "two structs D in one file";
            }
            1 => {
                f.defs.push(st("D", vec![]));
                f.defs.push(custom("D"));
                label = "struct D and custom D";
            }
            2 => {
                f.defs.push(st("D", vec![]));
                g.defs.push(iface("D", vec![], vec![]));
                two = true;
                label = "struct D and interface D in two files of module M";
            }
            3 => {
                f.defs.push(st("D", vec![]));
                g = MFile::module("N");
                g.defs.push(st("D", vec![]));
                two = true;
                label = "struct D in modules M and N (legal)";
            }
            4 => {
                f.defs.push(st("S", vec![MField::new("a", i32t()), MField::new("a", MType::prim("string"))]));
                label = "duplicate field";
            }
            5 => {
                f.defs.push(st("S", vec![MField::new("a", i32t())]));
                f.defs.push(st("T", vec![MField::new("a", i32t())]));
                label = "same field name in two structs (legal)";
            }
            6 => {
                f.defs.push(iface("I", vec![], vec![op("o", vec![], MRet::None), op("o", vec![MParam::new("x", i32t())], MRet::None)]));
                label = "duplicate operation";
            }
            7 => {
                f.defs.push(iface("I", vec![], vec![op("o", vec![MParam::new("x", i32t()), MParam::new("x", i32t())], MRet::None)]));
                label = "duplicate parameter";
            }
            8 => {
                f.defs.push(iface("I", vec![], vec![op("o", vec![], MRet::Tuple(vec![MParam::new("x", i32t()), MParam::new("x", i32t())]))]));
                label = "duplicate return member";
            }
            9 => {
                f.defs.push(en("E", None, vec![enumerator("A"), enumerator("A")]));
                label = "duplicate enumerator";
            }
            10 => {
                f.defs.push(en("E", None, vec![MEnumerator { c: MCommon::new("A"), fields: Some(vec![MField::new("x", i32t()), MField::new("x", i32t())]), value: None }]));
                label = "duplicate enumerator field";
            }
            11 => {
                f.defs.push(en("E", None, vec![MEnumerator { c: MCommon::new("A"), fields: Some(vec![MField::new("x", i32t())]), value: None }, MEnumerator { c: MCommon::new("B"), fields: Some(vec![MField::new("x", i32t())]), value: None }]));
                label = "same field name in two enumerators (legal)";
            }
            12 => {
                f.defs.push(iface("B", vec![], vec![op("o", vec![], MRet::None)]));
                f.defs.push(iface("I", vec![MType::named("B")], vec![op("o", vec![], MRet::None)]));
                label = "redeclared inherited operation";
            }
            13 => {
                f.defs.push(iface("A", vec![], vec![op("o", vec![], MRet::None)]));
                f.defs.push(iface("B", vec![MType::named("A")], vec![]));
                f.defs.push(iface("I", vec![MType::named("B")], vec![op("o", vec![], MRet::None)]));
                label = "redeclared transitively inherited operation";
            }
            14 => {
                f.defs.push(iface("A", vec![], vec![op("o", vec![], MRet::None)]));
                f.defs.push(iface("B", vec![MType::named("A")], vec![op("b", vec![], MRet::None)]));
                f.defs.push(iface("C", vec![MType::named("A")], vec![op("c", vec![], MRet::None)]));
                f.defs.push(iface("I", vec![MType::named("B"), MType::named("C")], vec![op("i", vec![], MRet::None)]));
                label = "diamond inheritance (legal)";
            }
            15 => {
                f.defs.push(iface("A", vec![], vec![op("o", vec![], MRet::None)]));
                f.defs.push(iface("B", vec![MType::named("A")], vec![op("b", vec![], MRet::None)]));
                f.defs.push(iface("C", vec![MType::named("A")], vec![op("c", vec![], MRet::None)]));
                f.defs.push(iface("I", vec![MType::named("B"), MType::named("C")], vec![op("c", vec![], MRet::None)]));
                label = "diamond inheritance redeclaring an inherited operation";
            }
            16 => {
                f.defs.push(iface("A", vec![], vec![op("o", vec![], MRet::None)]));
                g.defs.push(iface("I", vec![MType::named("A")], vec![op("o", vec![], MRet::None)]));
                two = true;
                label = "redeclared inherited operation, base in another file";
            }
            17 => {
                f.defs.push(alias("A", i32t().opt()));
                label = "alias of optional primitive";
            }
            18 => {
                f.defs.push(alias("A", MType::seq(i32t()).opt()));
                label = "alias of optional sequence";
            }
            19 => {
                f.defs.push(alias("A", MType::seq(i32t().opt())));
                label = "alias of sequence of optional (legal)";
            }
            20 => {
                f.module = None;
                f.defs.push(st("S", vec![]));
                label = "definition without a module";
            }
            21 => {
                f.module = None;
                label = "empty file without a module (legal)";
            }
            22 => {
                f.defs.push(st("S", vec![]));
                g.module = None;
                g.defs.push(custom("C"));
                two = true;
                label = "second file without a module";
            }
            23 => {
                f.defs.push(iface("I", vec![], vec![op("o", vec![MParam::new("x", i32t())], MRet::Tuple(vec![MParam::new("y", i32t()), MParam::new("z", i32t())])), op("p", vec![MParam::new("x", i32t())], MRet::None)]));
                label = "same parameter name in two operations (legal)";
            }
            24 => {
                f.defs.push(st("S", vec![MField::new("S", i32t())]));
                label = "field named like its struct (legal)";
            }
            25 => {
                f.defs.push(st("a", vec![]));
                f.defs.push(st("A", vec![]));
                label = "names differing in case (legal)";
            }
            26 | 27 | 28 | 29 => {
                // inheritance chains of 3..6 links: the redeclared operation comes from the most distant ancestor
                let links = (idx - 26 + 3) as usize;
                f.defs.push(iface("L0", vec![], vec![op("o", vec![], MRet::None)]));
                for k in 1..links {
                    f.defs.push(iface(&format!("L{k}"), vec![MType::named(&format!("L{}", k - 1))], vec![op(&format!("own{k}"), vec![], MRet::None)]));
                }
                f.defs.push(iface("I", vec![MType::named(&format!("L{}", links - 1))], vec![op("o", vec![], MRet::None)]));
                label = "redeclared operation of a distant ancestor (chain of 3..6 links)";
            }
            30 => {
                // the ancestor is only reachable through the SECOND base, three links up
                f.defs.push(iface("Far", vec![], vec![op("o", vec![], MRet::None)]));
                f.defs.push(iface("Mid", vec![MType::named("Far")], vec![]));
                f.defs.push(iface("Near", vec![MType::named("Mid")], vec![]));
                f.defs.push(iface("Other", vec![], vec![op("x", vec![], MRet::None)]));
                f.defs.push(iface("I", vec![MType::named("Other"), MType::named("Near")], vec![op("o", vec![], MRet::None)]));
                label = "redeclared operation of an ancestor reached through the second base";
            }
            31 => {
                // same shape, but legal: distinct names all the way
                f.defs.push(iface("Far", vec![], vec![op("o", vec![], MRet::None)]));
                f.defs.push(iface("Mid", vec![MType::named("Far")], vec![op("m", vec![], MRet::None)]));
                f.defs.push(iface("Near", vec![MType::named("Mid")], vec![op("n", vec![], MRet::None)]));
                f.defs.push(iface("I", vec![MType::named("Near")], vec![op("i", vec![], MRet::None)]));
                label = "deep inheritance chain without redeclaration (legal)";
            }
            _ => {
                // ancestors split over files, declared after their users
                g.defs.push(iface("Far", vec![], vec![op("o", vec![], MRet::None)]));
                f.defs.push(iface("I", vec![MType::named("Near")], vec![op("o", vec![], MRet::None)]));
                f.defs.push(iface("Near", vec![MType::named("Mid")], vec![]));
                g.defs.push(iface("Mid", vec![MType::named("Far")], vec![]));
                two = true;
                label = "redeclared operation of a distant ancestor, chain declared backwards over two files";
            }
        }
        (if two { vec![f, g] } else { vec![f] }, label.to_string())
    }
}


/// Inherited operations, complete small scope: every inheritance DAG over four interfaces that pairwise share their
/// simple names across two modules, with every assignment of operations to interfaces.
pub struct InheritedOperations;
impl InheritedOperations {
    const NAMINGS: [[(&'static str, &'static str); 4]; 2] = [[("M1", "P"), ("M1", "Q"), ("M2", "P"), ("M2", "Q")], [("M1", "P"), ("M2", "P"), ("M2", "Q"), ("M1", "Q")]];
}
impl RuleFamily for InheritedOperations {
    fn name(&self) -> String {
        "inherited-operations/all 64 inheritance DAGs over 4 interfaces M1::P M1::Q M2::P M2::Q (like-named across two modules and files) x every subset of operations {a, b} per interface x 2 assignments of names to nodes x definitions in forward / backward order".into()
    }
    fn len(&self) -> u64 {
        64 * 256 * 2 * 2
    }
    fn get(&self, idx: u64) -> (Program, String) {
        let d = decode_index(idx, &[64, 256, 2, 2]);
        let (graph, ops, naming, backward) = (d[0], d[1], d[2] as usize, d[3] == 1);
        let names = Self::NAMINGS[naming];
        // node i may derive from every node j < i: bit (i * (i - 1) / 2 + j) of `graph`
        let mut files = vec![MFile::module("M1"), MFile::module("M2")];
        let mut order: Vec<usize> = (0..4).collect();
        if backward {
            order.reverse();
        }
        for i in order {
            let mut bases = vec![];
            for j in 0..i {
                if (graph >> (i * (i - 1) / 2 + j)) & 1 == 1 {
                    bases.push(MType::named(&format!("{}::{}", names[j].0, names[j].1)));
                }
            }
            let mut os = vec![];
            for (k, o) in ["a", "b"].iter().enumerate() {
                if (ops >> (2 * i + k)) & 1 == 1 {
                    os.push(op(o, vec![], MRet::None));
                }
            }
            let fi = if names[i].0 == "M1" { 0 } else { 1 };
            files[fi].defs.push(iface(names[i].1, bases, os));
        }
        (files, format!("graph {graph:#08b} operations {ops:#010b} naming {naming} backward {backward}"))
    }
}

/// Known attributes x targets x argument lists.
pub struct Attributes {
    forms: Vec<MAttr>,
}
impl Attributes {
    pub fn new() -> Self {
        let mut forms = vec![];
        let id = |s: &str| MArg::Ident(s.to_string());
        let arg_lists: Vec<Option<Vec<MArg>>> = vec![
            None,
            Some(vec![]),
            Some(vec![id("Args")]),
            Some(vec![id("Return")]),
            Some(vec![id("Args"), id("Return")]),
            Some(vec![id("Args"), id("Args"), id("Return")]),
            Some(vec![id("Bogus")]),
            Some(vec![id("All")]),
            Some(vec![id("Deprecated"), id("BrokenDocLink")]),
            Some(vec![id("DuplicateFile")]),
            Some(vec![id("deprecated")]),
            Some(vec![MArg::Str("a reason".into())]),
            Some(vec![MArg::Str("a".into()), MArg::Str("b".into())]),
            Some(vec![id("args")]),
        ];
        for d in ["allow", "compress", "deprecated", "oneway", "slicedFormat", "bogus", "Allow"] {
            for a in &arg_lists {
                forms.push(MAttr { directive: d.to_string(), args: a.clone(), trailing_comma: false });
            }
        }
        Attributes { forms }
    }
}
const ATTR_TARGETS: u64 = 26;
impl RuleFamily for Attributes {
    fn name(&self) -> String {
        format!("attributes/{} forms of the known (and two unknown) directives x {} targets x {{once, twice}}", self.forms.len(), ATTR_TARGETS)
    }
    fn len(&self) -> u64 {
        self.forms.len() as u64 * ATTR_TARGETS * 2
    }
    fn get(&self, idx: u64) -> (Program, String) {
        let twice = idx % 2 == 1;
        let target = (idx / 2) % ATTR_TARGETS;
        let a = &self.forms[(idx / 2 / ATTR_TARGETS) as usize];
        let mut attrs = vec![a.clone()];
        if twice {
            attrs.push(a.clone());
        }
        let mut f = MFile::module("M");
        let mut s = st("S", vec![MField::new("f", MType::prim("int32"))]);
        let mut i = iface(
            "I",
            vec![],
            vec![
                op("o", vec![MParam::new("p", MType::prim("int32"))], MRet::None),
                op("r", vec![], MRet::Tuple(vec![MParam::new("x", MType::prim("int32")), MParam::new("y", MType::prim("int32"))])),
                op("q", vec![], MRet::Single { tag: None, stream: false, ty: MType::prim("int32") }),
                op("s", vec![], MRet::Single { tag: None, stream: true, ty: MType::prim("int32") }),
                op("t", vec![MParam { stream: true, ..MParam::new("p", MType::prim("int32")) }], MRet::None),
            ],
        );
        let mut e = en("E", Some(MType::prim("uint8")), vec![enumerator("A")]);
        let mut c = custom("C");
        let mut al = alias("A", MType::prim("int32"));
        let mut j_base = MType::named("I");
        let mut extra: Option<MDef> = None;
        match target {
            0 => f.file_attrs = attrs,
            1 => f.module.as_mut().unwrap().attrs = attrs,
            2 => s.common_mut().attrs = attrs,
            3 => {
                if let MDef::Struct(x) = &mut s {
                    x.fields[0].c.attrs = attrs;
                }
            }
            4 => {
                if let MDef::Struct(x) = &mut s {
                    x.fields[0].ty.attrs = attrs;
                }
            }
            5 => i.common_mut().attrs = attrs,
            6 => {
                if let MDef::Interface(x) = &mut i {
                    x.ops[0].c.attrs = attrs;
                }
            }
            7 => {
                if let MDef::Interface(x) = &mut i {
                    x.ops[1].c.attrs = attrs;
                }
            }
            8 => {
                if let MDef::Interface(x) = &mut i {
                    x.ops[0].params[0].attrs = attrs;
                }
            }
            9 => {
                if let MDef::Interface(x) = &mut i {
                    if let MRet::Tuple(ps) = &mut x.ops[1].ret {
                        ps[0].attrs = attrs;
                    }
                }
            }
            10 => e.common_mut().attrs = attrs,
            11 => {
                if let MDef::Enum(x) = &mut e {
                    x.enumerators[0].c.attrs = attrs;
                }
            }
            12 => c.common_mut().attrs = attrs,
            13 => al.common_mut().attrs = attrs,
            // type references in every position: the underlying type of an enum, a base of an interface, a parameter's
            // and a return type, an element / key / value type, the type of an alias, of an enumerator's field
            17 => {
                if let MDef::Enum(x) = &mut e {
                    x.underlying.as_mut().unwrap().attrs = attrs;
                }
            }
            18 => j_base.attrs = attrs,
            19 => {
                if let MDef::Interface(x) = &mut i {
                    x.ops[0].params[0].ty.attrs = attrs;
                }
            }
            20 => {
                if let MDef::Interface(x) = &mut i {
                    if let MRet::Single { ty, .. } = &mut x.ops[2].ret {
                        ty.attrs = attrs;
                    }
                }
            }
            21 => extra = Some(st("T1", vec![MField::new("g", MType::seq(MType { attrs, ..MType::prim("int32") }))])),
            22 => extra = Some(st("T2", vec![MField::new("g", MType::dict(MType { attrs, ..MType::prim("int32") }, MType::prim("bool")))])),
            23 => extra = Some(st("T3", vec![MField::new("g", MType::dict(MType::prim("string"), MType { attrs, ..MType::prim("int32") }).opt())])),
            24 => {
                if let MDef::Alias(x) = &mut al {
                    x.ty.attrs = attrs;
                }
            }
            25 => extra = Some(en("V", None, vec![MEnumerator { c: MCommon::new("X"), fields: Some(vec![MField::new("vf", MType { attrs, ..MType::result(MType::prim("int32"), MType::prim("string")) })]), value: None }])),
            // operations with a single return, with a return that is only a stream, with a streamed parameter
            k => {
                if let MDef::Interface(x) = &mut i {
                    x.ops[(k - 12) as usize].c.attrs = attrs;
                }
            }
        }
        f.defs.extend([s, i, e, c, al]);
        f.defs.push(iface("J", vec![j_base], vec![]));
        f.defs.extend(extra);
        (vec![f], format!("[{}{}] x{} on target {target}", a.directive, a.args.as_ref().map(|x| format!("({})", x.iter().map(|y| y.value()).collect::<Vec<_>>().join(","))).unwrap_or_default(), if twice { 2 } else { 1 }))
    }
}

/// Integer literal well-formedness.
pub struct Literals;
const LITS: [(&str, i128); 20] = [
    ("0x", 0),
    ("0b", 0),
    ("0b102", 0),
    ("0xFG", 0),
    ("12a", 0),
    ("1__0", 10),
    ("0x_1", 1),
    ("170141183460469231731687303715884105727", i128::MAX),
    ("170141183460469231731687303715884105728", 0),
    ("0xFFFFFFFFFFFFFFFFFFFFFFFFFFFFFFFFF", 0),
    ("00017", 17),
    ("0b_", 0),
    ("9_", 9),
    ("0X1F", 0),
    // values around the widths a tag or an enumerator is narrowed to
    ("4294967296", 1 << 32),
    ("4294967297", (1 << 32) + 1),
    ("0x1_0000_0000_0000_0000", 1 << 64),
    ("18446744073709551616", 1 << 64),
    ("0x8000_0000", 1 << 31),
    ("2147483647", (1 << 31) - 1),
];
impl RuleFamily for Literals {
    fn name(&self) -> String {
        "integer-literals/malformed and extreme literals as enumerator values and tags".into()
    }
    fn len(&self) -> u64 {
        LITS.len() as u64 * 3
    }
    fn get(&self, idx: u64) -> (Program, String) {
        let (s, v) = LITS[(idx / 3) as usize];
        let mut f = MFile::module("M");
        match idx % 3 {
            0 => f.defs.push(en("E", Some(MType::prim("uint64")), vec![enumerator_v("A", MInt::spelled(v, s))])),
            1 => f.defs.push(en("E", Some(MType::prim("int64")), vec![enumerator_v("A", MInt::spelled(-v, &format!("-{s}")))])),
            _ => {
                let mut fl = MField::new("t", MType::prim("int32").opt());
                fl.tag = Some(MInt::spelled(v, s));
                f.defs.push(st("S", vec![fl]));
            }
        }
        (vec![f], format!("literal {s}"))
    }
}

/// Single-rule violators used for the deviation-bounded pairs.
pub const N_VIOLATORS: usize = 30;
pub fn violator(k: usize, i: usize) -> MDef {
    let n = |b: &str| format!("{b}{i}");
    let i32t = || MType::prim("int32");
    match k {
        0 => st(&n("VTagNonOpt"), vec![MField::tagged("a", 1, i32t())]),
        1 => st(&n("VTagDup"), vec![MField::tagged("a", 1, i32t().opt()), MField::tagged("b", 1, i32t().opt())]),
        2 => st(&n("VTagBig"), vec![MField { c: MCommon::new("a"), tag: Some(MInt::dec(2147483648)), ty: i32t().opt() }]),
        3 => st(&n("VTagNeg"), vec![MField { c: MCommon::new("a"), tag: Some(MInt::spelled(-1, "-1")), ty: i32t().opt() }]),
        4 => cst(&n("VCompactTag"), vec![MField::tagged("a", 1, i32t().opt())]),
        5 => cst(&n("VCompactEmpty"), vec![]),
        6 => en(&n("VEnumDup"), None, vec![enumerator_v("A", MInt::dec(1)), enumerator_v("B", MInt::dec(1))]),
        7 => en(&n("VEnumRange"), Some(MType::prim("uint8")), vec![enumerator_v("A", MInt::dec(256))]),
        8 => en(&n("VEnumNeg"), None, vec![enumerator_v("A", MInt::spelled(-1, "-1"))]),
        9 => en(&n("VEnumFloat"), Some(MType::prim("float32")), vec![enumerator("A")]),
        10 => en(&n("VEnumOptU"), Some(MType::prim("uint8").opt()), vec![enumerator("A")]),
        11 => en(&n("VEnumFieldsBacked"), Some(MType::prim("uint8")), vec![MEnumerator { c: MCommon::new("A"), fields: Some(vec![MField::new("x", i32t())]), value: None }]),
        12 => en(&n("VEnumEmpty"), None, vec![]),
        13 => {
            let mut d = en(&n("VEnumCompactBacked"), Some(MType::prim("uint8")), vec![enumerator("A")]);
            if let MDef::Enum(e) = &mut d {
                e.compact = true;
            }
            d
        }
        14 => {
            let mut d = en(&n("VEnumCompactUnchecked"), None, vec![enumerator("A")]);
            if let MDef::Enum(e) = &mut d {
                e.compact = true;
                e.unchecked = true;
            }
            d
        }
        15 => st(&n("VKeyFloat"), vec![MField::new("a", MType::dict(MType::prim("float64"), i32t()))]),
        16 => st(&n("VKeyOpt"), vec![MField::new("a", MType::dict(i32t().opt(), i32t()))]),
        17 => st(&n("VKeySeq"), vec![MField::new("a", MType::dict(MType::seq(i32t()), i32t()))]),
        18 => st(&n("VKeyStruct"), vec![MField::new("a", MType::dict(MType::named("Lib::HS"), i32t()))]),
        19 => {
            let mut p = MParam::new("a", i32t());
            p.stream = true;
            iface(&n("VStreamNotLast"), vec![], vec![op("o", vec![p, MParam::new("b", i32t())], MRet::None)])
        }
        20 => {
            let mut p = MParam::new("a", i32t());
            p.stream = true;
            let mut q = MParam::new("b", i32t());
            q.stream = true;
            iface(&n("VStreamTwo"), vec![], vec![op("o", vec![p, q], MRet::None)])
        }
        21 => iface(&n("VTuple1"), vec![], vec![op("o", vec![], MRet::Tuple(vec![MParam::new("x", i32t())]))]),
        22 => iface(&n("VInherited"), vec![MType::named("Lib::HI")], vec![op("hop", vec![], MRet::None)]),
        23 => alias(&n("VAliasOpt"), i32t().opt()),
        24 => {
            let mut d = st(&n("VAttrTarget"), vec![MField::new("a", i32t())]);
            *d.common_mut() = d.common().clone().attr(MAttr::new("oneway"));
            d
        }
        25 => {
            let mut d = st(&n("VAttrUnknown"), vec![]);
            *d.common_mut() = d.common().clone().attr(MAttr::new("nosuchattribute"));
            d
        }
        26 => {
            let mut o = op("o", vec![], MRet::None);
            o.c = o.c.attr(MAttr::with("compress", vec![MArg::Ident("Args".into())])).attr(MAttr::with("compress", vec![MArg::Ident("Return".into())]));
            iface(&n("VAttrRepeat"), vec![], vec![o])
        }
        27 => {
            let mut d = st(&n("VAllowBad"), vec![]);
            *d.common_mut() = d.common().clone().attr(MAttr::with("allow", vec![MArg::Ident("Everything".into())]));
            d
        }
        28 => st(&n("VDupField"), vec![MField::new("a", i32t()), MField::new("a", i32t())]),
        29 => {
            let mut o = op("o", vec![], MRet::Single { tag: None, stream: false, ty: i32t() });
            o.c = o.c.attr(MAttr::new("oneway"));
            iface(&n("VOnewayReturns"), vec![], vec![o])
        }
        _ => unreachable!(),
    }
}

/// All sequences of `depth` items over (40 valid constructs + 30 violators) containing at least one violator.
pub struct Pairs {
    pub depth: usize,
}
impl RuleFamily for Pairs {
    fn name(&self) -> String {
        format!("violation-{}/all ordered {} over 40 well-formed constructs + 30 single-rule violators", if self.depth == 2 { "pairs" } else { "triples" }, if self.depth == 2 { "pairs" } else { "triples of violators" })
    }
    fn len(&self) -> u64 {
        if self.depth == 2 {
            70 * 70
        } else {
            30 * 30 * 30
        }
    }
    fn get(&self, idx: u64) -> (Program, String) {
        let base = if self.depth == 2 { 70 } else { 30 };
        let mut ks = vec![];
        let mut i = idx;
        for _ in 0..self.depth {
            ks.push((i % base) as usize);
            i /= base;
        }
        let mut f = MFile::module("M");
        for (j, k) in ks.iter().enumerate() {
            let k = if self.depth == 2 { *k } else { *k + 40 };
            if k < 40 {
                f.defs.push(gen::construct(k, j, "Lib::"));
            } else {
                f.defs.push(violator(k - 40, j));
            }
        }
        (vec![f, gen::lib_file()], format!("items {ks:?}"))
    }
}


/// The same attribute once on a container and once on something inside it (and on two unrelated siblings): an
/// attribute is "repeated" only when it is written twice on ONE element.
pub struct AttributeOnContainerAndMember {
    attrs: Vec<MAttr>,
}
impl AttributeOnContainerAndMember {
    pub fn new() -> Self {
        let id = |s: &str| MArg::Ident(s.to_string());
        AttributeOnContainerAndMember {
            attrs: vec![
                MAttr { directive: "deprecated".into(), args: None, trailing_comma: false },
                MAttr { directive: "deprecated".into(), args: Some(vec![MArg::Str("why".into())]), trailing_comma: false },
                MAttr { directive: "allow".into(), args: Some(vec![id("Deprecated")]), trailing_comma: false },
                MAttr { directive: "compress".into(), args: Some(vec![id("Args")]), trailing_comma: false },
                MAttr { directive: "cs::foreign".into(), args: Some(vec![id("x")]), trailing_comma: false },
            ],
        }
    }
}
const ACM_PLACES: u64 = 9;
impl RuleFamily for AttributeOnContainerAndMember {
    fn name(&self) -> String {
        format!("attribute-on-container-and-member/{} attributes x {} placements of two copies (container + member at every depth, two siblings, file + definition, module + definition) x {{both, twice on the inner one as well}}", self.attrs.len(), ACM_PLACES)
    }
    fn len(&self) -> u64 {
        self.attrs.len() as u64 * ACM_PLACES * 2
    }
    fn get(&self, idx: u64) -> (Program, String) {
        let also_twice = idx % 2 == 1;
        let place = (idx / 2) % ACM_PLACES;
        let a = &self.attrs[(idx / 2 / ACM_PLACES) as usize];
        let one = || vec![a.clone()];
        let inner = || if also_twice { vec![a.clone(), a.clone()] } else { vec![a.clone()] };
        let i32t = || MType::prim("int32");
        let mut f = MFile::module("M");
        let mut s = MStruct { c: MCommon::new("S"), compact: false, fields: vec![MField::new("a", i32t()), MField::new("b", i32t())] };
        let mut i = MInterface { c: MCommon::new("I"), bases: vec![], ops: vec![] };
        let mut o = op("o", vec![MParam::new("p", i32t())], MRet::None);
        let mut e = MEnum { c: MCommon::new("E"), compact: false, unchecked: false, underlying: None, enumerators: vec![MEnumerator { c: MCommon::new("A"), fields: Some(vec![MField::new("x", i32t())]), value: None }, enumerator("B")] };
        match place {
            0 => {
                s.c.attrs = one();
                s.fields[0].c.attrs = inner();
            }
            1 => {
                s.fields[0].c.attrs = one();
                s.fields[1].c.attrs = inner();
            }
            2 => {
                i.c.attrs = one();
                o.c.attrs = inner();
            }
            3 => {
                o.c.attrs = one();
                o.params[0].attrs = inner();
            }
            4 => {
                e.c.attrs = one();
                e.enumerators[0].c.attrs = inner();
            }
            5 => {
                e.enumerators[0].c.attrs = one();
                e.enumerators[0].fields.as_mut().unwrap()[0].c.attrs = inner();
            }
            6 => {
                e.c.attrs = one();
                e.enumerators[0].fields.as_mut().unwrap()[0].c.attrs = inner();
            }
            7 => {
                f.file_attrs = one();
                s.c.attrs = inner();
            }
            _ => {
                f.module.as_mut().unwrap().attrs = one();
                s.c.attrs = inner();
            }
        }
        i.ops.push(o);
        f.defs.extend([MDef::Struct(s), MDef::Interface(i), MDef::Enum(e)]);
        (vec![f], format!("[{}] placement {place}{}", a.directive, if also_twice { " (and twice on the inner element)" } else { "" }))
    }
}

/// "A module declaration before definitions": texts the model cannot express (it has a module or it has none) - the
/// module after a definition, two modules, a file attribute after the module - each alone and next to healthy files.
pub struct ModulePlacement;
/// (text, must be rejected)
const MP_TEXTS: [(&str, bool); 14] = [
    ("struct Q {}\nmodule M\n", true),
    ("struct Q {}\nmodule M\nstruct R {}\n", true),
    ("module M\nstruct A {}\nmodule N\nstruct B {}\n", true),
    ("module M\nmodule M\n", true),
    ("module M\nmodule N\nstruct B {}\n", true),
    ("module M\n[[allow(All)]]\nstruct A {}\n", true),
    ("struct A {}\n[[allow(All)]]\nmodule M\n", true),
    ("custom C\n", true),
    ("typealias T = int32\n[[allow(All)]]\n", true),
    ("[[allow(All)]]\nmodule M\nstruct A {}\n", false),
    ("module M\n", false),
    ("", false),
    ("// only a comment\n\n", false),
    ("[[allow(All)]]\n", false),
];
impl ModulePlacement {
    fn texts(idx: u64) -> (Vec<String>, bool, usize) {
        let (t, reject) = MP_TEXTS[(idx % MP_TEXTS.len() as u64) as usize];
        let healthy = |k: usize| format!("module H{k}\nstruct Fine{k} {{ a: int32 }}\n");
        match idx / MP_TEXTS.len() as u64 {
            0 => (vec![t.to_string()], reject, 0),
            1 => (vec![healthy(1), t.to_string()], reject, 1),
            2 => (vec![t.to_string(), healthy(1)], reject, 0),
            _ => (vec![healthy(1), t.to_string(), healthy(2)], reject, 1),
        }
    }
}
impl Family for ModulePlacement {
    fn name(&self) -> String {
        format!("module-placement/{} texts (module after a definition, two modules, a file attribute after the module or after a definition, definitions without a module; controls: attributes first, a module alone, an empty file, comments only, file attributes only) x alone / behind / before / between healthy files", MP_TEXTS.len())
    }
    fn len(&self) -> u64 {
        MP_TEXTS.len() as u64 * 4
    }
    fn describe(&self, idx: u64) -> Value {
        let (files, reject, at) = Self::texts(idx);
        serde_json::json!({"files": files, "must_be_rejected": reject, "file_in_question": at})
    }
    fn run(&self, idx: u64) -> CaseOut {
        let (files, reject, _) = Self::texts(idx);
        let mut out = CaseOut::new(hash_str(&format!("c04mp{files:?}")));
        out.validated = 1;
        out.nontrivial = reject;
        let refs: Vec<&str> = files.iter().map(|s| s.as_str()).collect();
        let input = || files.join("\n--- next file ---\n");
        match compile_texts(&refs, None) {
            Err((loc, msg)) => out.violate(format!("c04/module-placement/panic@{loc}"), format!("{msg}\n--- input ---\n{}", input())),
            Ok((_, _, diags)) => {
                let errors: Vec<&DiagObs> = diags.iter().filter(|d| d.level == "error").collect();
                if reject && errors.is_empty() {
                    out.violate("c04/module-placement/ill-placed-module-accepted", format!("the file has no module declaration before its first definition (or more than one, or a file attribute behind it) and must be rejected\n--- input ---\n{}", input()));
                }
                if !reject && !errors.is_empty() {
                    out.violate(format!("c04/module-placement/well-formed-file-rejected/{}", errors[0].code), format!("{} {}\n--- input ---\n{}", errors[0].code, errors[0].message, input()));
                }
                out.class = format!("reject={reject}:{}", errors.first().map_or("none", |e| e.code.as_str()));
            }
        }
        out
    }
}

pub fn families(tier: &str) -> Vec<Box<dyn Family>> {
    let mut v: Vec<Box<dyn RuleFamily>> = vec![Box::new(Names), Box::new(Streams), Box::new(Literals), Box::new(EnumBounds), Box::new(Keys::new()), Box::new(Attributes::new()), Box::new(AttributeOnContainerAndMember::new()), Box::new(Tags), Box::new(Pairs { depth: 2 }), Box::new(InheritedOperations)];
    if tier != "quick" {
        v.push(Box::new(Pairs { depth: 3 }));
    }
    let mut out: Vec<Box<dyn Family>> = v.into_iter().map(|f| Box::new(RuleCheck { inner: f }) as Box<dyn Family>).collect();
    out.push(Box::new(ModulePlacement));
    out
}
