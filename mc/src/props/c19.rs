//! C19 — generator specifications parse back to the path and arguments that were written.
//!
//! The real parser is reached through the real command line definition:
//! `SliceOptions::try_parse_from(["slicec", "-G", s])`.

use crate::engine::*;
use crate::util::*;
use clap::Parser;
use serde_json::{json, Value};
use slicec::slice_options::SliceOptions;

pub type Spec = (String, Vec<(String, String)>);

/// Reference parser, written from the statement: split at unescaped ','; one trailing comma is ignored; in an
/// argument the first unescaped '=' splits key and value and a second one rejects; '\,' and '\=' are literal
/// ',' and '='; any other backslash is literal; components are trimmed; empty path / key / string rejects.
/// White space as the Unicode property White_Space lists it (written out, not taken from the standard library).
fn is_ws(c: char) -> bool {
    matches!(c as u32, 0x09..=0x0D | 0x20 | 0x85 | 0xA0 | 0x1680 | 0x2000..=0x200A | 0x2028 | 0x2029 | 0x202F | 0x205F | 0x3000)
}
fn ws_trim(s: &str) -> String {
    let v: Vec<char> = s.chars().collect();
    let a = v.iter().position(|c| !is_ws(*c)).unwrap_or(v.len());
    let b = v.iter().rposition(|c| !is_ws(*c)).map_or(a, |i| i + 1);
    v[a..b].iter().collect()
}

pub fn ref_parse(s: &str) -> Result<Spec, ()> {
    if s.is_empty() {
        return Err(());
    }
    #[derive(PartialEq)]
    enum Tok {
        Lit(char),
        Comma,
        Eq,
    }
    let chars: Vec<char> = s.chars().collect();
    let mut toks = vec![];
    let mut i = 0;
    while i < chars.len() {
        let c = chars[i];
        if c == '\\' && i + 1 < chars.len() && (chars[i + 1] == ',' || chars[i + 1] == '=') {
            toks.push(Tok::Lit(chars[i + 1]));
            i += 2;
            continue;
        }
        toks.push(match c {
            ',' => Tok::Comma,
            '=' => Tok::Eq,
            c => Tok::Lit(c),
        });
        i += 1;
    }
    // one trailing comma is ignored
    if toks.last() == Some(&Tok::Comma) {
        toks.pop();
    }
    let mut segments: Vec<Vec<Tok>> = vec![vec![]];
    for t in toks {
        if t == Tok::Comma {
            segments.push(vec![]);
        } else {
            segments.last_mut().unwrap().push(t);
        }
    }
    let mut it = segments.into_iter();
    let path: String = it
        .next()
        .unwrap()
        .into_iter()
        .map(|t| match t {
            Tok::Lit(c) => c,
            Tok::Eq => '=', // '=' has no special meaning in the path
            Tok::Comma => unreachable!(),
        })
        .collect();
    let path = ws_trim(&path);
    if path.is_empty() {
        return Err(());
    }
    let mut args = vec![];
    for seg in it {
        let mut key = String::new();
        let mut value = String::new();
        let mut seen_eq = false;
        for t in seg {
            match t {
                Tok::Eq if seen_eq => return Err(()),
                Tok::Eq => seen_eq = true,
                Tok::Lit(c) => {
                    if seen_eq {
                        value.push(c)
                    } else {
                        key.push(c)
                    }
                }
                Tok::Comma => unreachable!(),
            }
        }
        let key = ws_trim(&key);
        if key.is_empty() {
            return Err(());
        }
        args.push((key, ws_trim(&value)));
    }
    Ok((path, args))
}

/// The escaping function of the statement: every ',' and '=' inside a component is preceded by a backslash.
pub fn escape(component: &str) -> String {
    let mut o = String::new();
    for c in component.chars() {
        if c == ',' || c == '=' {
            o.push('\\');
        }
        o.push(c);
    }
    o
}

pub fn render(path: &str, args: &[(String, String)], key_only_when_empty: bool, trailing_comma: bool) -> String {
    let mut s = escape(path);
    for (k, v) in args {
        s.push(',');
        s.push_str(&escape(k));
        if !(v.is_empty() && key_only_when_empty) {
            s.push('=');
            s.push_str(&escape(v));
        }
    }
    if trailing_comma {
        s.push(',');
    }
    s
}

pub enum RealOutcome {
    Accepted(Vec<Spec>),
    Rejected(String),
}

/// Run the real command-line parser with the given -G values.
pub fn real_parse(specs: &[&str]) -> Result<RealOutcome, (String, String)> {
    guarded(|| {
        let mut argv: Vec<String> = vec!["slicec".into()];
        for s in specs {
            // (a value that starts with '-' has to be attached to the option, as with every command line: it is an
            // option otherwise)
            if s.starts_with('-') {
                argv.push(format!("--generator={s}"));
            } else {
                argv.push("-G".into());
                argv.push(s.to_string());
            }
        }
        match SliceOptions::try_parse_from(argv) {
            Ok(o) => RealOutcome::Accepted(o.generators.iter().map(|p| (p.path.clone(), p.args.clone())).collect()),
            Err(e) => RealOutcome::Rejected(format!("{:?}", e.kind())),
        }
    })
}

fn compare(s: &str, out: &mut CaseOut, fam: &str) -> &'static str {
    out.steps += 1;
    let exp = ref_parse(s);
    match real_parse(&[s]) {
        Err((loc, msg)) => {
            out.violate(format!("{fam}/panic@{loc}"), format!("--generator {s:?} panicked at {loc}: {msg}"));
            "panic"
        }
        Ok(RealOutcome::Accepted(v)) => match exp {
            Ok(e) => {
                if v.len() != 1 || v[0] != e {
                    out.violate(format!("{fam}/parsed-differently"), format!("--generator {s:?} parsed as {v:?} but the syntax says {e:?}"));
                }
                "accept"
            }
            Err(()) => {
                out.violate(format!("{fam}/accepted-invalid"), format!("--generator {s:?} was accepted as {v:?} but must be rejected (empty path, empty key or second unescaped '=')"));
                "accept"
            }
        },
        Ok(RealOutcome::Rejected(kind)) => {
            if let Ok(e) = exp {
                out.violate(format!("{fam}/rejected-valid"), format!("--generator {s:?} was rejected ({kind}) but the syntax says {e:?}"));
            }
            "reject"
        }
    }
}

/// All strings of length <= n over an alphabet.
pub struct AllStrings {
    pub alphabet: Vec<char>,
    pub max_len: usize,
    pub chunk_len: usize, // a case = all strings sharing a prefix of (len - chunk_len) chars
}
impl AllStrings {
    fn total_prefixes(&self) -> u64 {
        // prefixes of every length 0..=max_len-chunk_len; a case expands its prefix with every suffix of length
        // exactly chunk_len (for the longest prefixes: 0..=chunk_len so that shorter strings are covered once)
        let a = self.alphabet.len() as u64;
        let p = self.max_len - self.chunk_len;
        a.pow(p as u32)
    }
    fn prefix(&self, mut idx: u64) -> String {
        let a = self.alphabet.len() as u64;
        let p = self.max_len - self.chunk_len;
        let mut s = String::new();
        for _ in 0..p {
            s.push(self.alphabet[(idx % a) as usize]);
            idx /= a;
        }
        s
    }
}
impl Family for AllStrings {
    fn name(&self) -> String {
        format!("all-strings/len<={}/alphabet {:?}", self.max_len, self.alphabet.iter().collect::<String>())
    }
    fn len(&self) -> u64 {
        self.total_prefixes() + 1
    }
    fn describe(&self, idx: u64) -> Value {
        if idx == self.total_prefixes() {
            json!({"strings": format!("all strings shorter than {}", self.max_len - self.chunk_len)})
        } else {
            json!({"strings": format!("{:?} followed by every suffix of length 0..={}", self.prefix(idx), self.chunk_len)})
        }
    }
    fn run(&self, idx: u64) -> CaseOut {
        let mut out = CaseOut::new(hash_str(&format!("c19-{}-{}-{idx}", self.alphabet.len(), self.max_len)));
        out.steps = 0;
        out.validated = 1;
        out.nontrivial = true;
        let fam = "c19/strings";
        let (mut acc, mut rej) = (0, 0);
        let mut visit = |s: &str, out: &mut CaseOut| match compare(s, out, fam) {
            "accept" => acc += 1,
            _ => rej += 1,
        };
        if idx == self.total_prefixes() {
            let p = self.max_len - self.chunk_len;
            let mut layer = vec![String::new()];
            visit("", &mut out);
            for _ in 1..p {
                let mut next = vec![];
                for s in &layer {
                    for c in &self.alphabet {
                        let mut t = s.clone();
                        t.push(*c);
                        visit(&t, &mut out);
                        next.push(t);
                    }
                }
                layer = next;
            }
        } else {
            let prefix = self.prefix(idx);
            let mut layer = vec![prefix];
            for s in &layer {
                visit(s, &mut out);
            }
            for _ in 0..self.chunk_len {
                let mut next = vec![];
                for s in &layer {
                    for c in &self.alphabet {
                        let mut t = s.clone();
                        t.push(*c);
                        visit(&t, &mut out);
                        next.push(t);
                    }
                }
                layer = next;
            }
        }
        let mut seen = std::collections::HashSet::new();
        out.violations.retain(|v| seen.insert(v.sig.clone()));
        out.class = format!("accepted-bucket-{}", if acc == 0 { 0 } else { 1 + (acc * 4 / (acc + rej)) });
        out
    }
}

/// Round trip: every (path, args) with bounded components rendered through the escaping function.
pub struct RoundTrip {
    components: Vec<String>,
    pub max_args: usize,
}
impl RoundTrip {
    pub fn new(max_args: usize) -> Self {
        let alpha = ['a', ',', '=', ' ', 'é', '\\'];
        let mut comps = vec![];
        for a in alpha {
            comps.push(a.to_string());
            for b in alpha {
                comps.push(format!("{a}{b}"));
            }
        }
        // components must not end in a backslash (the syntax cannot express that)
        comps.retain(|c| !c.ends_with('\\'));
        comps.push("a b".into());
        comps.push(" a ".into());
        comps.push("\\a".into());
        comps.push("/x/y-z.exe".into());
        RoundTrip { components: comps, max_args }
    }
    fn nonblank(&self) -> Vec<&String> {
        self.components.iter().filter(|c| !c.trim().is_empty()).collect()
    }
}
impl Family for RoundTrip {
    fn name(&self) -> String {
        format!("round-trip/path x <= {} args, components = all strings len<=2 over {{a , = space é \\}} not ending in a backslash", self.max_args)
    }
    fn len(&self) -> u64 {
        // one case per (path, first key) pair; values and further args enumerated inside
        let n = self.nonblank().len() as u64;
        n * (n + 1)
    }
    fn describe(&self, idx: u64) -> Value {
        let nb = self.nonblank();
        let n = nb.len() as u64;
        let path = nb[(idx % n) as usize];
        let k = idx / n;
        json!({"path": path, "first_key": if k == 0 { Value::Null } else { json!(nb[(k - 1) as usize]) }, "then": "every value (incl. empty, written with and without '='), every second argument, trailing comma on/off"})
    }
    fn run(&self, idx: u64) -> CaseOut {
        let nb = self.nonblank();
        let n = nb.len() as u64;
        let path = nb[(idx % n) as usize].clone();
        let k = idx / n;
        let mut out = CaseOut::new(hash_str(&format!("c19rt{idx}")));
        out.steps = 0;
        out.validated = 1;
        out.nontrivial = path.contains(',') || path.contains('=') || k > 0;
        out.class = if k == 0 { "path-only".into() } else { "with-args".into() };
        let fam = "c19/round-trip";
        let mut check = |args: Vec<(String, String)>, out: &mut CaseOut| {
            for key_only in [false, true] {
                for trailing in [false, true] {
                    let s = render(&path, &args, key_only, trailing);
                    if trailing && s.ends_with("\\,") {
                        continue;
                    }
                    let expected: Spec = (path.trim().to_string(), args.iter().map(|(k, v)| (k.trim().to_string(), v.trim().to_string())).collect());
                    out.steps += 1;
                    match real_parse(&[&s]) {
                        Err((loc, msg)) => out.violate(format!("{fam}/panic@{loc}"), format!("--generator {s:?}: panic {msg}")),
                        Ok(RealOutcome::Accepted(v)) => {
                            if v.len() != 1 || v[0] != expected {
                                out.violate(format!("{fam}/parsed-differently"), format!("({path:?}, {args:?}) written as {s:?} parsed back as {v:?}"));
                            }
                        }
                        Ok(RealOutcome::Rejected(kind)) => out.violate(format!("{fam}/rejected-valid"), format!("({path:?}, {args:?}) written as {s:?} was rejected: {kind}")),
                    }
                }
            }
        };
        if k == 0 {
            check(vec![], &mut out);
        } else {
            let key = nb[(k - 1) as usize].clone();
            let mut values: Vec<String> = self.components.clone();
            values.push(String::new());
            for v in &values {
                check(vec![(key.clone(), v.clone())], &mut out);
            }
            if self.max_args >= 2 {
                // second (and third) argument from a reduced component set
                let reduced: Vec<String> = ["a", ",", "=", " a", "é=", "\\a", "a,"].iter().map(|s| s.to_string()).collect();
                for k2 in &reduced {
                    for v2 in reduced.iter().chain(std::iter::once(&String::new())) {
                        check(vec![(key.clone(), "v".into()), (k2.clone(), v2.clone())], &mut out);
                        if self.max_args >= 3 {
                            check(vec![(key.clone(), "".into()), (k2.clone(), v2.clone()), ("z".into(), k2.clone())], &mut out);
                        }
                    }
                }
            }
        }
        let mut seen = std::collections::HashSet::new();
        out.violations.retain(|v| seen.insert(v.sig.clone()));
        out
    }
}

/// Pairs of -G options: order and independence.
pub struct Pairs {
    strings: Vec<String>,
}
impl Pairs {
    pub fn new() -> Self {
        let alpha = ['a', ',', '=', '\\', ' '];
        let mut v = vec![];
        for a in alpha {
            v.push(a.to_string());
            for b in alpha {
                v.push(format!("{a}{b}"));
                v.push(format!("a{a}{b}"));
            }
        }
        v.push("g,k=v".into());
        Pairs { strings: v }
    }
}
impl Family for Pairs {
    fn name(&self) -> String {
        "repeated -G/all ordered pairs of short specifications".into()
    }
    fn len(&self) -> u64 {
        (self.strings.len() * self.strings.len()) as u64
    }
    fn describe(&self, idx: u64) -> Value {
        let n = self.strings.len() as u64;
        json!({"argv": ["slicec", "-G", self.strings[(idx % n) as usize], "-G", self.strings[(idx / n) as usize]]})
    }
    fn run(&self, idx: u64) -> CaseOut {
        let n = self.strings.len() as u64;
        let (a, b) = (&self.strings[(idx % n) as usize], &self.strings[(idx / n) as usize]);
        let mut out = CaseOut::new(hash_str(&format!("c19p{a}|{b}")));
        out.validated = 1;
        let (ea, eb) = (ref_parse(a), ref_parse(b));
        out.nontrivial = ea.is_ok() && eb.is_ok();
        let fam = "c19/pairs";
        match real_parse(&[a, b]) {
            Err((loc, msg)) => out.violate(format!("{fam}/panic@{loc}"), format!("-G {a:?} -G {b:?}: panic {msg}")),
            Ok(RealOutcome::Accepted(v)) => {
                out.class = "accept".into();
                match (ea, eb) {
                    (Ok(x), Ok(y)) => {
                        if v != vec![x.clone(), y.clone()] {
                            out.violate(format!("{fam}/parsed-differently"), format!("-G {a:?} -G {b:?} gave {v:?}, expected [{x:?}, {y:?}] in this order"));
                        }
                    }
                    _ => out.violate(format!("{fam}/accepted-invalid"), format!("-G {a:?} -G {b:?} accepted as {v:?} although one specification is invalid")),
                }
            }
            Ok(RealOutcome::Rejected(kind)) => {
                out.class = "reject".into();
                if ea.is_ok() && eb.is_ok() {
                    out.violate(format!("{fam}/rejected-valid"), format!("-G {a:?} -G {b:?} rejected: {kind}"));
                }
            }
        }
        out
    }
}


/// Through the real binary: the arguments must reach each generator unchanged, in order, after the shared request.
pub struct ThroughBinary {
    lists: Vec<Vec<(String, String)>>,
}
impl ThroughBinary {
    pub fn new(tier: &str) -> Self {
        let t = |v: &[(&str, &str)]| -> Vec<(String, String)> { v.iter().map(|(k, v)| (k.to_string(), v.to_string())).collect() };
        let mut lists = vec![
            t(&[]),
            t(&[("k", "v")]),
            t(&[("k", "")]),
            t(&[("b", "2"), ("a", "1")]),
            t(&[("a", "1"), ("b", "2"), ("c", "3")]),
            // a key given more than once: every occurrence reaches the generator, in order
            t(&[("k", "1"), ("k", "2")]),
            t(&[("inc", "a"), ("def", "x"), ("inc", "b")]),
            t(&[("k", "v"), ("k", "v")]),
            t(&[("k", ""), ("k", "")]),
            // characters that need escaping, non-ASCII, inner blanks, backslashes
            t(&[("a,b", "c=d")]),
            t(&[("=", ",")]),
            t(&[("é", "日本 語")]),
            t(&[("a b", "c  d")]),
            t(&[("\\a", "b\\c")]),
            t(&[("k", "v=,w"), ("k2", ",")]),
            // empty and long values
            t(&[("a", ""), ("b", ""), ("c", "")]),
        ];
        lists.push(vec![("long".to_string(), "x".repeat(70)), ("l2".to_string(), "y".repeat(17000))]);
        if tier != "quick" {
            // all ordered key lists of length <= 3 over {a, b} with values numbered by position
            for n in 1..=3usize {
                for m in 0..(1u32 << n) {
                    lists.push((0..n).map(|i| (if (m >> i) & 1 == 0 { "a" } else { "b" }.to_string(), format!("v{i}"))).collect());
                }
            }
        }
        ThroughBinary { lists }
    }
}
impl Family for ThroughBinary {
    fn name(&self) -> String {
        format!("through-the-binary/{} argument lists (0..3 arguments, repeated keys, escaped / non-ASCII / long components) x every list as the second generator's, capturing generators", self.lists.len())
    }
    fn len(&self) -> u64 {
        (self.lists.len() * self.lists.len()) as u64
    }
    fn hang_secs(&self) -> f64 {
        120.0
    }
    fn describe(&self, idx: u64) -> Value {
        let n = self.lists.len() as u64;
        json!({"generator_0_arguments": self.lists[(idx % n) as usize], "generator_1_arguments": self.lists[(idx / n) as usize]})
    }
    fn run(&self, idx: u64) -> CaseOut {
        use crate::proc::{encode_arguments, encode_reply, gen_spec, request_has_operation_name, run, Gen, Install, Node, Scenario, Script, Step};
        let n = self.lists.len() as u64;
        let lists = [&self.lists[(idx % n) as usize], &self.lists[(idx / n) as usize]];
        let mut out = CaseOut::new(hash_str(&format!("c19bin{idx}")));
        out.validated = 1;
        out.nontrivial = !lists[0].is_empty() || !lists[1].is_empty();
        let fam = "c19/binary";
        let mut sc = Scenario::default();
        sc.tree.push(("a.slice".into(), Node::File(b"module M\nstruct S { x: int32 }\n".to_vec())));
        sc.argv.push("a.slice".into());
        for (gi, l) in lists.iter().enumerate() {
            sc.gens.push(Gen { name: format!("g{gi}"), install: Install::Script(Script(vec![Step::ReadAll, Step::Stdout(encode_reply(&[], &[])), Step::Exit(0)])) });
            sc.argv.push("-G".into());
            sc.argv.push(gen_spec(&format!("{{gen{gi}}}"), l));
        }
        let o = run(&sc, std::time::Duration::from_secs(30));
        let desc = || format!("argv {:?}\nexit {:?} stderr {}", sc.argv, o.exit_code, o.stderr_text());
        if o.timed_out || o.signal.is_some() || o.panic_location().is_some() {
            out.violate(format!("{fam}/crash-or-hang"), desc());
            return out;
        }
        if o.exit_code != Some(0) {
            out.violate(format!("{fam}/valid-specification-not-accepted"), desc());
            return out;
        }
        let mut prefixes: Vec<Vec<u8>> = vec![];
        for (gi, l) in lists.iter().enumerate() {
            let Some(stdin) = o.gens.get(gi).and_then(|g| g.stdin.clone()) else {
                out.violate(format!("{fam}/generator-not-run"), desc());
                return out;
            };
            let suffix = encode_arguments(l);
            if stdin.len() < suffix.len() || stdin[stdin.len() - suffix.len()..] != suffix[..] {
                let tail = &stdin[stdin.len().saturating_sub(suffix.len() + 8)..];
                out.violate(
                    format!("{fam}/arguments-changed-on-the-way-to-the-generator"),
                    format!("generator {gi} was given {l:?}; its stdin must end with {} but ends with {}\n{}", crate::proc::hex(&suffix[..suffix.len().min(200)]), crate::proc::hex(&tail[..tail.len().min(200)]), desc()),
                );
                return out;
            }
            prefixes.push(stdin[..stdin.len() - suffix.len()].to_vec());
        }
        if prefixes[0] != prefixes[1] || !request_has_operation_name(&prefixes[0]) {
            out.violate(format!("{fam}/request-prefix-differs-between-generators"), desc());
        }
        out.class = format!("args{}+{}", lists[0].len().min(3), lists[1].len().min(3));
        out
    }
}


/// The arguments of a generator that cannot be started must not reach the generators configured after (or before)
/// it: every generator that does start receives the shared request followed by its own arguments and nothing else.
pub struct AmongFailingGenerators {
    lists: Vec<Vec<(String, String)>>,
}
impl AmongFailingGenerators {
    pub fn new() -> Self {
        let t = |v: &[(&str, &str)]| -> Vec<(String, String)> { v.iter().map(|(k, v)| (k.to_string(), v.to_string())).collect() };
        AmongFailingGenerators { lists: vec![t(&[]), t(&[("k", "v")]), t(&[("k", "1"), ("k", "2")]), t(&[("a,b", "c=d"), ("é", "")])] }
    }
}
const AF_KINDS: [&str; 3] = ["missing executable", "file without the executable bit", "a directory"];
impl Family for AmongFailingGenerators {
    fn name(&self) -> String {
        "among-failing-generators/three -G options, one of which cannot be started (missing, not executable, a directory) at position 0 / 1 / 2 x 4 argument lists for it x 4 x 4 argument lists for the two capturing generators".into()
    }
    fn len(&self) -> u64 {
        3 * 3 * 4 * 16
    }
    fn hang_secs(&self) -> f64 {
        120.0
    }
    fn describe(&self, idx: u64) -> Value {
        let (kind, pos, fl, a, b) = (idx % 3, (idx / 3) % 3, (idx / 9) % 4, (idx / 36) % 4, idx / 144);
        json!({"generator_that_cannot_start": AF_KINDS[kind as usize], "its_position": pos, "its_arguments": self.lists[fl as usize], "arguments_of_the_capturing_generators": [self.lists[a as usize].clone(), self.lists[b as usize].clone()]})
    }
    fn run(&self, idx: u64) -> CaseOut {
        use crate::proc::{encode_arguments, encode_reply, gen_spec, request_has_operation_name, run, Gen, Install, Node, Scenario, Script, Step};
        let (kind, pos, fl, a, b) = (idx % 3, ((idx / 3) % 3) as usize, (idx / 9) % 4, (idx / 36) % 4, idx / 144);
        let own = [&self.lists[a as usize], &self.lists[b as usize]];
        let mut out = CaseOut::new(hash_str(&format!("c19af{idx}")));
        out.validated = 1;
        out.nontrivial = true;
        let fam = "c19/among-failing-generators";
        let mut sc = Scenario::default();
        sc.tree.push(("a.slice".into(), Node::File(b"module M\nstruct S { x: int32 }\n".to_vec())));
        sc.argv.push("a.slice".into());
        sc.gens.push(Gen { name: "g0".into(), install: Install::Script(Script(vec![Step::ReadAll, Step::Stdout(encode_reply(&[], &[])), Step::Exit(0)])) });
        sc.gens.push(Gen { name: "g1".into(), install: Install::Script(Script(vec![Step::ReadAll, Step::Stdout(encode_reply(&[], &[])), Step::Exit(0)])) });
        let failing_path = match kind {
            0 => {
                sc.gens.push(Gen { name: "nowhere".into(), install: Install::Missing });
                "{gen2}".to_string()
            }
            1 => {
                sc.gens.push(Gen { name: "plainfile".into(), install: Install::NotExecutable });
                "{gen2}".to_string()
            }
            _ => {
                sc.tree.push(("adir".into(), Node::Dir));
                "{work}/adir".to_string()
            }
        };
        let mut specs = vec![gen_spec("{gen0}", own[0]), gen_spec("{gen1}", own[1])];
        specs.insert(pos, gen_spec(&failing_path, &self.lists[fl as usize]));
        for sp in specs {
            sc.argv.push("-G".into());
            sc.argv.push(sp);
        }
        let o = run(&sc, std::time::Duration::from_secs(30));
        let desc = || format!("argv {:?}\nexit {:?} stderr {}", sc.argv, o.exit_code, o.stderr_text());
        if o.timed_out || o.signal.is_some() || o.panic_location().is_some() {
            out.violate(format!("{fam}/crash-or-hang"), desc());
            return out;
        }
        let mut prefixes: Vec<Vec<u8>> = vec![];
        for (gi, l) in own.iter().enumerate() {
            let Some(stdin) = o.gens.get(gi).and_then(|g| g.stdin.clone()) else {
                out.violate(format!("{fam}/generator-not-run"), desc());
                return out;
            };
            let suffix = encode_arguments(l);
            if stdin.len() < suffix.len() || stdin[stdin.len() - suffix.len()..] != suffix[..] {
                let tail = &stdin[stdin.len().saturating_sub(suffix.len() + 8)..];
                out.violate(format!("{fam}/arguments-changed-on-the-way-to-the-generator"), format!("capturing generator {gi} was given {l:?}; its stdin must end with {} but ends with {}\n{}", crate::proc::hex(&suffix[..suffix.len().min(200)]), crate::proc::hex(&tail[..tail.len().min(200)]), desc()));
                return out;
            }
            prefixes.push(stdin[..stdin.len() - suffix.len()].to_vec());
        }
        // what precedes the own arguments is the request, and only the request: the same bytes for both, and the same
        // bytes as when no other generator is configured (the request ends with the sequence of reference files, here
        // empty, so anything appended to it shows as a longer prefix)
        if prefixes[0] != prefixes[1] || !request_has_operation_name(&prefixes[0]) {
            out.violate(format!("{fam}/foreign-bytes-between-the-request-and-the-arguments"), format!("the bytes before the own arguments differ between the two capturing generators ({} and {} bytes)\n{}", prefixes[0].len(), prefixes[1].len(), desc()));
        }
        static ALONE: std::sync::OnceLock<Vec<u8>> = std::sync::OnceLock::new();
        let alone = ALONE.get_or_init(|| {
            let mut one = Scenario::default();
            one.tree.push(("a.slice".into(), Node::File(b"module M\nstruct S { x: int32 }\n".to_vec())));
            one.gens.push(Gen { name: "g0".into(), install: Install::Script(Script(vec![Step::ReadAll, Step::Stdout(encode_reply(&[], &[])), Step::Exit(0)])) });
            one.argv = vec!["a.slice".into(), "-G".into(), "{gen0}".into()];
            let o = run(&one, std::time::Duration::from_secs(30));
            let stdin = o.gens.get(0).and_then(|g| g.stdin.clone()).unwrap_or_default();
            let suffix = encode_arguments(&[]);
            stdin[..stdin.len().saturating_sub(suffix.len())].to_vec()
        });
        if !alone.is_empty() && prefixes[0] != *alone {
            out.violate(format!("{fam}/foreign-bytes-between-the-request-and-the-arguments"), format!("the bytes before the own arguments ({} bytes) are not the request the same input gives with a single generator ({} bytes)\n{}", prefixes[0].len(), alone.len(), desc()));
        }
        out.class = format!("{}@{pos}:exit{:?}", AF_KINDS[kind as usize], o.exit_code);
        out
    }
}

/// Rejected specifications through the real binary: a usage error (exit status 2, a message on stderr, nothing
/// compiled or generated), never a crash and never acceptance.
pub struct RejectedThroughBinary {
    strings: Vec<String>,
}
impl RejectedThroughBinary {
    pub fn new(max_len: usize) -> Self {
        let alpha = ['a', ' ', ',', '=', '\\'];
        let mut all = vec![String::new()];
        let mut frontier = vec![String::new()];
        for _ in 0..max_len {
            let mut next = vec![];
            for f in &frontier {
                for c in alpha {
                    next.push(format!("{f}{c}"));
                }
            }
            all.extend(next.iter().cloned());
            frontier = next;
        }
        RejectedThroughBinary { strings: all.into_iter().filter(|s| ref_parse(s).is_err()).collect() }
    }
}
impl Family for RejectedThroughBinary {
    fn name(&self) -> String {
        format!("rejected-through-the-binary/all {} strings of the short alphabet that the reference rejects (incl. the empty string), alone and after a valid -G", self.strings.len())
    }
    fn len(&self) -> u64 {
        self.strings.len() as u64 * 2
    }
    fn hang_secs(&self) -> f64 {
        120.0
    }
    fn describe(&self, idx: u64) -> Value {
        json!({"generator_value": self.strings[(idx / 2) as usize], "after_a_valid_one": idx % 2 == 1})
    }
    fn run(&self, idx: u64) -> CaseOut {
        use crate::proc::{encode_reply, run, Gen, Install, Node, Scenario, Script, Step};
        let bad = &self.strings[(idx / 2) as usize];
        let mut out = CaseOut::new(hash_str(&format!("c19rej{idx}")));
        out.validated = 1;
        out.nontrivial = true;
        let fam = "c19/binary-rejected";
        let mut sc = Scenario::default();
        sc.tree.push(("a.slice".into(), Node::File(b"module M\nstruct S { x: int32 }\n".to_vec())));
        sc.gens.push(Gen { name: "g0".into(), install: Install::Script(Script(vec![Step::ReadAll, Step::Stdout(encode_reply(&[], &[])), Step::Exit(0)])) });
        sc.argv.push("a.slice".into());
        if idx % 2 == 1 {
            sc.argv.push("-G".into());
            sc.argv.push("{gen0},k=v".into());
        }
        // `-G=<value>` so that a value starting with '-' or an empty value cannot be taken for something else
        sc.argv.push(format!("--generator={bad}"));
        let o = run(&sc, std::time::Duration::from_secs(30));
        let desc = || format!("argv {:?}\nexit {:?} signal {:?}\nstderr {}", sc.argv, o.exit_code, o.signal, truncate(&o.stderr_text(), 500));
        if o.timed_out || o.signal.is_some() || o.panic_location().is_some() {
            out.violate(format!("{fam}/crash-or-hang"), desc());
            return out;
        }
        if o.exit_code != Some(2) {
            out.violate(format!("{fam}/not-a-usage-error"), format!("an invalid generator specification must be a usage error (exit status 2)\n{}", desc()));
        }
        if o.stderr.is_empty() {
            out.violate(format!("{fam}/no-message"), desc());
        }
        if o.gens.iter().any(|g| g.started > 0) {
            out.violate(format!("{fam}/generator-ran-despite-usage-error"), desc());
        }
        out.class = format!("exit{:?}", o.exit_code);
        out
    }
}


// ------------------------------------------------------------------------------------------------------------
// One character at a time through every role: no character but ',', '=' and the backslash before them is special,
// letters keep their case, white space is what Unicode says it is.

pub struct CharacterSweep {
    chars: Vec<char>,
}
impl CharacterSweep {
    pub fn new() -> Self {
        let mut chars: Vec<char> = (1u32..=0x7F).filter_map(char::from_u32).collect();
        for c in [
            0x80u32, 0x85, 0xA0, 0xAD, 0xC9, 0xDF, 0x130, 0x131, 0x17F, 0x1C5, 0x301, 0x3A3, 0x3C2, 0x1680, 0x180E, 0x2000, 0x200A, 0x200B, 0x2028, 0x2029, 0x202F, 0x205F, 0x2060, 0x3000, 0xFB01, 0xFEFF, 0xFF0C, 0xFF1D, 0xFF3C, 0xFFFD, 0x1F600, 0x10FFFF,
        ] {
            chars.push(char::from_u32(c).unwrap());
        }
        CharacterSweep { chars }
    }
}
impl Family for CharacterSweep {
    fn name(&self) -> String {
        format!("character-sweep/{} characters (all of U+0001..U+007F, upper-case and special-casing letters, every kind of white space and look-alike, full-width ',' '=' and backslash, astral characters) in 14 specification shapes (alone, inside / around path, key and value, after a backslash, next to each separator)", self.chars.len())
    }
    fn len(&self) -> u64 {
        self.chars.len() as u64
    }
    fn describe(&self, idx: u64) -> Value {
        json!({"character": format!("U+{:04X}", self.chars[idx as usize] as u32)})
    }
    fn run(&self, idx: u64) -> CaseOut {
        let c = self.chars[idx as usize];
        let mut out = CaseOut::new(hash_str(&format!("sweep{idx}")));
        out.steps = 0;
        out.validated = 1;
        out.nontrivial = true;
        let shapes = [
            format!("{c}"),
            format!("a{c}"),
            format!("{c}a"),
            format!("a{c}b"),
            format!("a,{c}"),
            format!("a,{c}={c}"),
            format!("a,k={c}"),
            format!("a,k{c}K=v{c}V"),
            format!("\\{c},k"),
            format!("a,\\{c}=x"),
            format!("a{c},{c}k{c}={c}v{c},"),
            format!("{c}a b{c},{c}k k{c}={c}v v{c}"),
            format!("a,k=v{c},{c}"),
            format!("a,{c}{c},k"),
        ];
        let mut classes = std::collections::BTreeSet::new();
        for s in &shapes {
            classes.insert(compare(s, &mut out, "c19/character-sweep"));
        }
        dedup(&mut out);
        out.class = classes.into_iter().collect::<Vec<_>>().join("+");
        out
    }
}
fn dedup(out: &mut CaseOut) {
    let mut seen = std::collections::HashSet::new();
    out.violations.retain(|v| seen.insert(v.sig.clone()));
}

// ------------------------------------------------------------------------------------------------------------
// The option in every form clap offers, with a source file before and after it: one -G takes one value.

pub struct ArgvForms {
    specs: Vec<String>,
}
impl ArgvForms {
    pub fn new() -> Self {
        let mut specs: Vec<String> = vec![];
        for s in ["g", "g,k", "g,k=v", "g,k=v,", "g,K=V,Lang=CS", "dir/g x,a\\,b=c\\=d", " g , k = v ", "g,k=v,k=w", "./g,-k=-v", "g,é=日本"] {
            specs.push(s.to_string());
        }
        ArgvForms { specs }
    }
}
impl Family for ArgvForms {
    fn name(&self) -> String {
        format!("argv-forms/{} accepted specifications x 6 ways of writing the option (-G V, --generator V, --generator=V, -GV, -G=V; once, and twice with different values) x a source file before, after and on both sides", self.specs.len())
    }
    fn len(&self) -> u64 {
        self.specs.len() as u64 * 6 * 3
    }
    fn describe(&self, idx: u64) -> Value {
        json!({"argv": self.argv(idx).0})
    }
    fn run(&self, idx: u64) -> CaseOut {
        let (argv, exp_gens, exp_sources) = self.argv(idx);
        let mut out = CaseOut::new(hash_str(&format!("argvforms{idx}")));
        out.validated = 1;
        out.nontrivial = true;
        let r = guarded(|| SliceOptions::try_parse_from(argv.clone()).map(|o| (o.generators.iter().map(|p| (p.path.clone(), p.args.clone())).collect::<Vec<Spec>>(), o.sources.clone())).map_err(|e| format!("{:?}", e.kind())));
        match r {
            Err((loc, msg)) => out.violate(format!("c19/argv-forms/panic@{loc}"), format!("{argv:?} panicked at {loc}: {msg}")),
            Ok(Err(kind)) => out.violate("c19/argv-forms/rejected-valid", format!("{argv:?} was rejected ({kind}); expected generators {exp_gens:?} and sources {exp_sources:?}")),
            Ok(Ok((gens, sources))) => {
                if gens != exp_gens {
                    out.violate("c19/argv-forms/parsed-differently", format!("{argv:?}: generators {gens:?}, expected {exp_gens:?}"));
                }
                if sources != exp_sources {
                    out.violate("c19/argv-forms/sources-differ", format!("{argv:?}: sources {sources:?}, expected {exp_sources:?} (one -G takes exactly one value)"));
                }
            }
        }
        out.class = format!("form{}", (idx / 3) % 6);
        out
    }
}
impl ArgvForms {
    fn argv(&self, idx: u64) -> (Vec<String>, Vec<Spec>, Vec<String>) {
        let place = idx % 3;
        let form = (idx / 3) % 6;
        let si = (idx / 18) as usize;
        let s = &self.specs[si];
        let s2 = &self.specs[(si + 3) % self.specs.len()];
        let mut argv: Vec<String> = vec!["slicec".into()];
        let mut sources = vec![];
        if place != 1 {
            argv.push("before.slice".into());
            sources.push("before.slice".to_string());
        }
        let mut gens = vec![ref_parse(s).expect("valid specification")];
        match form {
            0 => argv.extend(["-G".to_string(), s.clone()]),
            1 => argv.extend(["--generator".to_string(), s.clone()]),
            2 => argv.push(format!("--generator={s}")),
            3 => argv.push(format!("-G{s}")),
            4 => argv.push(format!("-G={s}")),
            _ => {
                argv.extend(["-G".to_string(), s.clone(), "--generator".to_string(), s2.clone()]);
                gens.push(ref_parse(s2).expect("valid specification"));
            }
        }
        if place != 0 {
            argv.push("after.slice".into());
            sources.push("after.slice".to_string());
        }
        (argv, gens, sources)
    }
}

pub fn families(tier: &str) -> Vec<Box<dyn Family>> {
    let quick = tier == "quick";
    vec![
        Box::new(CharacterSweep::new()),
        Box::new(ArgvForms::new()),
        Box::new(AllStrings { alphabet: vec!['a', ' ', ',', '=', '\\'], max_len: if quick { 7 } else { 9 }, chunk_len: 4 }),
        Box::new(AllStrings { alphabet: vec!['a', ' ', ',', '=', '\\', 'b', '\t', 'é', '"'], max_len: if quick { 4 } else { 5 }, chunk_len: 2 }),
        Box::new(RoundTrip::new(if quick { 2 } else { 3 })),
        Box::new(Pairs::new()),
        Box::new(ThroughBinary::new(tier)),
        Box::new(AmongFailingGenerators::new()),
        Box::new(RejectedThroughBinary::new(if quick { 3 } else { 4 })),
    ]
}
