//! Per-property families and metadata.

use crate::engine::Family;

pub mod c12;

pub struct PropMeta {
    pub level: &'static str,
    pub rule: &'static str,
    pub explanation: &'static str,
    pub assumptions: Vec<&'static str>,
    pub quick_cap_s: f64,
    pub thorough_cap_s: f64,
    pub quick_bound: &'static str,
    pub thorough_bound: &'static str,
}

const COMMON_ASSUMPTIONS: [&str; 3] = [
    "the harness is built from /repo's current working tree (path dependencies) in release mode with debug-assertions and overflow-checks on",
    "reference models in /verif/mc are written from the property statements and are trusted",
    "behaviour outside the enumerated bounds is not covered (small-scope hypothesis)",
];

pub fn meta(id: &str) -> PropMeta {
    let mut m = PropMeta {
        level: "model_checking",
        rule: "",
        explanation: "",
        assumptions: COMMON_ASSUMPTIONS.to_vec(),
        quick_cap_s: 45.0,
        thorough_cap_s: 600.0,
        quick_bound: "",
        thorough_bound: "",
    };
    match id {
        "C12" => {
            m.rule = "stateright BFS over all operation histories (write_byte, write_bytes_exact(k), reserve_space(k), write_bytes_into_reserved_exact(r,k), k in 0..=3, r any reservation made so far) on SliceOutputTarget of capacity 0..=4 and VecOutputTarget, and over all read/peek histories on SliceInputSource of length 0..=4; the transition function replays the history on a fresh REAL object in lock-step with an append-only-log model; states are de-duplicated on the complete observable implementation state (buffer incl. guard regions, position, reservation ranges). Plus every periodic history (period <= 3, sizes 0/1/63/64/4096) run for 200 steps. distinct = distinct (target, bound) searches plus distinct periodic histories; non-trivial = the history contains a non-empty reservation that is later written into (periodic) / the target or source is non-empty (searches). unique_states/generated_states of the searches are reported in extra_counters and folded into states/transitions.";
            m.explanation = "explicit-state search with the real objects inside the transition function; lock-step comparison against a Vec<u8> log model in every generated state";
            m.quick_bound = "history depth <= 5, k <= 3, capacity <= 4; periodic: 200 steps";
            m.thorough_bound = "history depth <= 7, k <= 3, capacity <= 4; periodic: 200 steps";
        }
        _ => {}
    }
    m
}

pub fn families(id: &str, tier: &str) -> Vec<Box<dyn Family>> {
    match id {
        "C12" => c12::families(tier),
        _ => vec![],
    }
}
