//! Per-property families and metadata.

use crate::engine::Family;

pub mod c01;
pub mod c02;
pub mod c03;
pub mod c04;
pub mod c05;
pub mod c06;
pub mod c07;
pub mod c08;
pub mod c09;
pub mod c10;
pub mod c11;
pub mod c12;
pub mod c13;
pub mod c14;
pub mod c15;
pub mod c16;
pub mod c17;
pub mod c18;
pub mod c19;
pub mod c20;

pub struct PropMeta {
    pub level: &'static str,
    pub rule: &'static str,
    pub explanation: &'static str,
    pub assumptions: Vec<&'static str>,
    pub quick_cap_s: f64,
    pub thorough_cap_s: f64,
    pub quick_bound: &'static str,
    pub thorough_bound: &'static str,
}

const COMMON_ASSUMPTIONS: [&str; 3] = [
    "the harness is built from /repo's current working tree (path dependencies) in release mode with debug-assertions and overflow-checks on",
    "reference models in /verif/mc are written from the property statements and are trusted",
    "behaviour outside the enumerated bounds is not covered (small-scope hypothesis)",
];

pub fn meta(id: &str) -> PropMeta {
    let mut m = PropMeta {
        level: "model_checking",
        rule: "",
        explanation: "",
        assumptions: COMMON_ASSUMPTIONS.to_vec(),
        quick_cap_s: 120.0,
        thorough_cap_s: 600.0,
        quick_bound: "",
        thorough_bound: "",
    };
    match id {
        "C10" => {
            m.rule = "exhaustive value sweeps on the real Encoder/Decoder (growable target with a pre-filled prefix, exactly-sized and one-byte-too-small slice targets): every bool/u8/i8/u16/i16; u32/i32/u64/i64 within 64 of every power of two; f32/f64 for every sign and exponent with sparse mantissas (incl. NaN payloads, infinities, subnormals); varint/varuint/size from every source width within 64 of every power of two up to 2^64 and of each range limit, decoded into every target width; every var value of magnitude < 2^22 (quick) / 2^30 (thorough); every f32 bit pattern (thorough); every Unicode scalar as a one-character string, all strings of length <= 3 over one representative per UTF-8 width, size-prefix thresholds; all sequence/dictionary shapes with <= 5 (quick) / 6 (thorough) leaves over 16 concrete collection types. Oracle: independent u128 bit-level reference must give the same bytes (whole output), decode returns the original (bit-exact), consumes exactly the bytes written, refused values leave the output unchanged. A case is a chunk of values; non-trivial = values needing more than one byte or negative; distinct = distinct chunks.";
            m.explanation = "value-space enumeration against an independent wire-format reference";
            m.quick_bound = "var magnitude < 2^22 exhaustive; collections <= 5 leaves";
            m.thorough_bound = "var magnitude < 2^30 exhaustive; all 2^32 f32 patterns; collections <= 6 leaves";
        }
        "C11" => {
            m.rule = "for each of 35 decodable types (fixed-width, varint/varuint into every width, size, String, Vec<..>, HashMap/BTreeMap, skip_tagged_fields, the generator-reply types from definition_types.rs and the (files, diagnostics) reply pair): every byte string of length <= 2 (quick) / <= 3 (thorough) is decoded by the real decoder from a sub-slice placed between sentinel regions and compared with an independent reference decoder (Ok/Err agreement, value, consumed prefix); every returned error is rendered with to_string(); bytes allocated during the decode are counted by the harness' allocator and must stay <= 256*len+4KiB; plus the announced-size family (size prefixes of every width announcing up to 2^62-1 followed by 0-2 payload bytes) and every truncation and single-byte substitution of valid encodings. A case is a chunk of byte strings sharing a prefix; all are non-trivial (each executes the decoder on untrusted input); distinct = distinct chunks.";
            m.explanation = "input-space enumeration (all short byte strings x all types) with a reference decoder and allocation accounting";
            m.quick_bound = "all byte strings of length <= 2 per type; corruptions of encodings <= 12 bytes";
            m.thorough_bound = "all byte strings of length <= 3 per type; corruptions of encodings <= 24 bytes";
        }
        "C12" => {
            m.rule = "stateright BFS over all operation histories (write_byte, write_bytes_exact(k), reserve_space(k), write_bytes_into_reserved_exact(r,k), k in 0..=3, r any reservation made so far) on SliceOutputTarget of capacity 0..=4 and VecOutputTarget, and over all read/peek histories on SliceInputSource of length 0..=4; the transition function replays the history on a fresh REAL object in lock-step with an append-only-log model; states are de-duplicated on the complete observable implementation state (buffer incl. guard regions, position, reservation ranges). Plus every periodic history (period <= 3, sizes 0/1/63/64/4096) run for 200 steps. distinct = distinct (target, bound) searches plus distinct periodic histories; non-trivial = the history contains a non-empty reservation that is later written into (periodic) / the target or source is non-empty (searches). unique_states/generated_states of the searches are reported in extra_counters and folded into states/transitions.";
            m.explanation = "explicit-state search with the real objects inside the transition function; lock-step comparison against a Vec<u8> log model in every generated state";
            m.quick_bound = "history depth <= 5, k <= 3, capacity <= 4; periodic: 200 steps";
            m.thorough_bound = "history depth <= 7, k <= 3, capacity <= 4; periodic: 200 steps";
        }
        "C19" => {
            m.rule = "every string of length <= 7 (quick) / <= 9 (thorough) over {a, space, ',', '=', backslash} and of length <= 4 / <= 5 over that alphabet extended with {b, tab, é, \"} is passed to the real command line (SliceOptions::try_parse_from([slicec, -G, s])) and compared with a reference parser written from the statement (accept/reject, path, pairs, order); round trip: every (path, first key) pair over all components of length <= 2 over {a , = space é backslash} not ending in a backslash, with every value and 2-3 argument lists, rendered through the escaping function with/without trailing comma and with/without '=' for empty values; all ordered pairs of short specifications given as two -G options. A case is a chunk of strings sharing a prefix; non-trivial = chunk contains separators or escapes (all do); distinct = distinct chunks.";
            m.explanation = "input-space enumeration of the generator-specification language against a reference parser";
            m.quick_bound = "strings <= 7 over 5 chars, <= 4 over 9 chars; round trip <= 2 args";
            m.thorough_bound = "strings <= 9 over 5 chars, <= 5 over 9 chars; round trip <= 3 args";
        }
        "C01" => c01::meta(&mut m),
        "C02" => c02::meta(&mut m),
        "C03" => c03::meta(&mut m),
        "C04" => c04::meta(&mut m),
        "C05" => c05::meta(&mut m),
        "C06" => c06::meta(&mut m),
        "C07" => c07::meta(&mut m),
        "C08" => c08::meta(&mut m),
        "C09" => c09::meta(&mut m),
        "C13" => c13::meta(&mut m),
        "C14" => c14::meta(&mut m),
        "C15" => c15::meta(&mut m),
        "C16" => c16::meta(&mut m),
        "C17" => c17::meta(&mut m),
        "C18" => c18::meta(&mut m),
        "C20" => c20::meta(&mut m),
        _ => {}
    }
    m
}

pub fn families(id: &str, tier: &str) -> Vec<Box<dyn Family>> {
    match id {
        "C10" => c10::families(tier),
        "C11" => c11::families(tier),
        "C12" => c12::families(tier),
        "C19" => c19::families(tier),
        "C01" => c01::families(tier),
        "C02" => c02::families(tier),
        "C03" => c03::families(tier),
        "C04" => c04::families(tier),
        "C05" => c05::families(tier),
        "C06" => c06::families(tier),
        "C07" => c07::families(tier),
        "C08" => c08::families(tier),
        "C09" => c09::families(tier),
        "C13" => c13::families(tier),
        "C14" => c14::families(tier),
        "C15" => c15::families(tier),
        "C16" => c16::families(tier),
        "C17" => c17::families(tier),
        "C18" => c18::families(tier),
        "C20" => c20::families(tier),
        _ => vec![],
    }
}
