//! C07 — code generation happens only after an error-free compilation (engine E3, complete product).
//!
//! Statement: generators are started, and files are written, only if every input file was read, parsed, resolved
//! and validated without a single error and generation was not turned off with `--dry-run`; warnings alone never
//! prevent generation.  The exit status is non-zero exactly when at least one error diagnostic was emitted.
//!
//! Family `product`: program class (13) x position of the offending file among three source files (3) x
//! number of logging generators (0..=3, all healthy, one small file each) x `--dry-run` (2) x `-A` (none, `All`,
//! `Deprecated` = the lint the warning classes produce) x `-O out` given or not (2) x diagnostic format (human,
//! json).  Family `generator-failure`: error-free programs (clean / warnings only) with 1..3 generators of which
//! exactly one fails (missing executable, exit 1, empty reply, killed by a signal after its reply, a well-formed
//! reply that carries a diagnostic of level Error), for the "exit status ... or from a generator that
//! failed" half of the statement (the full fault catalogue is C18's).  Every combination is one run of the real
//! `slicec` binary.
//!
//! What the oracle does NOT demand (the statement is silent): the number or codes of the diagnostics of an
//! erroneous program (C04's business — only "at least one error" is used), whether allowed warnings are printed
//! (C13), the summary line on stdout (C14), the order in which generators are started.

use super::PropMeta;
use crate::engine::*;
use crate::proc::{self, Gen, Install, Node, Scenario, Script, Step};
use crate::util::*;
use serde_json::{json, Value};
use std::time::Duration;

pub fn meta(m: &mut PropMeta) {
    m.rule = "two complete products, every combination executed as one run of the real slicec binary in a private directory. Family product: program class {clean, warnings only (use of a [deprecated] type), missing file, directory named x.slice, file with invalid UTF-8, preprocessor error, syntax error, unknown attribute, unresolved type, containment cycle, redefinition, rule violation (empty compact struct), rule violation in one file + warning in another} x position of the offending file among three source files x 0..3 logging fake generators (healthy: read the request, reply with one small file) x --dry-run on/off x -A {none, All, Deprecated} x -O given or not x --diagnostic-format {human, json}. Family generator-failure: {clean, warnings only} x 1..3 generators of which exactly one (every position) fails {missing executable, exit status 1 after a valid reply, empty reply} x -A x format x --dry-run. Oracle (from the statement): a generator's start marker exists iff the program class has no error and --dry-run is off (all configured startable generators, each started exactly once); no path of the working/output directory is created or changed unless generators were expected to run, and when they are every healthy generator's file exists with the bytes sent; exit status != 0 iff stderr carries >= 1 error diagnostic ('error [' line / JSON object with severity error); an error class or a failing generator gives >= 1 error diagnostic, a clean/warning class with healthy generators none; no signal, panic or hang. non-trivial = at least one generator configured or the program class has an error; distinct = distinct rendered scenarios; outcome class = (exit status, set of generators that ran, #error diagnostics, #warning diagnostics, #paths changed).";
    m.explanation = "process-level enumeration of the complete option/program-class product against the gating rule of the statement, observed through the start markers and captured stdin of scripted fake generators";
    m.quick_bound = "product: 13 program classes x 3 positions x 0..3 generators x dry-run x 3 -A values x -O x 2 formats = 3744 runs; generator-failure: 2 classes x 6 (count, failing position) x 5 faults (missing executable, exit 1, empty reply, signal after the reply, a reply carrying an Error-level diagnostic) x 3 -A x 2 formats x dry-run = 720 runs (both complete)";
    m.thorough_bound = "same complete products (4176 runs)";
    m.quick_cap_s = 120.0;
    m.thorough_cap_s = 120.0;
}

pub fn families(_tier: &str) -> Vec<Box<dyn Family>> {
    vec![Box::new(Product), Box::new(GeneratorFailure), Box::new(DuplicateArgument), Box::new(Arrangements::new())]
}

#[derive(Clone, Copy, Debug, PartialEq)]
enum Class {
    Clean,
    Warn,
    Missing,
    Directory,
    InvalidUtf8,
    Preprocessor,
    Syntax,
    UnknownAttribute,
    Unresolved,
    Cycle,
    Redefinition,
    Rule,
    RulePlusWarningElsewhere,
    /// one struct with 256 / 257 fields of an unresolved type: that many error diagnostics (only in `arrangements`)
    Many256,
    Many257,
}

const CLASSES: [Class; 13] = [
    Class::Clean,
    Class::Warn,
    Class::Missing,
    Class::Directory,
    Class::InvalidUtf8,
    Class::Preprocessor,
    Class::Syntax,
    Class::UnknownAttribute,
    Class::Unresolved,
    Class::Cycle,
    Class::Redefinition,
    Class::Rule,
    Class::RulePlusWarningElsewhere,
];

impl Class {
    fn name(self) -> &'static str {
        match self {
            Class::Clean => "clean",
            Class::Warn => "warnings-only",
            Class::Missing => "missing-file",
            Class::Directory => "directory-named-slice",
            Class::InvalidUtf8 => "invalid-utf8",
            Class::Preprocessor => "preprocessor-error",
            Class::Syntax => "syntax-error",
            Class::UnknownAttribute => "unknown-attribute",
            Class::Unresolved => "unresolved-type",
            Class::Cycle => "cycle",
            Class::Redefinition => "redefinition",
            Class::Rule => "rule-violation",
            Class::RulePlusWarningElsewhere => "rule-violation+warning-elsewhere",
            Class::Many256 => "256-errors",
            Class::Many257 => "257-errors",
        }
    }
    fn has_error(self) -> bool {
        !matches!(self, Class::Clean | Class::Warn)
    }
}

fn clean_file(k: usize) -> String {
    format!("module M{k}\nstruct A{k} {{ a: int32 }}\n")
}

fn warn_file(k: usize) -> String {
    format!("module M{k}\n[deprecated] struct D{k} {{ a: int32 }}\nstruct U{k} {{ d: D{k} }}\n")
}

/// The node at position k for the offending file of `class` (None = nothing is created at that path).
fn offending(class: Class, k: usize) -> Option<Node> {
    let text = |s: String| Some(Node::File(s.into_bytes()));
    match class {
        Class::Clean => text(clean_file(k)),
        Class::Warn => text(warn_file(k)),
        Class::Missing => None,
        Class::Directory => Some(Node::Dir),
        Class::InvalidUtf8 => {
            let mut b = clean_file(k).into_bytes();
            b.extend_from_slice(b"// \xff\xfe\xc3\x28\n");
            Some(Node::File(b))
        }
        Class::Preprocessor => text(format!("module M{k}\n#if FOO\nstruct A{k} {{ a: int32 }}\n")),
        Class::Syntax => text(format!("module M{k}\nstruct A{k} {{ a: int32 \n")),
        Class::UnknownAttribute => text(format!("module M{k}\n[foo] struct A{k} {{ a: int32 }}\n")),
        Class::Unresolved => text(format!("module M{k}\nstruct A{k} {{ a: Nope }}\n")),
        Class::Cycle => text(format!("module M{k}\nstruct A{k} {{ a: A{k} }}\n")),
        Class::Redefinition => text(format!("module M{k}\nstruct A{k} {{ a: int32 }}\nstruct A{k} {{ b: int32 }}\n")),
        Class::Rule | Class::RulePlusWarningElsewhere => text(format!("module M{k}\nstruct A{k} {{ a: int32 }}\ncompact struct C{k} {{ }}\n")),
        Class::Many256 | Class::Many257 => {
            let n = if class == Class::Many256 { 256 } else { 257 };
            let fields: String = (0..n).map(|i| format!("  a{i}: Nope{i}\n")).collect();
            text(format!("module M{k}\nstruct A{k} {{\n{fields}}}\n"))
        }
    }
}

const ALLOW: [Option<&str>; 3] = [None, Some("All"), Some("Deprecated")];

fn gen_args(i: usize) -> Vec<(String, String)> {
    match i {
        0 => vec![],
        1 => vec![("k".to_string(), "v".to_string())],
        _ => vec![("x".to_string(), "".to_string()), ("lang".to_string(), "cs".to_string())],
    }
}

fn gen_file(i: usize) -> proc::RFile {
    proc::rfile(&format!("gen{i}.out"), &format!("// written by generator {i}\n"))
}

#[derive(Clone, Copy, Debug, PartialEq)]
enum GenFault {
    /// the executable does not exist
    Missing,
    /// reads the request, sends a valid reply, exits with status 1
    Exit1,
    /// reads the request, exits 0 without a reply
    EmptyReply,
    /// reads the request, sends a valid reply, then is killed by a signal (no exit status at all)
    SignalAfterReply,
    /// reads the request, sends a well-formed reply that carries a diagnostic of level Error, exits 0: the generator
    /// says itself that it failed (whether the files it names are written is left open by the statement)
    ReplyReportsError,
}

const GEN_FAULTS: [GenFault; 5] = [GenFault::Missing, GenFault::Exit1, GenFault::EmptyReply, GenFault::SignalAfterReply, GenFault::ReplyReportsError];

struct Case {
    class: Class,
    pos: usize,
    ngens: usize,
    dry: bool,
    allow: Option<&'static str>,
    outdir: bool,
    json: bool,
    /// (index of the generator that fails, how) — only in the family `generator-failure`
    failing: Option<(usize, GenFault)>,
    /// a clean file is listed a second time under another spelling (a DuplicateFile warning, nothing else changes)
    dup: bool,
    /// 0 = the directory named by -O exists (if -O is given); 1 = '-O out' and 'out' does not exist; 2 = '-O out/nested',
    /// neither exists (only with runs in which nothing may be generated)
    out_missing: u8,
    /// where the file at position `pos` is listed: 0 = as a source; 1 = '-R f<pos>.slice'; 2 = inside the reference
    /// directory given as '-R refs'
    refplace: u8,
}

const RADICES: [u64; 7] = [4, 2, 13, 3, 3, 2, 2];

fn case_of(idx: u64) -> Case {
    let d = decode_index(idx, &RADICES);
    Case {
        ngens: d[0] as usize,
        dry: d[1] == 1,
        class: CLASSES[d[2] as usize],
        pos: d[3] as usize,
        allow: ALLOW[d[4] as usize],
        outdir: d[5] == 1,
        json: d[6] == 1,
        failing: None,
        dup: false,
        out_missing: 0,
        refplace: 0,
    }
}

/// (number of generators, index of the failing one)
const FAIL_POSITIONS: [(usize, usize); 6] = [(1, 0), (2, 0), (2, 1), (3, 0), (3, 1), (3, 2)];
const RADICES_GF: [u64; 6] = [6, 5, 2, 3, 2, 2];

fn case_of_gf(idx: u64) -> Case {
    let d = decode_index(idx, &RADICES_GF);
    let (ngens, f) = FAIL_POSITIONS[d[0] as usize];
    Case {
        ngens,
        failing: Some((f, GEN_FAULTS[d[1] as usize])),
        class: [Class::Clean, Class::Warn][d[2] as usize],
        pos: f % 3,
        allow: ALLOW[d[3] as usize],
        json: d[4] == 1,
        dry: d[5] == 1,
        outdir: idx % 2 == 0,
        dup: false,
        out_missing: 0,
        refplace: 0,
    }
}

const RADICES_DUP: [u64; 6] = [2, 2, 13, 3, 3, 2];

/// family `duplicate-argument`: as `product`, with a clean file listed twice (sources, or once as reference)
fn case_of_dup(idx: u64) -> Case {
    let d = decode_index(idx, &RADICES_DUP);
    Case { ngens: 1 + d[0] as usize, dry: d[1] == 1, class: CLASSES[d[2] as usize], pos: d[3] as usize, allow: ALLOW[d[4] as usize], outdir: false, json: d[5] == 1, failing: None, dup: true, out_missing: 0, refplace: 0 }
}

fn scenario(c: &Case) -> Scenario {
    let mut tree = vec![];
    let mut argv = vec![];
    for k in 0..3 {
        let path = if k == c.pos && c.refplace == 2 { format!("refs/f{k}.slice") } else { format!("f{k}.slice") };
        if k == c.pos {
            if let Some(n) = offending(c.class, k) {
                tree.push((path.clone(), n));
            }
        } else if c.class == Class::RulePlusWarningElsewhere && k == (c.pos + 1) % 3 {
            tree.push((path.clone(), Node::File(warn_file(k).into_bytes())));
        } else {
            tree.push((path.clone(), Node::File(clean_file(k).into_bytes())));
        }
        if k == c.pos && c.refplace > 0 {
            continue; // listed as a reference below
        }
        argv.push(path);
    }
    match c.refplace {
        1 => {
            argv.push("-R".to_string());
            argv.push(format!("f{}.slice", c.pos));
        }
        2 => {
            tree.push(("refs".to_string(), Node::Dir));
            argv.push("-R".to_string());
            argv.push("refs".to_string());
        }
        _ => {}
    }
    if c.dup {
        // the clean file after the offending one, once more under another spelling
        argv.push(format!("./f{}.slice", (c.pos + 2) % 3));
    }
    let mut gens = vec![];
    for i in 0..c.ngens {
        let reply = proc::encode_reply(&[gen_file(i)], &[]);
        let install = match c.failing {
            Some((f, GenFault::Missing)) if f == i => Install::Missing,
            Some((f, GenFault::Exit1)) if f == i => Install::Script(Script(vec![Step::ReadAll, Step::Stdout(reply), Step::Exit(1)])),
            Some((f, GenFault::EmptyReply)) if f == i => Install::Script(Script(vec![Step::ReadAll, Step::Exit(0)])),
            Some((f, GenFault::SignalAfterReply)) if f == i => Install::Script(Script(vec![Step::ReadAll, Step::Stdout(reply), Step::Kill(11)])),
            Some((f, GenFault::ReplyReportsError)) if f == i => {
                let d = proc::RDiag { level: 2, message: format!("generator {i} could not generate code"), source: None };
                Install::Script(Script(vec![Step::ReadAll, Step::Stdout(proc::encode_reply(&[gen_file(i)], &[d])), Step::Exit(0)]))
            }
            _ => Install::Script(Script(vec![Step::ReadAll, Step::Stdout(reply), Step::Exit(0)])),
        };
        gens.push(Gen { name: format!("g{i}"), install });
        argv.push("-G".to_string());
        argv.push(proc::gen_spec(&format!("{{gen{i}}}"), &gen_args(i)));
    }
    if c.dry {
        argv.push("--dry-run".to_string());
    }
    if let Some(a) = c.allow {
        argv.push("-A".to_string());
        argv.push(a.to_string());
    }
    if c.outdir {
        if c.out_missing == 0 {
            tree.push(("out".to_string(), Node::Dir));
        }
        argv.push("-O".to_string());
        argv.push(if c.out_missing == 2 { "out/nested" } else { "out" }.to_string());
    }
    if c.json {
        argv.push("--diagnostic-format".to_string());
        argv.push("json".to_string());
    }
    Scenario { tree, gens, argv, env: vec![] }
}


/// Arrangements the product does not have: an output directory that does not exist yet (nothing may be created when
/// nothing is generated), the offending file listed as a reference (file or directory), and programs with 256 / 257
/// errors (an exit status computed from the count).
struct Arrangements {
    cases: Vec<(Class, usize, usize, bool, bool, u8, u8)>, // class, pos, ngens, dry, json, out_missing, refplace
}
impl Arrangements {
    fn new() -> Self {
        let mut cases = vec![];
        for &class in CLASSES.iter() {
            for pos in 0..3 {
                for dry in [false, true] {
                    // A: missing output directory; only runs in which nothing may be generated
                    if class.has_error() || dry {
                        for om in [1u8, 2] {
                            cases.push((class, pos, 2, dry, pos == 1, om, 0));
                        }
                    }
                    // B: the file at `pos` is a reference
                    for rp in [1u8, 2] {
                        if rp == 2 && matches!(class, Class::Missing | Class::Directory) {
                            continue; // not an error there: nothing to find / a sub-directory
                        }
                        if rp == 1 && class == Class::Directory {
                            continue; // a directory is a legal reference
                        }
                        for ngens in [1usize, 2] {
                            cases.push((class, pos, ngens, dry, ngens == 2, 0, rp));
                        }
                    }
                }
            }
        }
        for class in [Class::Many256, Class::Many257] {
            for json in [false, true] {
                for ngens in [0usize, 2] {
                    for dry in [false, true] {
                        cases.push((class, 1, ngens, dry, json, 0, 0));
                        cases.push((class, 1, ngens, dry, json, 0, 1));
                    }
                }
            }
        }
        Arrangements { cases }
    }
    fn case(&self, idx: u64) -> Case {
        let (class, pos, ngens, dry, json, out_missing, refplace) = self.cases[idx as usize];
        Case { class, pos, ngens, dry, allow: None, outdir: out_missing > 0, json, failing: None, dup: false, out_missing, refplace }
    }
}
impl Family for Arrangements {
    fn name(&self) -> String {
        "arrangements/13 program classes x position x --dry-run with an output directory that does not exist ('-O out', '-O out/nested'; only runs that may generate nothing); the offending file listed as '-R file' and inside '-R directory'; programs with 256 and 257 errors".into()
    }
    fn len(&self) -> u64 {
        self.cases.len() as u64
    }
    fn hang_secs(&self) -> f64 {
        60.0
    }
    fn describe(&self, idx: u64) -> Value {
        describe_case(&self.case(idx))
    }
    fn run(&self, idx: u64) -> CaseOut {
        judge("arrangements", &self.case(idx))
    }
}

struct Product;
struct GeneratorFailure;
struct DuplicateArgument;

impl Family for DuplicateArgument {
    fn name(&self) -> String {
        "duplicate-argument".into()
    }
    fn len(&self) -> u64 {
        product(&RADICES_DUP)
    }
    fn hang_secs(&self) -> f64 {
        60.0
    }
    fn describe(&self, idx: u64) -> Value {
        describe_case(&case_of_dup(idx))
    }
    fn run(&self, idx: u64) -> CaseOut {
        judge("duplicate-argument", &case_of_dup(idx))
    }
}

impl Family for Product {
    fn name(&self) -> String {
        "product".into()
    }
    fn len(&self) -> u64 {
        product(&RADICES)
    }
    fn hang_secs(&self) -> f64 {
        60.0
    }
    fn describe(&self, idx: u64) -> Value {
        describe_case(&case_of(idx))
    }
    fn run(&self, idx: u64) -> CaseOut {
        judge("product", &case_of(idx))
    }
}

impl Family for GeneratorFailure {
    fn name(&self) -> String {
        "generator-failure".into()
    }
    fn len(&self) -> u64 {
        product(&RADICES_GF)
    }
    fn hang_secs(&self) -> f64 {
        60.0
    }
    fn describe(&self, idx: u64) -> Value {
        describe_case(&case_of_gf(idx))
    }
    fn run(&self, idx: u64) -> CaseOut {
        judge("generator-failure", &case_of_gf(idx))
    }
}

fn describe_case(c: &Case) -> Value {
    {
        let gen_fails = c.failing.is_some() && !c.class.has_error() && !c.dry;
        json!({
            "program_class": c.class.name(),
            "offending_file_position": c.pos,
            "generators": c.ngens,
            "dry_run": c.dry,
            "allow": c.allow,
            "output_dir_given": c.outdir,
            "diagnostic_format": if c.json { "json" } else { "human" },
            "failing_generator": c.failing.map(|(i, how)| format!("generator {i}: {how:?}")),
            "expected": {
                "generators_run": !c.class.has_error() && !c.dry,
                "error_diagnostics": if c.class.has_error() || gen_fails { ">= 1" } else { "0" },
                "exit_status": if c.class.has_error() || gen_fails { "!= 0" } else { "0" },
            },
            "scenario": scenario(c).to_json(),
        })
    }
}

fn judge(fam: &str, c: &Case) -> CaseOut {
    {
        let sc = scenario(c);
        let rendered = sc.to_json().to_string();
        let mut out = CaseOut::new(hash_str(&rendered));
        out.nontrivial = c.ngens > 0 || c.class.has_error();
        let startable = |i: usize| !matches!(c.failing, Some((f, GenFault::Missing)) if f == i);
        let healthy = |i: usize| !matches!(c.failing, Some((f, _)) if f == i);
        let obs = proc::run(&sc, Duration::from_secs(20));
        out.validated = 1;
        let input = || format!("class={} pos={} gens={} failing={:?} dry_run={} allow={:?} -O={} json={} argv={:?}", c.class.name(), c.pos, c.ngens, c.failing, c.dry, c.allow, c.outdir, c.json, sc.argv);

        // diagnostics on stderr
        let (n_err, n_warn) = if c.json {
            let mut e = 0;
            let mut w = 0;
            for line in obs.stderr_text().lines() {
                if let Ok(v) = serde_json::from_str::<Value>(line) {
                    match v["severity"].as_str() {
                        Some("error") => e += 1,
                        Some("warning") => w += 1,
                        _ => {}
                    }
                }
            }
            (e, w)
        } else {
            (obs.error_lines().len(), obs.warning_lines().len())
        };
        let ran: Vec<bool> = obs.gens.iter().map(|g| g.started > 0).collect();
        let ran_mask: String = ran.iter().map(|r| if *r { '1' } else { '0' }).collect();
        let changed = obs.changed_paths();
        out.class = format!("exit={:?}{}/ran={}/errors={}/warnings={}/changed={}", obs.exit_code, obs.signal.map(|s| format!("/signal={s}")).unwrap_or_default(), ran_mask, n_err, n_warn, changed.len());

        // no crash, no hang (the rest of the oracle is meaningless otherwise)
        if obs.timed_out {
            out.violate(format!("c07/{fam}/hang"), format!("slicec did not end within 20 s. {} || {}", input(), obs.summary()));
            return out;
        }
        if let Some(loc) = obs.panic_location() {
            out.violate(format!("c07/{fam}/panic@{loc}"), format!("slicec panicked. {} || {}", input(), obs.summary()));
            return out;
        }
        if obs.signal.is_some() || obs.exit_code.is_none() {
            out.violate(format!("c07/{fam}/killed-by-signal"), format!("slicec was killed by a signal. {} || {}", input(), obs.summary()));
            return out;
        }

        // gating
        let any_ran = ran.iter().any(|r| *r);
        let expected_run = !c.class.has_error() && !c.dry;
        let mut dry_defect = false;
        if any_ran && c.class.has_error() {
            out.violate(
                format!("c07/{fam}/generators-ran-despite-errors/{}", c.class.name()),
                format!("expected: no generator is started because the program has an error ({}); observed: started={ran_mask}. {} || {}", c.class.name(), input(), obs.summary()),
            );
        } else if c.dry && !c.class.has_error() && (any_ran || (c.failing.is_some() && n_err > 0)) {
            // (a generator whose executable is missing leaves no start marker; the attempt to start it shows
            // as an error diagnostic)
            dry_defect = true;
            out.violate(
                format!("c07/{fam}/generators-ran-despite-dry-run"),
                format!("expected: --dry-run turns generation off (no generator started, no file written); observed: started={ran_mask}, paths changed={changed:?}. {} || {}", input(), obs.summary()),
            );
        }
        if expected_run && !(0..c.ngens).all(|i| ran[i] || !startable(i)) {
            out.violate(
                format!("c07/{fam}/generators-not-run/{}", c.class.name()),
                format!("expected: all {} generators are started (no error in the program, warnings never prevent generation, no --dry-run); observed: started={ran_mask}. {} || {}", c.ngens, input(), obs.summary()),
            );
        }
        for g in &obs.gens {
            if g.started > 1 {
                out.violate(format!("c07/{fam}/generator-started-more-than-once"), format!("generator {} was started {} times. {} || {}", g.name, g.started, input(), obs.summary()));
            }
        }

        // files
        if !dry_defect {
            if !expected_run {
                if !changed.is_empty() {
                    out.violate(
                        format!("c07/{fam}/files-changed-without-generation"),
                        format!("expected: nothing is created or modified in the working/output directory (generation must not happen); observed changed paths: {changed:?}. {} || {}", input(), obs.summary()),
                    );
                }
            } else {
                let mut expected_paths = vec![];
                for i in (0..c.ngens).filter(|i| healthy(*i)) {
                    let f = gen_file(i);
                    let p = if c.outdir { format!("out/{}", f.path) } else { f.path.clone() };
                    match obs.after.get(&p) {
                        Some(e) if e.kind == proc::Kind::File && e.contents == f.contents.as_bytes() => {}
                        other => out.violate(
                            format!("c07/{fam}/generated-file-missing-or-wrong"),
                            format!("expected: file {p} with the bytes generator {i} sent; observed: {:?}. {} || {}", other.map(|e| proc::show_bytes(&e.contents)), input(), obs.summary()),
                        ),
                    }
                    expected_paths.push(p);
                }
                if let Some((f, GenFault::ReplyReportsError)) = c.failing {
                    // left open: the reply is well formed, its file may or may not be written
                    let path = gen_file(f).path;
                    expected_paths.push(if c.outdir { format!("out/{path}") } else { path });
                }
                let unexpected: Vec<&String> = changed.iter().filter(|p| !expected_paths.contains(p)).collect();
                if !unexpected.is_empty() {
                    out.violate(format!("c07/{fam}/unexpected-path-changed"), format!("paths changed that no generator reply names: {unexpected:?}. {} || {}", input(), obs.summary()));
                }
            }
        }

        // exit status <=> error diagnostics emitted
        let failed = obs.exit_code != Some(0);
        if n_err > 0 && !failed {
            out.violate(format!("c07/{fam}/exit-status-zero-despite-error-diagnostic"), format!("{n_err} error diagnostic(s) were emitted but the exit status is 0. {} || {}", input(), obs.summary()));
        }
        if n_err == 0 && failed {
            out.violate(format!("c07/{fam}/exit-status-nonzero-without-error-diagnostic"), format!("exit status {:?} although no error diagnostic was emitted. {} || {}", obs.exit_code, input(), obs.summary()));
        }
        // the program classes are what they claim to be (all generators are healthy, so errors come from
        // compilation only)
        if c.class.has_error() && n_err == 0 {
            out.violate(
                format!("c07/{fam}/erroneous-program-without-error-diagnostic/{}", c.class.name()),
                format!("the program has an error ({}) but no error diagnostic was emitted. {} || {}", c.class.name(), input(), obs.summary()),
            );
        }
        let gen_fails = c.failing.is_some() && expected_run;
        if gen_fails && n_err == 0 {
            out.violate(
                format!("c07/{fam}/failed-generator-without-error-diagnostic"),
                format!("generator {:?} fails, so an error diagnostic and a non-zero exit status are expected; no error diagnostic was emitted. {} || {}", c.failing, input(), obs.summary()),
            );
        }
        // (not reported on top of the --dry-run defect: a generator that should not have run may fail)
        if !c.class.has_error() && !gen_fails && n_err > 0 && !dry_defect {
            out.violate(
                format!("c07/{fam}/error-diagnostic-for-error-free-program/{}", c.class.name()),
                format!("the program is error free and all generators are healthy, yet {n_err} error diagnostic(s) were emitted. {} || {}", input(), obs.summary()),
            );
        }
        out
    }
}
