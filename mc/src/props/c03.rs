//! C03 — (stub; filled in during the build phase)

use super::PropMeta;
use crate::engine::*;

pub fn meta(_m: &mut PropMeta) {}

pub fn families(_tier: &str) -> Vec<Box<dyn Family>> {
    vec![]
}
