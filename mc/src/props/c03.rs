//! C03 — type references bind to the entity the scoping rules designate.

use super::PropMeta;
use crate::engine::*;
use crate::model::ast::*;
use crate::model::print::*;
use crate::model::resolve::*;
use crate::model::run::*;
use crate::model::tree::*;
use crate::util::*;
use serde_json::{json, Value};
use slicec::grammar::{CustomType, Enum, Enumerator, Field, Interface, Operation, Struct, TypeAlias};

pub fn meta(m: &mut PropMeta) {
    m.rule = "three nested module levels A, A::B, A::B::C (plus sibling A::D and unrelated Z), each in its own file; at each level an entity named X of kind {none, struct, enum, custom, interface, alias->primitive, alias->the X one level out} (7^3); a referencing element in the module at level 1..3 in position {field, parameter, alias target, sequence element, dictionary value, interface base, enum underlying}; every spelling of the reference {X, C::X, B::C::X, A::B::C::X, ::A::B::C::X, ::X, B::X, D::X, ::A::D::X, S::f (member path), B (module), Nope}; level files listed in all 6 orders: complete product. Plus alias chains of length 1..4 with a distinct attribute on each link and on the use site, ending in each type form, links spread over two modules, used in 3 positions. Oracle: reference resolver written from the statement (innermost module outwards, then global; '::' global only; first name hit decides; wrong kind = error; aliases replaced by final target, attributes accumulated use-site first then link by link). Reference says bound: compilation error-free and the whole observed AST (with the scoped identifier and kind of every bound definition and the accumulated attributes) equals the model; reference says error: an Error with code E033/E017/E019 is reported. Every definition, field, enumerator and operation of an accepted program is retrieved by its fully scoped name through Ast::find_element. A case = one (kinds, level, position) with all spellings x orders inside; non-trivial = some spelling binds to an entity that is not the first candidate looked at, or must be rejected.";
    m.explanation = "complete product of scope arrangements x reference spellings x positions x file orders against a reference resolver";
    m.quick_bound = "7^3 kind assignments x 3 levels x 9 positions x 12 spellings x 6 file orders (518,616 compilations); alias chains <= 4";
    m.thorough_bound = "same (the product is complete)";
    m.quick_cap_s = 150.0;
}

const LEVELS: [&str; 3] = ["A", "A::B", "A::B::C"];
const SPELLINGS: [&str; 12] = ["X", "C::X", "B::C::X", "A::B::C::X", "::A::B::C::X", "::X", "B::X", "D::X", "::A::D::X", "S::f", "B", "Nope"];
const N_KINDS: u64 = 7;
const N_POS: u64 = 9;
const ORDERS: [[usize; 3]; 6] = [[0, 1, 2], [0, 2, 1], [1, 0, 2], [1, 2, 0], [2, 0, 1], [2, 1, 0]];

fn x_entity(kind: u64, level: usize) -> Option<MDef> {
    Some(match kind {
        0 => return None,
        1 => st("X", vec![]),
        2 => en("X", Some(MType::prim("uint8")), vec![enumerator("E0")]),
        3 => custom("X"),
        4 => iface("X", vec![], vec![]),
        5 => alias("X", MType::prim("uint8")),
        6 => {
            if level == 0 {
                alias("X", MType::prim("uint16"))
            } else {
                alias("X", MType::named(&format!("::{}::X", LEVELS[level - 1])))
            }
        }
        _ => unreachable!(),
    })
}

fn user(pos: u64, spelling: &str) -> MDef {
    let t = MType::named(spelling);
    // members named like the referenced type must not capture the reference: the search runs over MODULE scopes
    match pos {
        0 => st("U", vec![MField::new("X", MType::prim("int32")), MField::new("f", t)]),
        1 => iface("U", vec![], vec![op("o", vec![MParam::new("X", MType::prim("int32")), MParam::new("p", t)], MRet::None), op("X", vec![], MRet::None)]),
        2 => alias("U", t),
        3 => st("U", vec![MField::new("f", MType::seq(t)), MField::new("X", MType::prim("bool"))]),
        4 => st("U", vec![MField::new("X", MType::prim("int32")), MField::new("f", MType::dict(MType::prim("int32"), t))]),
        5 => iface("U", vec![t], vec![]),
        6 => en("U", Some(t), vec![enumerator("E0")]),
        // the two arms of a result type are patched through slots of their own
        7 => st("U", vec![MField::new("f", MType::result(MType::prim("bool"), t)), MField::new("X", MType::prim("bool"))]),
        8 => iface("U", vec![], vec![op("o", vec![], MRet::Single { tag: None, stream: false, ty: MType::result(t, MType::prim("string")).opt() })]),
        _ => unreachable!(),
    }
}

fn build(kinds: [u64; 3], r: usize, pos: u64, spelling: &str, order: usize) -> Program {
    let mut level_files = vec![];
    for l in 0..3 {
        let mut f = MFile::module(LEVELS[l]);
        if l == 0 {
            f.defs.push(st("S", vec![MField::new("f", MType::prim("int32"))]));
        }
        if let Some(x) = x_entity(kinds[l], l) {
            f.defs.push(x);
        }
        if l == r {
            f.defs.push(user(pos, spelling));
        }
        level_files.push(f);
    }
    let mut program: Program = ORDERS[order].iter().map(|i| level_files[*i].clone()).collect();
    let mut d = MFile::module("A::D");
    d.defs.push(st("X", vec![]));
    program.push(d);
    let mut z = MFile::module("Z");
    z.defs.push(st("ZZ", vec![]));
    program.push(z);
    program
}

/// All resolution errors the reference expects in a program.
pub fn expected_errors(program: &Program) -> Vec<RErr> {
    let table = Table::build(program);
    let r = Resolver { program, table: &table };
    let mut errs = vec![];
    for f in program {
        let scope = f.module_name();
        for d in &f.defs {
            match d {
                MDef::Struct(s) => {
                    for fl in &s.fields {
                        r.errors(&fl.ty, scope, Position::Type, &mut errs);
                    }
                }
                MDef::Interface(i) => {
                    for b in &i.bases {
                        r.errors(b, scope, Position::Base, &mut errs);
                    }
                    for o in &i.ops {
                        for p in &o.params {
                            r.errors(&p.ty, scope, Position::Type, &mut errs);
                        }
                        match &o.ret {
                            MRet::None => {}
                            MRet::Single { ty, .. } => r.errors(ty, scope, Position::Type, &mut errs),
                            MRet::Tuple(ps) => {
                                for p in ps {
                                    r.errors(&p.ty, scope, Position::Type, &mut errs);
                                }
                            }
                        }
                    }
                }
                MDef::Enum(e) => {
                    if let Some(u) = &e.underlying {
                        r.errors(u, scope, Position::Underlying, &mut errs);
                    }
                    for en in &e.enumerators {
                        for fl in en.fields.iter().flatten() {
                            r.errors(&fl.ty, scope, Position::Type, &mut errs);
                        }
                    }
                }
                MDef::Custom(_) => {}
                MDef::Alias(a) => r.errors(&a.ty, scope, Position::Type, &mut errs),
            }
        }
    }
    errs
}

/// Check one program against the reference resolver; returns (class, nontrivial).
pub fn check_program(program: &Program, layout: &Layout, fam: &str, out: &mut CaseOut) -> String {
    out.steps += 1;
    let errs = expected_errors(program);
    let rendered = render_program(program, layout);
    let texts: Vec<String> = rendered.iter().map(|r| r.text.clone()).collect();
    let input = || texts.join("\n--- next file ---\n");
    let expected: Vec<Node> = rendered.iter().map(|r| r.tree.clone()).collect();
    let table = Table::build(program);
    match compile_rendered(rendered, None) {
        Err((loc, msg)) => {
            out.violate(format!("c03/{fam}/panic@{loc}"), format!("panic at {loc}: {msg}\n--- input ---\n{}", input()));
            "panic".into()
        }
        Ok(c) => {
            let real_errs = c.errors();
            if errs.is_empty() {
                if let Some(e) = real_errs.first() {
                    out.violate(format!("c03/{fam}/resolvable-reference-rejected/{}", e.code), format!("every reference designates an entity of the right kind, but: {} {}\n--- input ---\n{}", e.code, e.message, input()));
                    return format!("wrongly-rejected:{}", e.code);
                }
                for (i, e) in expected.iter().enumerate() {
                    let Ok(o) = guarded(|| crate::model::observe::file(&c.files[i])) else {
                        out.violate(format!("c03/{fam}/observer-panic"), format!("walking the AST panicked\n--- input ---\n{}", input()));
                        continue;
                    };
                    if let Some(d) = diff(e, &o) {
                        out.violate(format!("c03/{fam}/bound-differently{}", d.path), format!("file {i}: at {}: {} expected {:?}, observed {:?}\n--- input ---\n{}", d.path_named, d.what, d.expected, d.observed, input()));
                    }
                }
                // every definition, field, enumerator and operation can be retrieved by its fully scoped name
                for (name, ents) in &table.map {
                    let e = &ents[0];
                    let found = match e.kind {
                        EKind::Struct => c.ast.find_element::<Struct>(name).is_ok(),
                        EKind::Interface => c.ast.find_element::<Interface>(name).is_ok(),
                        EKind::Enum => c.ast.find_element::<Enum>(name).is_ok(),
                        EKind::Custom => c.ast.find_element::<CustomType>(name).is_ok(),
                        EKind::Alias => c.ast.find_element::<TypeAlias>(name).is_ok(),
                        EKind::Field => c.ast.find_element::<Field>(name).is_ok(),
                        EKind::Enumerator => c.ast.find_element::<Enumerator>(name).is_ok(),
                        EKind::Operation => c.ast.find_element::<Operation>(name).is_ok(),
                        _ => true,
                    };
                    if !found {
                        out.violate(format!("c03/{fam}/not-retrievable-by-scoped-name/{}", e.kind.name()), format!("{} {name} cannot be retrieved from the AST by its fully scoped name\n--- input ---\n{}", e.kind.name(), input()));
                    }
                }
                "bound".into()
            } else {
                let codes: Vec<&str> = real_errs.iter().map(|e| e.code.as_str()).collect();
                if !codes.iter().any(|c| ["E033", "E017", "E019"].contains(c)) {
                    out.violate(
                        format!("c03/{fam}/bad-reference-not-diagnosed/{}", match &errs[0] { RErr::DoesNotExist(_) => "designates-nothing", RErr::WrongKind { .. } => "wrong-kind", RErr::AliasCycle(_) => "alias-cycle" }),
                        format!("the reference model expects {:?} but the compiler reported {:?}\n--- input ---\n{}", errs, codes, input()),
                    );
                }
                format!("error:{}", match &errs[0] { RErr::DoesNotExist(_) => "E033", RErr::WrongKind { .. } => "E017", RErr::AliasCycle(_) => "E019" })
            }
        }
    }
}

pub struct ScopeProduct;
impl ScopeProduct {
    fn decode(idx: u64) -> ([u64; 3], usize, u64) {
        let k1 = idx % N_KINDS;
        let k2 = (idx / N_KINDS) % N_KINDS;
        let k3 = (idx / N_KINDS / N_KINDS) % N_KINDS;
        let rest = idx / (N_KINDS * N_KINDS * N_KINDS);
        let r = (rest % 3) as usize;
        let pos = rest / 3;
        ([k1, k2, k3], r, pos)
    }
}
impl Family for ScopeProduct {
    fn name(&self) -> String {
        "scopes/7^3 kinds x 3 levels x 9 positions (x 12 spellings x 6 file orders inside each case)".into()
    }
    fn len(&self) -> u64 {
        N_KINDS * N_KINDS * N_KINDS * 3 * N_POS
    }
    fn describe(&self, idx: u64) -> Value {
        let (kinds, r, pos) = Self::decode(idx);
        let p = build(kinds, r, pos, "X", 0);
        let rendered = render_program(&p, &Layout::uniform(Sep::Space, Commas::None));
        json!({"kinds_of_X_per_level": kinds, "referencing_level": r + 1, "position": pos, "spellings": SPELLINGS, "file_orders": 6, "example_with_spelling_X": rendered.iter().map(|r| r.text.clone()).collect::<Vec<_>>()})
    }
    fn run(&self, idx: u64) -> CaseOut {
        let (kinds, r, pos) = Self::decode(idx);
        let mut out = CaseOut::new(hash_str(&format!("c03sp{idx}")));
        out.steps = 0;
        out.validated = 1;
        let layout = Layout::uniform(Sep::Space, Commas::None);
        let mut classes = std::collections::BTreeSet::new();
        for s in SPELLINGS {
            // is the bound entity the first candidate looked at?
            {
                let p = build(kinds, r, pos, s, 0);
                let t = Table::build(&p);
                let (hit, tried) = t.lookup(s, LEVELS[r]);
                if hit.is_none() || tried.len() > 1 || !expected_errors(&p).is_empty() {
                    out.nontrivial = true;
                }
            }
            for o in 0..6 {
                let p = build(kinds, r, pos, s, o);
                let c = check_program(&p, &layout, "scopes", &mut out);
                classes.insert(c);
            }
        }
        let mut seen = std::collections::HashSet::new();
        out.violations.retain(|v| seen.insert(v.sig.clone()));
        out.class = classes.into_iter().collect::<Vec<_>>().join("+");
        out
    }
}

/// Names spelled like the keywords of the primitive types. `\int32` is a name, not the keyword: a reference to it
/// designates the user-defined entity of that name that the scope walk finds - and nothing when there is none; it
/// must never end up at the primitive type (which slicec keeps in the same lookup table, under the keyword).
pub struct KeywordNames;
const KN_DEFS: u64 = 4; // nothing of that name / a struct / an interface / an alias of uint8, in module M
const KN_REF_MODULES: [&str; 3] = ["M", "N", "M::Sub"];
const KN_SPELLINGS: [&str; 4] = ["\\{k}", "::\\{k}", "M::\\{k}", "::M::\\{k}"];
impl KeywordNames {
    fn build(idx: u64) -> (Program, String) {
        let mut i = idx;
        let order = i % 2;
        i /= 2;
        let pos = i % N_POS;
        i /= N_POS;
        let spelling = KN_SPELLINGS[(i % 4) as usize];
        i /= 4;
        let rmod = KN_REF_MODULES[(i % 3) as usize];
        i /= 3;
        let def = i % KN_DEFS;
        i /= KN_DEFS;
        let k = PRIMITIVES[i as usize];
        let mut m = MFile::module("M");
        m.defs.push(st("Plain", vec![MField::new("f", MType::prim(k))]));
        let mut d = match def {
            0 => None,
            1 => Some(st("x", vec![])),
            2 => Some(iface("x", vec![], vec![])),
            _ => Some(alias("x", MType::prim("uint8"))),
        };
        if let Some(d) = &mut d {
            d.common_mut().name = MIdent { name: k.to_string(), escaped: true };
        }
        if let Some(d) = d {
            m.defs.push(d);
        }
        let mut r = if rmod == "M" { m.clone() } else { MFile::module(rmod) };
        let sp = spelling.replace("{k}", k);
        r.defs.push(user(pos, &sp));
        // (the keyword itself keeps its meaning next to the name)
        r.defs.push(st("KeywordUser", vec![MField::new("g", MType::seq(MType::prim(k)).opt())]));
        let program = if rmod == "M" {
            vec![r]
        } else if order == 0 {
            vec![m, r]
        } else {
            vec![r, m]
        };
        (program, format!("keyword {k}, {} named \\{k} in M, reference {sp} from module {rmod}, position {pos}", ["nothing", "a struct", "an interface", "an alias of uint8"][def as usize]))
    }
}
impl Family for KeywordNames {
    fn name(&self) -> String {
        "keyword-names/16 primitive keywords x {nothing, struct, interface, alias} named \\keyword in M x references \\k, ::\\k, M::\\k, ::M::\\k from M, N and M::Sub x 9 positions x 2 file orders".into()
    }
    fn len(&self) -> u64 {
        PRIMITIVES.len() as u64 * KN_DEFS * 3 * 4 * N_POS * 2
    }
    fn describe(&self, idx: u64) -> Value {
        let (p, what) = Self::build(idx);
        let rendered = render_program(&p, &Layout::uniform(Sep::Space, Commas::None));
        json!({"case": what, "files": rendered.iter().map(|r| r.text.clone()).collect::<Vec<_>>()})
    }
    fn run(&self, idx: u64) -> CaseOut {
        let (p, _) = Self::build(idx);
        let mut out = CaseOut::new(hash_str(&format!("c03kn{:?}", render_program(&p, &Layout::uniform(Sep::Space, Commas::None)).iter().map(|r| r.text.clone()).collect::<Vec<_>>())));
        out.steps = 0;
        out.validated = 1;
        out.nontrivial = true;
        out.class = check_program(&p, &Layout::uniform(Sep::Space, Commas::None), "keyword-names", &mut out);
        out
    }
}

/// Module names that are textual prefixes of each other (Net, NetUtil, Net::NetUtil) and a nested module that repeats
/// its parent's name (A, A::A): the search goes outwards module by module - a name is never matched against the TEXT
/// of a scope.
pub struct PrefixNamedModules;
const PNM_LAYOUTS: [(&[&str; 3], &str, &[&str; 5]); 2] = [
    (&["Net", "NetUtil", "Net::NetUtil"], "Net", &["NetUtil::S", "S", "::NetUtil::S", "Net::NetUtil::S", "::Net::S"]),
    (&["A", "A::A", "A::A::A"], "A::A", &["A::S", "S", "::A::S", "A::A::S", "::A::A::A::S"]),
];
impl PrefixNamedModules {
    fn build(idx: u64) -> (Program, String) {
        let mut i = idx;
        let order = (i % 6) as usize;
        i /= 6;
        let pos = i % N_POS;
        i /= N_POS;
        let sp = (i % 5) as usize;
        i /= 5;
        let present = i % 8; // which of the three modules define S
        i /= 8;
        let (mods, user_mod, spellings) = PNM_LAYOUTS[i as usize];
        let mut files = vec![];
        for (k, m) in mods.iter().enumerate() {
            let mut f = MFile::module(m);
            if present >> k & 1 == 1 {
                // (an interface in the third module: base position and wrong-kind outcomes both occur)
                f.defs.push(if k == 2 { iface("S", vec![], vec![]) } else { st("S", vec![]) });
            }
            f.defs.push(st(&format!("Filler{k}"), vec![]));
            if *m == user_mod {
                f.defs.push(user(pos, spellings[sp]));
            }
            files.push(f);
        }
        let program: Program = ORDERS[order].iter().map(|k| files[*k].clone()).collect();
        (program, format!("modules {mods:?}, S defined in {:?}, reference {} from {user_mod}, position {pos}", (0..3).filter(|k| present >> k & 1 == 1).map(|k| mods[k]).collect::<Vec<_>>(), spellings[sp]))
    }
}
impl Family for PrefixNamedModules {
    fn name(&self) -> String {
        "prefix-named-modules/2 layouts (Net, NetUtil, Net::NetUtil; A, A::A, A::A::A) x S defined in every subset of the three modules x 5 reference spellings x 9 positions x 6 file orders".into()
    }
    fn len(&self) -> u64 {
        2 * 8 * 5 * N_POS * 6
    }
    fn describe(&self, idx: u64) -> Value {
        let (p, what) = Self::build(idx);
        let rendered = render_program(&p, &Layout::uniform(Sep::Space, Commas::None));
        json!({"case": what, "files": rendered.iter().map(|r| r.text.clone()).collect::<Vec<_>>()})
    }
    fn run(&self, idx: u64) -> CaseOut {
        let (p, what) = Self::build(idx);
        let mut out = CaseOut::new(hash_str(&format!("c03pnm{what}{}", idx % 6)));
        out.steps = 0;
        out.validated = 1;
        out.nontrivial = true;
        out.class = check_program(&p, &Layout::uniform(Sep::Space, Commas::None), "prefix-named-modules", &mut out);
        out
    }
}

/// A refused file next to healthy ones: discarding what it had added to the AST leaves every definition of the other
/// files retrievable by its fully scoped name - also a definition named like a nested module of another file.
pub struct RetrievalNextToARefusedFile;
const RR_REFUSED: [&str; 4] = ["module Bad\nstruct T { x y }\n", "struct NoModule {}\n", "module A\nstruct B2 {}\nstruct {\n", "module A::B\nstruct Again {}\nstruct T { x y }\n"];
impl RetrievalNextToARefusedFile {
    fn texts(idx: u64) -> Vec<String> {
        let healthy = ["module A\nstruct B { f: int32 }\nenum E { V }\n", "module A::B\nstruct X { g: int32 }\ninterface I { op() }\n", "module Z\ncustom C\ntypealias T = int32\n"];
        let refused = RR_REFUSED[(idx % 4) as usize];
        let order = ((idx / 4) % 6) as usize;
        let at = (idx / 24) as usize; // where the refused file stands among the three healthy ones: 0..=3
        let mut v: Vec<String> = ORDERS[order].iter().map(|k| healthy[*k].to_string()).collect();
        v.insert(at, refused.to_string());
        v
    }
}
impl Family for RetrievalNextToARefusedFile {
    fn name(&self) -> String {
        "retrieval-next-to-a-refused-file/3 healthy files (module A with struct B, module A::B, module Z) in all 6 orders x 4 refused files (syntax error, no module, the same module, the nested module) at every position: every definition, field, enumerator and operation of the healthy files is retrievable by its scoped name with its kind".into()
    }
    fn len(&self) -> u64 {
        4 * 6 * 4
    }
    fn describe(&self, idx: u64) -> Value {
        json!({"files": Self::texts(idx)})
    }
    fn run(&self, idx: u64) -> CaseOut {
        let texts = Self::texts(idx);
        let mut out = CaseOut::new(hash_str(&texts.join("\u{1}")));
        out.validated = 1;
        out.nontrivial = true;
        let refs: Vec<&str> = texts.iter().map(|s| s.as_str()).collect();
        let input = || texts.join("\n--- next file ---\n");
        match compile_texts(&refs, None) {
            Err((loc, msg)) => out.violate(format!("c03/retrieval-next-to-a-refused-file/panic@{loc}"), format!("{msg}\n--- input ---\n{}", input())),
            Ok((ast, _files, diags)) => {
                if !diags.iter().any(|d| d.level == "error") {
                    out.violate("c03/retrieval-next-to-a-refused-file/refused-file-accepted", input());
                }
                let checks: [(&str, bool); 11] = [
                    ("A::B", ast.find_element::<Struct>("A::B").is_ok()),
                    ("A::B::f", ast.find_element::<Field>("A::B::f").is_ok()),
                    ("A::E", ast.find_element::<Enum>("A::E").is_ok()),
                    ("A::E::V", ast.find_element::<Enumerator>("A::E::V").is_ok()),
                    ("A::B::X", ast.find_element::<Struct>("A::B::X").is_ok()),
                    ("A::B::X::g", ast.find_element::<Field>("A::B::X::g").is_ok()),
                    ("A::B::I", ast.find_element::<Interface>("A::B::I").is_ok()),
                    ("A::B::I::op", ast.find_element::<Operation>("A::B::I::op").is_ok()),
                    ("Z::C", ast.find_element::<CustomType>("Z::C").is_ok()),
                    ("Z::T", ast.find_element::<TypeAlias>("Z::T").is_ok()),
                    ("B from scope A", ast.find_element_with_scope::<Struct>("B", "A").is_ok()),
                ];
                for (name, ok) in checks {
                    if !ok {
                        out.violate("c03/retrieval-next-to-a-refused-file/not-retrievable-by-scoped-name", format!("{name} is defined in a healthy file but cannot be retrieved (with its kind) from the AST after the compilation\n--- input ---\n{}", input()));
                        break;
                    }
                }
                out.class = format!("refused{}", idx % 4);
            }
        }
        out
    }
}

/// Alias chains with attributes.
pub struct AliasChains;
const ENDS: usize = 6;
const USEPOS: u64 = 9;
impl AliasChains {
    fn build(idx: u64) -> Program {
        let len = (idx % 4) as usize + 1;
        let end = ((idx / 4) % ENDS as u64) as usize;
        let usepos = ((idx / 4 / ENDS as u64) % USEPOS) as usize;
        let spread = (idx / 4 / ENDS as u64 / USEPOS) % 2 == 1;
        let end_t = match end {
            0 => MType::prim("int32"),
            1 => MType::named("::A::ES"),
            2 => MType::seq(MType::prim("int32")),
            3 => MType::dict(MType::prim("string"), MType::named("::A::ES").opt()),
            4 => MType::named("::A::EC"),
            _ => MType::result(MType::named("::A::EE"), MType::prim("string")),
        };
        let mut fa = MFile::module("A");
        fa.defs.push(st("ES", vec![]));
        fa.defs.push(custom("EC"));
        fa.defs.push(en("EE", None, vec![enumerator("E0")]));
        let mut fb = MFile::module("A::B");
        // link i lives in A (even i) or A::B (odd i) when spread; link i aliases link i+1 (bare name when it is visible)
        for i in 0..len {
            let target = if i + 1 == len { end_t.clone() } else { MType::named(&format!("::{}::L{}", if spread && (i + 1) % 2 == 1 { "A::B" } else { "A" }, i + 1)) };
            let d = alias(&format!("L{i}"), target.attr(MAttr::with("cs::link", vec![MArg::Ident(format!("n{i}"))])));
            if spread && i % 2 == 1 {
                fb.defs.push(d);
            } else {
                fa.defs.push(d);
            }
        }
        let use_t = MType::named("L0").attr(MAttr::new("cs::use"));
        let u = match usepos {
            0 => st("U", vec![MField::new("f", use_t.opt())]),
            1 => iface("U", vec![], vec![op("o", vec![MParam::new("p", use_t)], MRet::None)]),
            2 => st("U", vec![MField::new("f", MType::seq(use_t))]),
            3 => st("U", vec![MField::new("f", MType::dict(MType::prim("int32"), use_t))]),
            4 => st("U", vec![MField::new("f", MType::result(use_t, MType::prim("string")))]),
            5 => iface("U", vec![], vec![op("o", vec![], MRet::Single { tag: None, stream: false, ty: use_t })]),
            6 => iface("U", vec![], vec![op("o", vec![], MRet::Tuple(vec![MParam::new("a", MType::prim("bool")), MParam::new("b", use_t)]))]),
            7 => en("U", None, vec![MEnumerator { c: MCommon::new("V"), fields: Some(vec![MField::new("f", use_t)]), value: None }]),
            _ => alias("U", use_t),
        };
        fb.defs.push(u);
        vec![fb, fa]
    }
}
impl Family for AliasChains {
    fn name(&self) -> String {
        "alias-chains/length 1..4 x 6 final targets x 9 use positions (field, parameter, sequence element, dictionary value, result success, single return, tuple member, enumerator field, another alias) x links in one or two modules, an attribute on every link and on the use site".into()
    }
    fn len(&self) -> u64 {
        4 * ENDS as u64 * USEPOS * 2 * 2
    }
    fn describe(&self, idx: u64) -> Value {
        let p = Self::build(idx % (self.len() / 2));
        let rendered = render_program(&p, &Layout::uniform(Sep::Space, Commas::None));
        json!({"files": rendered.iter().map(|r| r.text.clone()).collect::<Vec<_>>(), "reversed_file_order": idx >= self.len() / 2})
    }
    fn run(&self, idx: u64) -> CaseOut {
        let half = self.len() / 2;
        let mut p = Self::build(idx % half);
        if idx >= half {
            p.reverse();
        }
        let mut out = CaseOut::new(hash_str(&format!("c03ac{idx}")));
        out.steps = 0;
        out.validated = 1;
        out.nontrivial = true;
        out.class = check_program(&p, &Layout::uniform(Sep::Space, Commas::None), "alias-chains", &mut out);
        out
    }
}

/// Alias chains whose links are written with RELATIVE names that resolve differently depending on the module the
/// link is written in: every link must be looked up from the scope of the alias being followed.
pub struct RelativeChains;
impl RelativeChains {
    fn build(idx: u64) -> Program {
        // modules P, Q, R each define T (of a different kind) and R defines nothing else; chain: U::use -> P::X1 -> Q::X2 -> [Q|R]::X3 -> T
        let len = (idx % 3) as usize + 1; // number of alias links after X1
        let usepos = ((idx / 3) % 3) as usize;
        // how the last link writes the bare name: alone, or nested inside an anonymous type
        let end = ((idx / 9) % 4) as usize;
        let mods = ["P", "Q", "R", "P::In"];
        let mut files: Vec<MFile> = mods.iter().map(|m| MFile::module(m)).collect();
        files[0].defs.push(st("T", vec![]));
        files[1].defs.push(en("T", Some(MType::prim("uint8")), vec![enumerator("E0")]));
        files[2].defs.push(custom("T"));
        files[3].defs.push(alias("T", MType::prim("string")));
        // X1 in P aliases Q::X2 ... the last link aliases the bare name T (which must be the T of ITS module)
        let homes = [0usize, 1, 2, 3];
        for k in 0..=len {
            let home = homes[k % 4];
            let bare = || MType::named("T");
            let target = if k == len {
                match end {
                    0 => bare(),
                    1 => MType::seq(bare()),
                    2 => MType::dict(MType::prim("string"), bare().opt()),
                    _ => MType::result(bare(), MType::seq(bare())),
                }
            } else { MType::named(&format!("::{}::X{}", mods[homes[(k + 1) % 4]], k + 2)) };
            // intermediate links written relatively where that is possible: from P::In, "X.." of P is visible
            files[home].defs.push(alias(&format!("X{}", k + 1), target.attr(MAttr::with("cs::k", vec![MArg::Ident(format!("k{k}"))]))));
        }
        let mut u = MFile::module("U");
        u.defs.push(st("T", vec![MField::new("decoy", MType::prim("bool"))]));
        let t = MType::named("P::X1");
        u.defs.push(match usepos {
            0 => st("Use", vec![MField::new("f", t)]),
            1 => iface("Use", vec![], vec![op("o", vec![MParam::new("p", t.opt())], MRet::None)]),
            _ => st("Use", vec![MField::new("f", MType::dict(MType::prim("int32"), t))]),
        });
        files.push(u);
        files
    }
}
impl Family for RelativeChains {
    fn name(&self) -> String {
        "relative-alias-chains/chains of 2..4 links across 4 modules that each define a different T; the last link says 'T', bare or nested in Sequence / Dictionary value / Result arms x 3 use positions x 2 file orders".into()
    }
    fn len(&self) -> u64 {
        3 * 3 * 4 * 2
    }
    fn describe(&self, idx: u64) -> Value {
        let p = Self::build(idx % 36);
        let rendered = render_program(&p, &Layout::uniform(Sep::Space, Commas::None));
        json!({"files": rendered.iter().map(|r| r.text.clone()).collect::<Vec<_>>(), "reversed_file_order": idx >= 36})
    }
    fn run(&self, idx: u64) -> CaseOut {
        let mut p = Self::build(idx % 36);
        if idx >= 36 {
            p.reverse();
        }
        let mut out = CaseOut::new(hash_str(&format!("c03rc{idx}")));
        out.steps = 0;
        out.validated = 1;
        out.nontrivial = true;
        out.class = check_program(&p, &Layout::uniform(Sep::Space, Commas::None), "relative-alias-chains", &mut out);
        out
    }
}


/// A module whose nested identifier equals the scoped identifier of an alias (`module M::T` next to `typealias T = X`
/// in `M`), and which defines the aliased name too: the name written in the alias is looked up from the alias's
/// MODULE scope (M, then outwards), so every use of the alias - directly or one link down a chain - designates M::X.
pub struct ModuleNamedLikeAnAlias;
impl ModuleNamedLikeAnAlias {
    fn build(idx: u64) -> (Vec<String>, &'static str) {
        let chain = idx % 2 == 1; // Outer -> T -> X
        let x_kind = (idx / 2) % 3; // kind of M::X
        let other_kind = (idx / 6) % 3; // kind of the decoy M::T::X
        let usepos = (idx / 18) % 3;
        let decoy_first = (idx / 54) % 2 == 1;
        let def = |k: u64, name: &str| match k {
            0 => format!("struct {name} {{}}"),
            1 => format!("enum {name} {{ E0 }}"),
            _ => format!("custom {name}"),
        };
        let expected = ["def:struct:M::X", "def:enum:M::X", "def:custom:M::X"][x_kind as usize];
        let used = if chain { "Outer" } else { "T" };
        let user = match usepos {
            0 => format!("struct U {{ f: {used} }}"),
            1 => format!("interface U {{ o(p: {used}?) }}"),
            _ => format!("struct U {{ f: Sequence<{used}> }}"),
        };
        let main = format!("module M\n{}\ntypealias T = X\n{}{}\n", def(x_kind, "X"), if chain { "typealias Outer = T\n" } else { "" }, user);
        let decoy = format!("module M::T\n{}\n", def(other_kind, "X"));
        (if decoy_first { vec![decoy, main] } else { vec![main, decoy] }, expected)
    }
}
impl Family for ModuleNamedLikeAnAlias {
    fn name(&self) -> String {
        "module-named-like-an-alias/alias (alone or one link down a chain) x 3 kinds of the aliased definition x 3 kinds of a same-named definition in the module named like the alias x 3 use positions x 2 file orders".into()
    }
    fn len(&self) -> u64 {
        2 * 3 * 3 * 3 * 2
    }
    fn describe(&self, idx: u64) -> Value {
        let (files, exp) = Self::build(idx);
        json!({"files": files, "every_use_of_the_alias_must_be": exp})
    }
    fn run(&self, idx: u64) -> CaseOut {
        let (files, expected) = Self::build(idx);
        let mut out = CaseOut::new(hash_str(&format!("c03mna{idx}")));
        out.validated = 1;
        out.nontrivial = true;
        let refs: Vec<&str> = files.iter().map(|s| s.as_str()).collect();
        let show = || files.join("--- next file ---\n");
        let fam = "module-named-like-an-alias";
        match compile_texts(&refs, None) {
            Err((loc, msg)) => out.violate(format!("c03/{fam}/panic@{loc}"), format!("panic at {loc}: {msg}\n{}", show())),
            Ok((_ast, sfiles, diags)) => {
                if let Some(e) = diags.iter().find(|d| d.level == "error") {
                    out.violate(format!("c03/{fam}/resolvable-reference-rejected/{}", e.code), format!("{} {}\n{}", e.code, e.message, show()));
                    out.class = "rejected".into();
                    return out;
                }
                // every leaf type below the definition U of the main file
                let main = sfiles.iter().find(|f| f.raw_text.contains("module M\n")).unwrap();
                let tree = crate::model::observe::file(main);
                fn leaves(n: &Node, inside_u: bool, out: &mut Vec<String>) {
                    let inside = inside_u || n.get("id") == Some("U");
                    if inside && n.kind == "type" {
                        if let Some(is) = n.get("is") {
                            if is.starts_with("def:") || is.starts_with("unpatched") {
                                out.push(is.to_string());
                            }
                        }
                    }
                    for c in &n.children {
                        leaves(c, inside, out);
                    }
                }
                let mut got = vec![];
                leaves(&tree, false, &mut got);
                out.class = format!("bound:{}", got.len());
                if got.is_empty() || got.iter().any(|g| g != expected) {
                    out.violate(format!("c03/{fam}/bound-differently"), format!("the use of the alias must designate {expected}, observed {got:?}\n{}", show()));
                }
            }
        }
        out
    }
}

pub fn families(_tier: &str) -> Vec<Box<dyn Family>> {
    vec![Box::new(RelativeChains), Box::new(AliasChains), Box::new(ModuleNamedLikeAnAlias), Box::new(KeywordNames), Box::new(PrefixNamedModules), Box::new(RetrievalNextToARefusedFile), Box::new(ScopeProduct)]
}
